"""Shared helpers for /verif checks: building the harness, running TLC, caching, evidence."""
import hashlib
import json
import os
import re
import shutil
import subprocess
import sys
import time
from concurrent.futures import ThreadPoolExecutor

VERIF = os.path.dirname(os.path.dirname(os.path.abspath(__file__)))
REPO = os.environ.get("VERIF_REPO_DIR", "/repo")  # overridden only by seeded/runcheck_iso.sh (isolated copies)
SPEC = os.path.join(VERIF, "spec")
HARNESS = os.path.join(VERIF, "harness")
WORK = os.path.join(VERIF, "work")
EVID = os.path.join(VERIF, "evidence")
REPLAYS = os.path.join(VERIF, "replays")
UVERIF = os.path.join(HARNESS, "target", "debug", "uverif")
TLA_JAR = "/opt/veriftools/tla/tla2tools.jar"


class ToolError(Exception):
    pass


def log(*a):
    print("[verif]", *a, file=sys.stderr, flush=True)


def seed():
    try:
        return int(os.environ.get("VERIF_SEED", "1"))
    except ValueError:
        return 1


def sh(cmd, timeout=None, env=None, cwd=None, check=False):
    e = dict(os.environ)
    if env:
        e.update(env)
    p = subprocess.run(cmd, shell=isinstance(cmd, str), cwd=cwd, env=e, timeout=timeout,
                       stdout=subprocess.PIPE, stderr=subprocess.STDOUT, text=True, errors="replace")
    if check and p.returncode != 0:
        raise ToolError("command failed (%s): %s\n%s" % (p.returncode, cmd, p.stdout[-4000:]))
    return p.returncode, p.stdout


def build_harness():
    """Incremental build of the harness against /repo's current working tree (hooks on)."""
    t0 = time.time()
    env = {"CARGO_NET_OFFLINE": "true"}
    rc, out = sh("cargo build --offline 2>&1", cwd=HARNESS, env=env, timeout=3600)
    if rc != 0:
        tail = "\n".join([l for l in out.splitlines() if l.startswith("error") or "-->" in l][:40])
        raise ToolError("harness build failed against the current /repo tree:\n" + tail + "\n" + out[-3000:])
    log("harness built in %.1fs" % (time.time() - t0))


def tree_hash(extra=()):
    """sha256 over the repo sources and the verification sources (cache key component)."""
    h = hashlib.sha256()
    roots = [os.path.join(REPO, "src"), os.path.join(REPO, "Cargo.toml"), os.path.join(REPO, "Cargo.lock"),
             SPEC, os.path.join(HARNESS, "src"), os.path.join(HARNESS, "Cargo.toml"),
             os.path.join(VERIF, "lib"), os.path.join(VERIF, "check"), os.path.join(VERIF, "known_findings.json")]
    files = []
    for r in roots:
        if os.path.isfile(r):
            files.append(r)
        elif os.path.isdir(r):
            for d, _, fs in os.walk(r):
                if "__pycache__" in d:
                    continue
                for f in fs:
                    if f.endswith(".pyc"):
                        continue
                    files.append(os.path.join(d, f))
    for f in sorted(files):
        h.update(f.encode())
        try:
            with open(f, "rb") as fh:
                h.update(fh.read())
        except OSError:
            pass
    for x in extra:
        h.update(str(x).encode())
    # a run that skipped the spec-level model checking must never satisfy a run that wants it
    h.update(("skipmc=%s" % bool(os.environ.get("VERIF_SKIP_MC"))).encode())
    return h.hexdigest()[:24]


def cache_get(key):
    p = os.path.join(WORK, "cache", key + ".json")
    if os.path.exists(p):
        try:
            return json.load(open(p))
        except Exception:
            return None
    return None


def cache_put(key, val):
    d = os.path.join(WORK, "cache")
    os.makedirs(d, exist_ok=True)
    tmp = os.path.join(d, key + ".tmp%d" % os.getpid())
    json.dump(val, open(tmp, "w"))
    os.replace(tmp, os.path.join(d, key + ".json"))


def fresh_dir(path):
    shutil.rmtree(path, ignore_errors=True)
    os.makedirs(path, exist_ok=True)
    return path


# ---------------------------------------------------------------------------------------------
# TLC
# ---------------------------------------------------------------------------------------------

def tlc(module, cfg, metadir, env=None, workers=1, extra="", timeout=1800, xmx="2g", deque=False, simulate=None):
    """Run TLC; returns (rc, output). `module`/`cfg` are paths relative to SPEC."""
    os.makedirs(metadir, exist_ok=True)
    jopts = "-Xss1g -Xmx%s" % xmx
    if deque:
        jopts += " -Dtlc2.tool.queue.IStateQueue=StateDeque"
    e = {"JAVA_TOOL_OPTIONS": jopts}
    if env:
        e.update(env)
    cmd = "timeout %d tlc -workers %s -metadir %s -cleanup -noGenerateSpecTE %s %s -config %s %s" % (
        timeout, workers, metadir, ("-simulate " + simulate) if simulate else "", extra, cfg, module)
    rc, out = sh(cmd, cwd=SPEC, env=e, timeout=timeout + 60)
    shutil.rmtree(metadir, ignore_errors=True)
    return rc, out


def tlc_stats(out):
    """Extract generated/distinct state counts from TLC output."""
    m = re.findall(r"(\d+) states generated, (\d+) distinct states found", out)
    if not m:
        return None
    gen, dist = m[-1]
    return {"generated": int(gen), "distinct": int(dist)}


def tlc_ok(rc, out):
    return rc == 0 and "Model checking completed. No error has been found." in out


def tlc_model_check(name, module, cfg, workers=8, timeout=1800, xmx="8g", extra="-coverage 1"):
    """Spec-level exhaustive run. Returns dict(states, transitions, ok, violated, out_tail)."""
    t0 = time.time()
    rc, out = tlc(module, cfg, os.path.join(WORK, "tlcmeta_" + name), workers=workers, timeout=timeout, xmx=xmx, extra=extra)
    st = tlc_stats(out)
    res = {"name": name, "rc": rc, "wall_s": round(time.time() - t0, 1), "ok": tlc_ok(rc, out)}
    if st:
        res["states"] = st["distinct"]
        res["transitions"] = st["generated"]
    m = re.search(r"Invariant (\S+) is violated|Temporal properties were violated|Temporal property (\S+) was violated|Action property (\S+) is violated", out)
    if m:
        res["violated"] = m.group(0)
    if not res["ok"]:
        res["out_tail"] = out[-3000:]
    # coverage: actions never taken
    never = re.findall(r"<(\w+) line \d+, col \d+ to line \d+, col \d+ of module \w+>: 0:0", out)
    res["actions_never_taken"] = sorted(set(never))
    log("TLC %s: %s distinct states, %.1fs, ok=%s%s" % (name, res.get("states"), res["wall_s"], res["ok"], (" violated=" + res["violated"]) if res.get("violated") else ""))
    return res


def validate_shards(trace_spec, cfg, shard_files, jobs=8, timeout=1800, deque=False):
    """Run the trace spec on each shard (ndjson) in parallel. Returns list of verdict dicts
    {shard, n, viol:[{line,mon}], consumed:bool} ; raises ToolError on TLC failure."""
    def one(i_path):
        i, path = i_path
        outp = path + ".verdict.json"
        if os.path.exists(outp):
            os.remove(outp)
        rc, out = tlc(trace_spec, cfg, os.path.join(WORK, "tlcmeta_tr_%d_%d" % (os.getpid(), i)),
                      env={"TRACE": path, "OUT": outp}, workers=1, timeout=timeout, deque=deque)
        if not os.path.exists(outp):
            raise ToolError("TLC produced no verdict for %s (rc=%s)\n%s" % (path, rc, out[-3000:]))
        v = json.load(open(outp))
        v["shard"] = path
        v["consumed"] = tlc_ok(rc, out)
        if not v["consumed"]:
            v["tlc_tail"] = out[-2000:]
        return v
    with ThreadPoolExecutor(max_workers=jobs) as ex:
        return list(ex.map(one, list(enumerate(shard_files))))


def make_shards(trace_files, out_dir, nshards):
    """Concatenate trace files round-robin into nshards shard files.
    Returns (shard_paths, index) where index[shard] = [(trace_path, first_line, n_lines)]."""
    nshards = max(1, min(nshards, len(trace_files)))
    os.makedirs(out_dir, exist_ok=True)
    paths = [os.path.join(out_dir, "shard_%03d.ndjson" % i) for i in range(nshards)]
    handles = [open(p, "w") for p in paths]
    index = {p: [] for p in paths}
    lines = [0] * nshards
    for k, tf in enumerate(trace_files):
        s = k % nshards
        n = 0
        with open(tf) as f:
            for line in f:
                if line.strip():
                    handles[s].write(line if line.endswith("\n") else line + "\n")
                    n += 1
        index[paths[s]].append((tf, lines[s] + 1, n))
        lines[s] += n
    for h in handles:
        h.close()
    return paths, index


def locate(index, shard, line):
    for tf, first, n in index[shard]:
        if first <= line < first + n:
            return tf, line - first + 1
    return None, None


# ---------------------------------------------------------------------------------------------
# findings / evidence / exit
# ---------------------------------------------------------------------------------------------

def load_known():
    p = os.path.join(VERIF, "known_findings.json")
    if not os.path.exists(p):
        return []
    return json.load(open(p)).get("findings", [])


def split_known(prop, violations):
    """violations: list of dicts with at least 'key'. Returns (unknown, known_hits) where known_hits
    maps finding key -> (finding, count)."""
    known = [k for k in load_known() if k.get("property") == prop and k.get("status") == "known"]
    unknown, hits = [], {}
    for v in violations:
        hit = None
        for k in known:
            if re.fullmatch(k["key"], v["key"]):
                hit = k
                break
        if hit is None:
            unknown.append(v)
        else:
            hits.setdefault(hit["key"], [hit, 0])[1] += 1
    return unknown, hits


def write_evidence(prop, tier, level, coverage, wall_s, violations, assumptions=None):
    os.makedirs(EVID, exist_ok=True)
    ev = {
        "property_id": prop,
        "tier": tier,
        "seed": seed(),
        "level": level,
        "coverage": coverage,
        "assumptions": assumptions or [],
        "wall_s": round(wall_s, 2),
        "violations": violations,
    }
    json.dump(ev, open(os.path.join(EVID, prop + ".json"), "w"), indent=1)


def write_replay(prop, name, payload):
    os.makedirs(REPLAYS, exist_ok=True)
    p = os.path.join(REPLAYS, "%s_%s.json" % (prop, name))
    json.dump(payload, open(p, "w"), indent=1)
    return p


def finish(prop, unknown, hits, replay_of):
    """Print KNOWN-FINDING / VIOLATION lines and return the exit code."""
    for key, (finding, count) in hits.items():
        print("KNOWN-FINDING: property=%s %s (key=%s, %d occurrence(s) this run)" % (prop, finding["what"], key, count))
    if unknown:
        seen = set()
        for v in unknown:
            if v["key"] in seen:
                continue
            seen.add(v["key"])
            print("VIOLATION property=%s replay=%s" % (prop, replay_of(v)))
            print("  detail: %s" % v.get("detail", v["key"]))
        return 1
    return 0
