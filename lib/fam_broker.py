"""Broker family: C01 C04 C06 C10 C12 C18 (and the broker half of C13).

Pipeline: build harness -> (spec-level TLC on Broker_MC) -> drive the real MemBrokerService with
operation lists -> record every state and served view -> TLC evaluates the L1 monitors
(spec/BrokerMon.tla via spec/BrokerTrace.tla) on every line -> verdict per property.
"""
import glob
import hashlib
import json
import os
import time
from concurrent.futures import ProcessPoolExecutor

from vlib import (WORK, UVERIF, ToolError, build_harness, cache_get, cache_put, fresh_dir, log,
                  make_shards, locate, seed, sh, tree_hash, validate_shards, tlc_model_check)

FAMILY = ["C01", "C04", "C06", "C10", "C12", "C18"]

TIERS = {
    # (profile, traces, steps)
    "quick": [("mixed", 96, 45), ("failover", 48, 45), ("quorum", 24, 40), ("scalein", 48, 40)],
    # sized so that the whole family finishes in well under an hour on 14 validation JVMs (a first sizing of 4 600 traces
    # made single shards exceed the 2 GB heap of a validation JVM and the tier died with a tool error)
    "thorough": [("mixed", 600, 70), ("failover", 320, 70), ("quorum", 120, 60), ("scalein", 200, 60)],
}

RULES = {
    "C01": "trace = one operation history on the real broker; non-trivial iff some recorded state has a pending migration whose limit-1 view differs from the limit-0 view, or a migration coexists with a role-switched chunk; distinct by hash of the (op,res) sequence",
    "C04": "non-trivial iff the history has >= 8 events that changed some served proxy view; distinct by hash of the (op,res) sequence",
    "C06": "non-trivial iff the history contains a failover (takeover executed) of an in-cluster proxy while a migration is pending or after an earlier failover of the same cluster; distinct by hash of the (op,res) sequence",
    "C10": "non-trivial iff the history starts a scale-out or scale-in migration and later reaches a state without pending migration (all commits done, in generator-chosen order, possibly with failovers in between); distinct by hash of the (op,res) sequence",
    "C12": "non-trivial iff the history has a successful allocation and additionally a refused allocation or a replacing failover; distinct by hash of the (op,res) sequence",
    "C18": "non-trivial iff the history queries failures while some address has reports from >= 2 reporters or an expired report; distinct by hash of the (op,res) sequence",
}


def _features(path):
    """One pass over a trace: per-property non-triviality flags + signature."""
    f = {p: False for p in FAMILY}
    sig = hashlib.sha1()
    n = 0
    changed = 0
    prev_views = None
    takeovers = {}
    scale_started = False
    alloc_ok = False
    alloc_other = False
    ops = []
    with open(path) as fh:
        for line in fh:
            if not line.strip():
                continue
            e = json.loads(line)
            n += 1
            sig.update(("%s:%s;" % (e["op"], e["res"])).encode())
            ops.append((e["op"], e["res"]))
            S = e["S"]
            migrating = any(any(ch["mig"][0] or ch["mig"][1] for ch in c["chunks"]) for c in S["clusters"])
            switched = any(any(ch["role"] != "N" for ch in c["chunks"]) for c in S["clusters"])
            views = {v["limit"]: v for v in e["obs"]["views"]}
            if migrating and (views[0]["clusters"] != views[1]["clusters"] or switched):
                f["C01"] = True
            pv = {p["addr"]: p for p in views[0]["proxies"]}
            if prev_views is not None:
                if any(pv.get(a) != prev_views.get(a) for a in pv):
                    changed += 1
            prev_views = pv
            if e["op"] == "Failover" and e["res"] in ("OK", "NO_AVAILABLE_RESOURCE"):
                if e["out"].get("replaced") or e["res"] == "NO_AVAILABLE_RESOURCE":
                    cl = "x"
                    if migrating or takeovers.get(cl):
                        f["C06"] = True
                    takeovers[cl] = True
                if e["out"].get("replaced"):
                    alloc_other = True
            if e["op"] in ("MigrateSlots", "ScaleDown", "AutoScale") and e["res"] == "OK" and migrating:
                scale_started = True
            if scale_started and not migrating and S["clusters"]:
                f["C10"] = True
            if e["op"] in ("AddCluster", "AddNodes", "ScaleUpTo"):
                if e["res"] == "OK":
                    alloc_ok = True
                else:
                    alloc_other = True
            if e["op"] == "GetFailures":
                for fl in S["failures"]:
                    if len(fl["reports"]) >= 2:
                        f["C18"] = True
                # pre-state is the previous line; approximate with "any report recorded so far"
            if e["op"] == "GetFailures" and e["out"].get("failures") is not None and e["args"].get("quorum", 1) >= 2:
                f["C18"] = True
    f["C04"] = changed >= 8
    f["C12"] = alloc_ok and alloc_other
    return {"path": path, "n": n, "sig": sig.hexdigest(), "flags": f, "ops": ops[:60]}


def _gen_traces(tier, out_dir, sd):
    files = []
    for k, (profile, count, steps) in enumerate(TIERS[tier]):
        d = os.path.join(out_dir, profile)
        os.makedirs(d, exist_ok=True)
        # split generation over several processes
        procs = 8 if count >= 64 else 2
        per = (count + procs - 1) // procs
        cmds = []
        for j in range(procs):
            dj = os.path.join(d, "p%d" % j)
            cmds.append("%s broker-traces --out %s --count %d --steps %d --seed %d --profile %s" % (
                UVERIF, dj, per, steps, sd * 101 + k * 17 + j, profile))
        rc, out = sh(" & ".join(cmds) + " & wait", timeout=3600)
        for j in range(procs):
            files += sorted(glob.glob(os.path.join(d, "p%d" % j, "trace_*.ndjson")))
    if not files:
        raise ToolError("broker driver produced no traces")
    return files


def _gen_tlc_traces(tier, out_dir, sd):
    """spec -> implementation: behaviours of the Broker design spec generated by `tlc -simulate` (Broker_SIM.tla),
    translated into harness operations and replayed on the real broker."""
    from vlib import tlc
    want = 160 if tier == "quick" else 4000
    num = 30 if tier == "quick" else 400
    rc, out = tlc("Broker_SIM.tla", "Broker_SIM.cfg", os.path.join(WORK, "tlcmeta_broker_sim"), workers=1,
                  timeout=900 if tier == "quick" else 3000, extra="-simulate num=%d -depth 10 -seed %d" % (num, sd))
    lists = []
    seen = set()
    for line in out.splitlines():
        if not line.startswith('<<"OPS", "'):
            continue
        body = line[len('<<"OPS", "'):].rstrip()
        if body.endswith('">>'):
            body = body[:-3]
        try:
            hist = json.loads(body.encode().decode("unicode_escape"))
        except ValueError:
            continue
        sig = json.dumps(hist, sort_keys=True)
        if sig in seen:
            continue
        seen.add(sig)
        lists.append(hist)
    if not lists:
        raise ToolError("Broker_SIM produced no behaviours (rc=%s)\n%s" % (rc, out[-2000:]))
    # spread over the generated set deterministically
    step = max(1, len(lists) // want)
    lists = lists[::step][:want]

    def tr(o):
        op = o["op"]
        if op in ("AddCluster", "AddNodes", "ScaleDown"):
            return {"op": op, "name": o["name"], "n": o["n"]}
        if op in ("MigrateSlots", "DeleteFree", "Balance", "RemoveCluster"):
            return {"op": op, "name": o["name"]}
        if op == "Commit":
            return {"op": "Commit", "name": o["name"], "k": o["k"], "form": o["form"]}
        if op == "FailoverAt":
            return {"op": "FailoverAt", "name": o["name"], "chunk": o["chunk"], "half": o["half"]}
        if op == "ReAddFailed":
            return {"op": "ReAddFailed", "k": o["k"]}
        if op == "ChangeConfig":
            return {"op": "ChangeConfig", "name": o["name"], "key": "compression_strategy", "value": "allow_all"}
        raise ToolError("unknown symbolic op %r" % (o,))
    prefix = [{"op": "AddProxy", "host": h, "idx": i, "explicit_host": True, "index": None} for h in (1, 2, 3) for i in (0, 1)]
    d = os.path.join(out_dir, "tlc")
    os.makedirs(d, exist_ok=True)
    procs = 8
    cmds = []
    for j in range(procs):
        part = lists[j::procs]
        lf = os.path.join(d, "lists_%d.ndjson" % j)
        with open(lf, "w") as fh:
            for n, hist in enumerate(part):
                fh.write(json.dumps({"ops": prefix + [tr(o) for o in hist], "limit": (n + j) % 3}) + "\n")
        cmds.append("%s broker-replay-many --lists %s --out %s" % (UVERIF, lf, os.path.join(d, "p%d" % j)))
    rc, out2 = sh(" & ".join(cmds) + " & wait", timeout=3600)
    files = []
    for j in range(procs):
        files += sorted(glob.glob(os.path.join(d, "p%d" % j, "trace_*.ndjson")))
    if not files:
        raise ToolError("replay of TLC-generated behaviours produced no traces\n" + out2[-1500:])
    return files, len(seen)


def spec_level(tier):
    """Exhaustive TLC runs of the broker design spec."""
    if os.environ.get("VERIF_SKIP_MC"):
        return None
    cfgs = ["quick"] if tier == "quick" else ["thorough", "th_ordered", "th_skew", "th_scalein"]
    runs = [tlc_model_check("broker_" + c, "Broker_MC.tla", "Broker_MC_%s.cfg" % c, workers=8,
                            timeout=900 if tier == "quick" else 6000, xmx="12g") for c in cfgs]
    res = dict(runs[0])
    res["name"] = "Broker_MC[" + ",".join(cfgs) + "]"
    res["ok"] = all(r["ok"] for r in runs)
    res["wall_s"] = round(sum(r["wall_s"] for r in runs), 1)
    res["states"] = sum(r.get("states", 0) for r in runs)
    res["transitions"] = sum(r.get("transitions", 0) for r in runs)
    res["violated"] = next((r.get("violated") for r in runs if r.get("violated")), None)
    res["out_tail"] = "\n".join(r.get("out_tail", "") for r in runs if not r["ok"])
    return res


def run_family(tier):
    """Returns the family result dict (cached by tree hash + tier + seed)."""
    sd = seed()
    key = "broker_%s_%s_%d" % (tree_hash(), tier, sd)
    cached = cache_get(key)
    if cached:
        log("broker family: cache hit", key)
        return cached
    t0 = time.time()
    build_harness()
    mc = spec_level(tier)
    out_dir = fresh_dir(os.path.join(WORK, "broker_" + tier))
    files = _gen_traces(tier, out_dir, sd)
    log("generated %d traces in %.1fs" % (len(files), time.time() - t0))
    tlc_files, tlc_distinct = _gen_tlc_traces(tier, out_dir, sd)
    log("replayed %d TLC-generated behaviours (of %d distinct) in %.1fs" % (len(tlc_files), tlc_distinct, time.time() - t0))
    files = files + tlc_files
    # shards of about the same size in both tiers (~18 traces each): memory per validation JVM stays bounded
    shards, index = make_shards(files, os.path.join(out_dir, "shards"), 12 if tier == "quick" else max(14, len(files) // 16))
    verdicts = validate_shards("BrokerTrace.tla", "BrokerTrace.cfg", shards, jobs=12 if tier == "quick" else 14,
                               timeout=600 if tier == "quick" else 3400)
    viols = []
    divs = []
    events = 0
    for v in verdicts:
        events += v["n"]
        if not v["consumed"]:
            raise ToolError("trace spec did not consume the whole shard %s\n%s" % (v["shard"], v.get("tlc_tail", "")))
        for x in v["viol"]:
            tf, ln = locate(index, v["shard"], x["line"])
            viols.append({"mon": x["mon"], "trace": tf, "line": ln})
        for x in v.get("div", []):
            tf, ln = locate(index, v["shard"], x["line"])
            divs.append({"mon": x["mon"], "trace": tf, "line": ln})
    div_detail = []
    for dv in divs[:200]:
        e = json.loads(open(dv["trace"]).read().splitlines()[dv["line"] - 1])
        div_detail.append({"mon": dv["mon"], "trace": os.path.basename(dv["trace"]), "line": dv["line"],
                           "op": e["op"], "args": e["args"], "res": e["res"]})
    with ProcessPoolExecutor(max_workers=12) as ex:
        feats = list(ex.map(_features, files, chunksize=8))
    # attach event info + replay material to violations (bounded)
    by_trace = {}
    for v in viols:
        by_trace.setdefault(v["trace"], []).append(v)
    detailed = []
    for tf, vs in by_trace.items():
        lines = open(tf).read().splitlines()
        opsf = tf.replace("trace_", "ops_").replace(".ndjson", ".json")
        meta = json.load(open(opsf))
        for v in vs:
            e = json.loads(lines[v["line"] - 1])
            v["op"] = e["op"]
            v["res"] = e["res"]
            v["args"] = e["args"]
            v["key"] = "%s:%s" % (v["mon"], e["op"])
            v["detail"] = "%s at event %d (%s %s -> %s) of %s" % (v["mon"], v["line"], e["op"], json.dumps(e["args"]), e["res"], os.path.basename(tf))
            v["ops_meta"] = {k: meta[k] for k in ("seed", "limit", "ordered", "ttl", "quorum")}
            v["ops"] = meta["ops"][: max(0, v["line"] - 1)]
            detailed.append(v)
    res = {
        "tier": tier, "seed": sd, "wall_s": time.time() - t0,
        "traces": len(files), "events": events, "tlc_generated_traces": len(tlc_files), "tlc_distinct_behaviours": tlc_distinct,
        "violations": detailed[:400], "violation_count": len(detailed),
        "divergences": div_detail, "divergence_count": len(divs),
        "divergent_traces": len({d["trace"] for d in divs}),
        "div_trace_names": sorted({os.path.basename(d["trace"]) + "@" + os.path.dirname(d["trace"])[-12:] for d in divs}),
        "features": [{"sig": f["sig"], "flags": f["flags"], "n": f["n"]} for f in feats],
        "samples": [{"trace": os.path.basename(f["path"]), "ops": f["ops"]} for f in feats[:3]],
        "mc": mc,
    }
    # traces are large; keep only shards' verdicts
    for p in shards:
        try:
            os.remove(p)
        except OSError:
            pass
    for f in files:
        try:
            os.remove(f)
        except OSError:
            pass
    cache_put(key, res)
    return res


def replay(prop, path):
    """Re-run the operation list of a replay file on the current tree and re-judge it."""
    build_harness()
    rp = json.load(open(path))
    d = fresh_dir(os.path.join(WORK, "broker_replay"))
    opsf = os.path.join(d, "ops.json")
    meta = dict(rp["ops_meta"])
    meta["ops"] = rp["ops"]
    json.dump(meta, open(opsf, "w"))
    tf = os.path.join(d, "trace.ndjson")
    rc, out = sh("%s broker-replay --ops %s --out %s" % (UVERIF, opsf, tf), timeout=600)
    if rc != 0:
        raise ToolError("replay failed: " + out[-2000:])
    verdicts = validate_shards("BrokerTrace.tla", "BrokerTrace.cfg", [tf], jobs=1)
    v = verdicts[0]
    hits = [x for x in v["viol"] if x["mon"].startswith(prop + ".")]
    return hits
