"""Codec families: pure-function rigs judged by TLA+ oracles (C15 Resp, C09 Slot, C17 Wire, C19 Ttl, C20 Compress)."""
import json
import os
import time

from vlib import (WORK, UVERIF, ToolError, build_harness, cache_get, cache_put, fresh_dir, log, seed, sh,
                  tlc_model_check, tree_hash, validate_shards)


def _run_cmds(cmds, timeout=3000):
    rc, out = sh(" & ".join("(%s)" % c for c in cmds) + " & wait", timeout=timeout)
    return rc, out


def classify_resp(e):
    """sub-class of a C15 case for the findings key (judgement itself is TLC's)"""
    b = bytes(e.get("in", []))
    if b[:1] in (b"$", b"*"):
        head = b[1:].split(b"\n")[0]
        if head.startswith(b"+"):
            return "plus_sign_length"
        if head.startswith(b"-") and head.rstrip(b"\r") != b"-1":
            return "negative_length"
    if b[:1] == b"$":
        return "bulk_terminator_or_line"
    return "line_terminator"


def resp_family(tier):
    sd = seed()
    key = "resp_%s_%s_%d" % (tree_hash(), tier, sd)
    cached = cache_get(key)
    if cached:
        log("resp family: cache hit")
        return cached
    t0 = time.time()
    build_harness()
    mc = tlc_model_check("resp", "Resp_MC.tla", "Resp_MC.cfg", workers=4, timeout=900, xmx="4g", extra="")
    d = fresh_dir(os.path.join(WORK, "resp_" + tier))
    maxlen = 5 if tier == "quick" else 6
    parts = 12 if tier == "quick" else 14
    nvals = 3000 if tier == "quick" else 40000
    cmds = []
    files = []
    for p in range(parts):
        f = os.path.join(d, "bytes_%02d.ndjson" % p)
        cmds.append("%s resp-cases --mode bytes --maxlen %d --part %d --parts %d --seed %d --out %s" % (UVERIF, maxlen, p, parts, sd, f))
        files.append(f)
    vparts = 4 if tier == "quick" else 14
    for p in range(vparts):
        f = os.path.join(d, "values_%02d.ndjson" % p)
        cmds.append("%s resp-cases --mode values --count %d --seed %d --out %s" % (UVERIF, nvals // vparts, sd * 77 + p, f))
        files.append(f)
    rc, out = _run_cmds(cmds)
    if rc != 0:
        raise ToolError("resp rig failed: " + out[-2000:])
    verdicts = validate_shards("Resp_Trace.tla", "Resp_Trace.cfg", files, jobs=14, timeout=3000)
    viols = []
    cases = 0
    kinds = {}
    samples = []
    for v in verdicts:
        cases += v["n"]
        if not v["consumed"]:
            raise ToolError("Resp_Trace did not consume %s\n%s" % (v["shard"], v.get("tlc_tail", "")))
        lines = None
        for x in v["viol"]:
            if lines is None:
                lines = open(v["shard"]).read().splitlines()
            e = json.loads(lines[x["line"] - 1])
            viols.append({"mon": x["mon"], "case": e, "cls": classify_resp(e)})
    nontrivial = 0
    for f in files:
        with open(f) as fh:
            for i, line in enumerate(fh):
                e = json.loads(line)
                kinds[e["kind"]] = kinds.get(e["kind"], 0) + 1
                if e.get("pkts") or e.get("got"):
                    nontrivial += 1
                if i == 7 and len(samples) < 4:
                    samples.append(e)
    res = {"tier": tier, "seed": sd, "wall_s": time.time() - t0, "cases": cases, "kinds": kinds, "nontrivial": nontrivial,
           "violations": viols[:300], "violation_count": len(viols), "samples": samples, "mc": mc,
           "maxlen": maxlen, "exhaustive_bytes": True}
    for f in files:
        os.remove(f)
    cache_put(key, res)
    return res


# ---------------------------------------------------------------------------------------------
# routing family (C02, C14): full in-process stack
# ---------------------------------------------------------------------------------------------
def routing_family(tier):
    """C02, C14 (routing rig) and C07, C13 (control-plane rig): same stack, same trace spec."""
    sd = seed()
    key = "routing_%s_%s_%d" % (tree_hash(), tier, sd)
    cached = cache_get(key)
    if cached:
        log("routing family: cache hit")
        return cached
    t0 = time.time()
    build_harness()
    mc = tlc_model_check("routing", "Routing_MC.tla", "Routing_MC.cfg", workers=8, timeout=1500, xmx="8g", extra="")
    mc_cp = tlc_model_check("controlplane", "ControlPlane.tla", "ControlPlane_MC_%s.cfg" % tier, workers=8, timeout=3000, xmx="8g", extra="")
    # Coord.tla: the control plane at call granularity (sync / migration / detection chains, call faults, crashes, restarts)
    if not os.environ.get("VERIF_SKIP_MC"):
        ccfgs = ["q_mig", "q_fo", "q_live_fo"] if tier == "quick" else ["q_mig", "q_fo", "q_live_fo", "q_live_mig", "t_mig", "t_all", "t_fo", "t_mig2", "t_faults2", "t_live_mig", "t_live_fo"]
        cms = [tlc_model_check("coord_" + c, "Coord.tla", "Coord_MC_%s.cfg" % c, workers=8, timeout=900 if tier == "quick" else 5000, xmx="12g", extra="") for c in ccfgs]
        # design observation kept as an expected counterexample (see the comment at the end of ControlPlane.tla)
        r = tlc_model_check("controlplane_obs", "ControlPlane.tla", "ControlPlane_MC_obs.cfg", workers=2, timeout=300, xmx="2g", extra="")
        if r.get("ok") or not r.get("violated"):
            raise ToolError("ControlPlane.tla no longer shows the stale-message-after-recovery observation")
        for v in ("src_even_if_dst_failed", "no_quorum", "skip_cluster_on_old_repl"):
            r = tlc_model_check("coord_bad_" + v, "Coord.tla", "Coord_MC_bad_%s.cfg" % v, workers=4, timeout=600, xmx="4g", extra="")
            if r.get("ok") or not r.get("violated"):
                raise ToolError("Coord design model accepts the seeded design error %s" % v)
        mc_cp = {"name": "ControlPlane_MC_%s + Coord_MC[%s] + 3 seeded design errors of Coord.tla rejected" % (tier, ",".join(ccfgs)),
                 "ok": mc_cp["ok"] and all(m["ok"] for m in cms), "wall_s": round(mc_cp["wall_s"] + sum(m["wall_s"] for m in cms), 1),
                 "states": mc_cp.get("states", 0) + sum(m.get("states", 0) for m in cms),
                 "transitions": mc_cp.get("transitions", 0) + sum(m.get("transitions", 0) for m in cms),
                 "violated": next((m.get("violated") for m in [mc_cp] + cms if m.get("violated")), None),
                 "parts": [{k: m.get(k) for k in ("name", "ok", "states", "transitions", "wall_s")} for m in [mc_cp] + cms],
                 "out_tail": "\n".join(m.get("out_tail", "") for m in [mc_cp] + cms if not m["ok"])}
    d = fresh_dir(os.path.join(WORK, "routing_" + tier))
    parts = 8 if tier == "quick" else 10
    per = 4 if tier == "quick" else 50
    cmds, files = [], []
    for p in range(parts):
        f = os.path.join(d, "runs_%02d.ndjson" % p)
        allslots = " --all-slots" if (tier == "thorough" and p >= parts - 2) else ""
        n = per if not allslots else 3
        cmds.append("%s routing-runs --out %s --count %d --seed %d%s" % (UVERIF, f, n, sd * 131 + p, allslots))
        files.append(f)
    cparts = 6 if tier == "quick" else 8
    for p in range(cparts):
        f = os.path.join(d, "ctl_%02d.ndjson" % p)
        cmds.append("%s ctl-runs --out %s --count %d --seed %d" % (UVERIF, f, 12 if tier == "quick" else 400, sd * 137 + p))
        files.append(f)
    rc, out = _run_cmds(cmds, timeout=3300)
    if rc != 0:
        raise ToolError("routing/ctl rig failed: " + out[-2000:])
    verdicts = validate_shards("Routing_Trace.tla", "Routing_Trace.cfg", files, jobs=14, timeout=3300)
    # L2 for the control plane: the call logs of the ctl runs walked against the chain automata of Coord.tla
    ctl_files = [f for f in files if os.path.basename(f).startswith("ctl_")]
    l2v = validate_shards("Coord_Trace.tla", "Coord_Trace.cfg", ctl_files, jobs=14, timeout=3300)
    l2 = {"steps": 0, "divergences": [], "divergence_count": 0, "runs": 0, "divergent_runs": 0}
    for v in l2v:
        if not v["consumed"]:
            raise ToolError("Coord_Trace did not consume %s\n%s" % (v["shard"], v.get("tlc_tail", "")))
        l2["steps"] += v.get("steps", 0)
        lines = open(v["shard"]).read().splitlines()
        starts = [i + 1 for i, x in enumerate(lines) if '"kind": "reset"' in x or '"kind":"reset"' in x]
        l2["runs"] += len(starts)
        bad_runs = set()
        for x in v["div"]:
            l2["divergence_count"] += 1
            bad_runs.add(max([s0 for s0 in starts if s0 <= x["line"]] or [0]))
            if len(l2["divergences"]) < 10:
                l2["divergences"].append({"mon": x["mon"], "event": json.loads(lines[x["line"] - 1])})
        l2["divergent_runs"] += len(bad_runs)
    viols, events, skipped = [], 0, 0
    for v in verdicts:
        events += v["n"]
        skipped += v.get("skipped", 0)
        if not v["consumed"]:
            raise ToolError("Routing_Trace did not consume %s\n%s" % (v["shard"], v.get("tlc_tail", "")))
        lines = None
        for x in v["viol"]:
            if lines is None:
                lines = open(v["shard"]).read().splitlines()
            e = json.loads(lines[x["line"] - 1])
            j = x["line"] - 1
            while j > 0 and json.loads(lines[j]).get("kind") != "reset":
                j -= 1
            if x["mon"].startswith("L2."):
                l2["divergence_count"] += 1
                if len(l2["divergences"]) < 10:
                    l2["divergences"].append({"mon": x["mon"], "event": e})
                continue
            viols.append({"mon": x["mon"], "case": e, "cls": e.get("phase", e.get("kind", "?")), "reset": json.loads(lines[j])})
    kinds, phases = {}, {}
    nt = {"C02": 0, "C14": 0, "C07": 0, "C13": 0}
    cases = {"C02": 0, "C14": 0, "C07": 0, "C13": 0}
    samples = {"C02": [], "C14": [], "C07": [], "C13": []}
    runs = 0
    for f in files:
        mode, faulty, fault_list = "route", False, []
        with open(f) as fh:
            for line in fh:
                e = json.loads(line)
                k = e["kind"]
                kinds[k] = kinds.get(k, 0) + 1
                if k == "reset":
                    runs += 1
                    mode = e.get("mode", "route")
                    faulty, fault_list = False, []
                    if mode == "ctl":
                        cases["C07"] += 1
                    if mode == "recover":
                        cases["C13"] += 1
                elif k == "probe":
                    cases["C02"] += 1
                    phases[e["phase"]] = phases.get(e["phase"], 0) + 1
                    if e["phase"] != "stable" or e["outcome"]["redirects"] > 0:
                        nt["C02"] += 1
                    if len(samples["C02"]) < 2 and e["phase"] == "running":
                        samples["C02"].append(e)
                elif k == "adv":
                    cases["C14"] += 1
                    if e["phase"] != "stable":
                        nt["C14"] += 1
                    if len(samples["C14"]) < 1 and e["phase"] == "running":
                        samples["C14"].append(e)
                elif k in ("call", "bcall") and e.get("fault") not in ("", "None", None):
                    faulty = True
                    if len(fault_list) < 6:
                        fault_list.append({"kind": k, "fault": e.get("fault"), "what": e.get("cmd", [None, None])[1] if k == "call" else e.get("call")})
                elif k in ("crash", "restart"):
                    faulty = True
                elif k == "converged_check":
                    if mode == "ctl" and faulty:
                        nt["C07"] += 1
                        if len(samples["C07"]) < 2:
                            samples["C07"].append({"faults": fault_list, "rounds": e["rounds"]})
                elif k == "recover":
                    nt["C13"] += 1
                    if len(samples["C13"]) < 2:
                        samples["C13"].append(e)
    res = {"tier": tier, "seed": sd, "wall_s": time.time() - t0, "cases": sum(cases.values()), "cases_by_prop": cases,
           "runs": runs, "kinds": kinds, "phases": phases, "nontrivial": sum(nt.values()), "nontrivial_by_prop": nt,
           "skipped_unsynced": skipped, "samples_by_prop": samples,
           "violations": viols[:300], "violation_count": len(viols), "samples": samples["C02"], "mc": mc, "mc_cp": mc_cp, "l2_ctl": l2}
    for f in files:
        os.remove(f)
    cache_put(key, res)
    return res


# ---------------------------------------------------------------------------------------------
# slot family (C09)
# ---------------------------------------------------------------------------------------------
def slot_family(tier):
    sd = seed()
    key = "slot_%s_%s_%d" % (tree_hash(), tier, sd)
    cached = cache_get(key)
    if cached:
        log("slot family: cache hit")
        return cached
    t0 = time.time()
    build_harness()
    mc = tlc_model_check("slot", "Slot_MC.tla", "Slot_MC.cfg", workers=4, timeout=900, xmx="4g", extra="")
    d = fresh_dir(os.path.join(WORK, "slot_" + tier))
    parts = 10 if tier == "quick" else 14
    maxlen = 5 if tier == "quick" else 6
    cmds, files = [], []
    for p in range(parts):
        f = os.path.join(d, "cases_%02d.ndjson" % p)
        # each part enumerates the brace keys itself (over its own layouts) and adds its own random keys
        cmds.append("%s slot-cases --out %s --seed %d --layouts %d --maxlen %d --random-keys %d" % (
            UVERIF, f, sd * 53 + p, 4 if tier == "quick" else 10, maxlen if p == 0 else 3, 300 if tier == "quick" else 6000))
        files.append(f)
    rc, out = _run_cmds(cmds)
    if rc != 0:
        raise ToolError("slot rig failed: " + out[-2000:])
    verdicts = validate_shards("Slot_Trace.tla", "Slot_Trace.cfg", files, jobs=14, timeout=3000)
    viols, cases = [], 0
    for v in verdicts:
        cases += v["n"]
        if not v["consumed"]:
            raise ToolError("Slot_Trace did not consume %s\n%s" % (v["shard"], v.get("tlc_tail", "")))
        lines = None
        for x in v["viol"]:
            if lines is None:
                lines = open(v["shard"]).read().splitlines()
            e = json.loads(lines[x["line"] - 1])
            viols.append({"mon": x["mon"], "case": e, "cls": e.get("cmd", e.get("kind"))})
    kinds, samples, nontrivial = {}, [], 0
    for f in files:
        with open(f) as fh:
            for i, line in enumerate(fh):
                e = json.loads(line)
                k = e["kind"] + ("/" + e["reply_kind"] if "reply_kind" in e else "")
                kinds[k] = kinds.get(k, 0) + 1
                if e["kind"] in ("route", "multi") or (e["kind"] == "keyslot" and (123 in e["key"])):
                    nontrivial += 1
                if e["kind"] == "multi" and len(samples) < 3:
                    samples.append(e)
    res = {"tier": tier, "seed": sd, "wall_s": time.time() - t0, "cases": cases, "kinds": kinds, "nontrivial": nontrivial,
           "violations": viols[:300], "violation_count": len(viols), "samples": samples, "mc": mc, "maxlen": maxlen}
    for f in files:
        os.remove(f)
    cache_put(key, res)
    return res


# ---------------------------------------------------------------------------------------------
# wire family (C17)
# ---------------------------------------------------------------------------------------------
def wire_family(tier):
    sd = seed()
    key = "wire_%s_%s_%d" % (tree_hash(), tier, sd)
    cached = cache_get(key)
    if cached:
        log("wire family: cache hit")
        return cached
    t0 = time.time()
    build_harness()
    d = fresh_dir(os.path.join(WORK, "wire_" + tier))
    parts = 8 if tier == "quick" else 14
    count = 150 if tier == "quick" else 3000
    cmds, files = [], []
    for p in range(parts):
        f = os.path.join(d, "cases_%02d.ndjson" % p)
        cmds.append("%s wire-cases --out %s --seed %d --count %d" % (UVERIF, f, sd * 59 + p, count))
        files.append(f)
    rc, out = _run_cmds(cmds)
    if rc != 0:
        raise ToolError("wire rig failed: " + out[-2000:])
    mc = None
    if not os.environ.get("VERIF_SKIP_MC"):
        mc = tlc_model_check("wire", "Wire_MC.tla", "Wire_MC.cfg", workers=4, timeout=900, xmx="4g", extra="")
        # the format's limitation is part of the model: a lost token / a truncation is not always detected
        for v in ("limit_delete", "limit_truncate"):
            r = tlc_model_check("wire_" + v, "Wire_MC.tla", "Wire_MC_%s.cfg" % v, workers=2, timeout=600, xmx="2g", extra="")
            if r.get("ok") or not r.get("violated"):
                raise ToolError("Wire model unexpectedly satisfies %s" % v)
        mc = dict(mc, name="Wire_MC round trip on 3698 values; DeletionDetected / TruncationDetected are violated in the model too (known finding)")
    verdicts = validate_shards("Wire_Trace.tla", "Wire_Trace.cfg", files, jobs=14, timeout=3000)
    viols, cases, divs = [], 0, []
    for v in verdicts:
        cases += v["n"]
        if v.get("div"):
            lines_d = open(v["shard"]).read().splitlines()
            for x in v["div"]:
                e = json.loads(lines_d[x["line"] - 1])
                divs.append({"mon": x["mon"], "line": {k: e.get(k) for k in ("kind", "how", "idx", "args", "parsed")}})
        if not v["consumed"]:
            raise ToolError("Wire_Trace did not consume %s\n%s" % (v["shard"], v.get("tlc_tail", "")))
        lines = None
        for x in v["viol"]:
            if lines is None:
                lines = open(v["shard"]).read().splitlines()
            e = json.loads(lines[x["line"] - 1])
            msg = {"corrupt": "setcluster", "corrupt_repl": "setrepl"}.get(e["kind"], e["kind"])
            cls = "%s:%s:%s" % (msg, e.get("how", e["kind"]), e.get("tk", "-"))
            if x["mon"].startswith("C17.roundtrip"):
                # sub-class: a local node without slots?
                empty = any(not n["slots"] for n in e["orig"].get("local", [])) if isinstance(e.get("orig"), dict) else False
                cls = "empty_local_node" if empty else "other"
            viols.append({"mon": x["mon"], "case": e, "cls": cls})
    kinds, samples, nontrivial = {}, [], 0
    for f in files:
        with open(f) as fh:
            for line in fh:
                e = json.loads(line)
                k = e["kind"] + ("/" + e["how"] if "how" in e else "")
                kinds[k] = kinds.get(k, 0) + 1
                o = e.get("orig", {})
                if e["kind"].startswith("corrupt") or (isinstance(o, dict) and (o.get("peer") or o.get("masters") or "sr" in o)):
                    nontrivial += 1
                if e["kind"] == "plain" and len(samples) < 2 and o.get("peer") and o.get("local"):
                    samples.append({"args": e["args"]})
    res = {"tier": tier, "seed": sd, "wall_s": time.time() - t0, "cases": cases, "kinds": kinds, "nontrivial": nontrivial,
           "violations": viols[:400], "violation_count": len(viols), "samples": samples, "mc": mc, "divergences": divs[:50],
           "l2_compared": sum(1 for f in files for line in open(f) if '"toks"' in line)}
    for f in files:
        os.remove(f)
    cache_put(key, res)
    return res


# ---------------------------------------------------------------------------------------------
# compression family (C20)
# ---------------------------------------------------------------------------------------------
def compress_family(tier):
    sd = seed()
    key = "compress_%s_%s_%d" % (tree_hash(), tier, sd)
    cached = cache_get(key)
    if cached:
        log("compress family: cache hit")
        return cached
    t0 = time.time()
    build_harness()
    mc = None
    if not os.environ.get("VERIF_SKIP_MC"):
        # Compress_MC.tla: compression layers across the proxies of a cluster (MOVED / UMFORWARD-wrapped / unwrapped forwarding)
        cms = [tlc_model_check("compress_" + c, "Compress_MC.tla", "Compress_MC_%s.cfg" % c, workers=2, timeout=300, xmx="2g", extra="")
               for c in ("moved", "wrapped", "disabled")]
        # the design as found (fixed by aa7fa11) and unlimited redirection (known finding) must be rejected by the model
        for v in ("bad_asfound", "known_unwrapped"):
            r = tlc_model_check("compress_" + v, "Compress_MC.tla", "Compress_MC_%s.cfg" % v, workers=2, timeout=300, xmx="2g", extra="")
            if r.get("ok") or not r.get("violated"):
                raise ToolError("Compress design model accepts %s" % v)
        mc = {"name": "Compress_MC[moved,wrapped,disabled]; double compression as found and unwrapped forwarding rejected",
              "ok": all(m["ok"] for m in cms), "wall_s": round(sum(m["wall_s"] for m in cms), 1),
              "states": sum(m.get("states", 0) for m in cms), "transitions": sum(m.get("transitions", 0) for m in cms),
              "violated": next((m.get("violated") for m in cms if m.get("violated")), None),
              "out_tail": "\n".join(m.get("out_tail", "") for m in cms if not m["ok"])}
    d = fresh_dir(os.path.join(WORK, "compress_" + tier))
    parts = 8 if tier == "quick" else 14
    count = 80 if tier == "quick" else 1500
    cmds, files = [], []
    for p in range(parts):
        f = os.path.join(d, "cases_%02d.ndjson" % p)
        cmds.append("%s compress-cases --out %s --seed %d --count %d%s" % (UVERIF, f, sd * 61 + p, count, " --big" if p % 2 == 0 else ""))
        files.append(f)
    rc, out = _run_cmds(cmds)
    if rc != 0:
        raise ToolError("compress rig failed: " + out[-2000:])
    verdicts = validate_shards("Compress_Trace.tla", "Compress_Trace.cfg", files, jobs=14, timeout=3000)
    viols, cases = [], 0
    for v in verdicts:
        cases += v["n"]
        if not v["consumed"]:
            raise ToolError("Compress_Trace did not consume %s\n%s" % (v["shard"], v.get("tlc_tail", "")))
        lines = None
        for x in v["viol"]:
            if lines is None:
                lines = open(v["shard"]).read().splitlines()
            e = json.loads(lines[x["line"] - 1])
            viols.append({"mon": x["mon"], "case": e, "cls": ("redirect=%s" % e.get("active")) if e.get("kind") == "cross" else "%s:%s" % (e.get("strategy"), e.get("shape", e.get("cmd")))})
    kinds, samples, nontrivial = {}, [], 0
    for f in files:
        with open(f) as fh:
            for line in fh:
                e = json.loads(line)
                k = "%s/%s/%s" % (e["kind"], e.get("strategy"), e.get("shape", e.get("cmd")))
                kinds[k] = kinds.get(k, 0) + 1
                if e.get("strategy") != "disabled":
                    nontrivial += 1
                if len(samples) < 2 and e["kind"] == "wr" and e["strategy"] == "allow_all" and e["multi"]:
                    samples.append(e)
    res = {"tier": tier, "seed": sd, "wall_s": time.time() - t0, "cases": cases, "kinds": {"distinct_shapes": len(kinds)}, "nontrivial": nontrivial,
           "violations": viols[:300], "violation_count": len(viols), "samples": samples, "mc": mc}
    for f in files:
        os.remove(f)
    cache_put(key, res)
    return res


# ---------------------------------------------------------------------------------------------
# proxy metadata family (C05)
# ---------------------------------------------------------------------------------------------
def meta_family(tier):
    sd = seed()
    key = "meta_%s_%s_%d" % (tree_hash(), tier, sd)
    cached = cache_get(key)
    if cached:
        log("meta family: cache hit")
        return cached
    t0 = time.time()
    build_harness()
    mc = tlc_model_check("proxymeta", "ProxyMeta_MC.tla", "ProxyMeta_MC.cfg", workers=8, timeout=900, xmx="4g", extra="")
    # MetaConc.tla: concurrent deliveries at the granularity of the H3 hook labels (PlusCal)
    if not os.environ.get("VERIF_SKIP_MC"):
        ccfgs = ["r3", "force_resync"] if tier == "quick" else ["r3", "force_resync", "nf"]
        cms = [tlc_model_check("metaconc_" + c, "MetaConc_MC.tla", "MetaConc_MC_%s.cfg" % c, workers=8, timeout=900 if tier == "quick" else 4000, xmx="12g", extra="") for c in ccfgs]
        # seeded design errors and the design as found before the repair (687ce64) must be rejected
        # Repl.tla: replicators below the installed roles (reuse / drop / periodic re-assertion), liveness down to the Redis nodes
        cms.append(tlc_model_check("repl", "Repl.tla", "Repl_MC.cfg", workers=4, timeout=600, xmx="4g", extra=""))
        for v in ("bad_send_once", "bad_reuse_by_key"):
            r = tlc_model_check("repl_" + v, "Repl.tla", "Repl_MC_%s.cfg" % v, workers=2, timeout=300, xmx="2g", extra="")
            if r.get("ok") or not r.get("violated"):
                raise ToolError("Repl design model accepts the design error %s" % v)
        for v in ("bad_epoch_before_map", "bad_no_lock", "bad_no_recheck", "force_asbuilt"):
            r = tlc_model_check("metaconc_" + v, "MetaConc_MC.tla", "MetaConc_MC_%s.cfg" % v, workers=4, timeout=600, xmx="4g", extra="")
            if r.get("ok") or not r.get("violated"):
                raise ToolError("MetaConc design model accepts the design error %s" % v)
        mc = {"name": "ProxyMeta_MC + MetaConc_MC[%s] + Repl_MC; 4 design errors of MetaConc.tla and 2 of Repl.tla rejected" % ",".join(ccfgs),
              "ok": mc["ok"] and all(m["ok"] for m in cms), "wall_s": round(mc["wall_s"] + sum(m["wall_s"] for m in cms), 1),
              "states": mc.get("states", 0) + sum(m.get("states", 0) for m in cms),
              "transitions": mc.get("transitions", 0) + sum(m.get("transitions", 0) for m in cms),
              "violated": next((m.get("violated") for m in [mc] + cms if m.get("violated")), None),
              "out_tail": "\n".join(m.get("out_tail", "") for m in [mc] + cms if not m["ok"])}
    d = fresh_dir(os.path.join(WORK, "meta_" + tier))
    parts = 6 if tier == "quick" else 12
    cmds, files = [], []
    for p in range(parts):
        f = os.path.join(d, "seq_%02d.ndjson" % p)
        cmds.append("%s meta-cases --out %s --seed %d --count %d --len 10" % (UVERIF, f, sd * 67 + p, 150 if tier == "quick" else 3000))
        files.append(f)
        f = os.path.join(d, "conc_%02d.ndjson" % p)
        cmds.append("%s meta-cases --concurrent --out %s --seed %d --count %d" % (UVERIF, f, sd * 71 + p, 60 if tier == "quick" else 1500))
        files.append(f)
        f = os.path.join(d, "race_%02d.ndjson" % p)
        cmds.append("%s meta-cases --race --out %s --seed %d --count %d" % (UVERIF, f, sd * 73 + p, 40 if tier == "quick" else 1000))
        files.append(f)
    rc, out = _run_cmds(cmds)
    if rc != 0:
        raise ToolError("meta rig failed: " + out[-2000:])
    verdicts = validate_shards("ProxyMeta_Trace.tla", "ProxyMeta_Trace.cfg", files, jobs=14, timeout=3000)
    viols, cases = [], 0
    for v in verdicts:
        cases += v["n"]
        if not v["consumed"]:
            raise ToolError("ProxyMeta_Trace did not consume %s\n%s" % (v["shard"], v.get("tlc_tail", "")))
        lines = None
        for x in v["viol"]:
            if lines is None:
                lines = open(v["shard"]).read().splitlines()
            e = json.loads(lines[x["line"] - 1])
            viols.append({"mon": x["mon"], "case": e, "cls": e["kind"]})
    kinds, samples, nontrivial = {}, [], 0
    scheds = set()
    for f in files:
        with open(f) as fh:
            for line in fh:
                e = json.loads(line)
                kinds[e["kind"]] = kinds.get(e["kind"], 0) + 1
                if e["kind"] == "deliver" and (e["reply"] != "OK" or e["msg"]["force"]):
                    nontrivial += 1
                if e["kind"] in ("concurrent", "race"):
                    sig = ",".join(e["schedule"])
                    if sig not in scheds:
                        scheds.add(sig)
                        nontrivial += 1
                    if len(samples) < 2:
                        samples.append(e)
    res = {"tier": tier, "seed": sd, "wall_s": time.time() - t0, "cases": cases, "kinds": kinds, "nontrivial": nontrivial,
           "violations": viols[:300], "violation_count": len(viols), "samples": samples, "mc": mc}
    for f in files:
        os.remove(f)
    cache_put(key, res)
    return res


# ---------------------------------------------------------------------------------------------
# migration family (C03, C19)
# ---------------------------------------------------------------------------------------------
def _stale_pull_signature(lines, j):
    """The known finding's signature inside the run that starts at line index j: a RESTORE of a key reaches a destination node
    AFTER that node's proxy has been given plain ownership of the key's range (a SETCLUSTER without an IMPORTING tag, i.e. the
    post-commit view) although the key had been DUMPed before.  With the hypothetical synchronous owner switch of Migration.tla this
    cannot happen; every run that shows it is an instance of the known finding stale_pull_after_owner_switch, whatever the gate
    schedule that produced it."""
    owner_at = {}      # proxy host:port -> seq of the first post-commit SETCLUSTER (no IMPORTING / MIGRATING of its own ranges)
    first_tagged = set()
    dumped = {}        # key -> seq of the first DUMP
    node_proxy = {}
    k = j + 1
    while k < len(lines):
        e = json.loads(lines[k])
        if e.get("kind") == "reset":
            break
        if e.get("kind") == "call" and len(e.get("cmd", [])) > 7 and e["cmd"][1] == "SETCLUSTER" and e.get("reply", {}).get("t") == "simple":
            cmd = e["cmd"]
            # local part = tokens before "PEER"
            local = cmd[6:cmd.index("PEER")] if "PEER" in cmd else cmd[6:]
            for t in local:
                if ":" in t and t.split(":")[0].count(".") == 3 and t not in node_proxy:
                    node_proxy[t] = e["to"]
            if "IMPORTING" in local:
                first_tagged.add(e["to"])
            elif e["to"] in first_tagged and e["to"] not in owner_at:
                owner_at[e["to"]] = e.get("seq", k)
        elif e.get("kind") == "redis":
            c = e.get("cmd", [])
            if c and c[0] == "DUMP" and e.get("reply", {}).get("t") == "bulk":
                dumped.setdefault(c[1], e.get("seq", k))
            elif c and c[0] == "RESTORE" and e.get("reply", {}).get("t") == "simple":
                p = node_proxy.get(e.get("node"))
                if p in owner_at and e.get("seq", k) > owner_at[p] and dumped.get(c[1], 10 ** 9) < owner_at[p]:
                    return True
        k += 1
    return False



def migration_family(tier):
    sd = seed()
    key = "migration_%s_%s_%d" % (tree_hash(), tier, sd)
    cached = cache_get(key)
    if cached:
        log("migration family: cache hit")
        return cached
    t0 = time.time()
    build_harness()
    mc = None
    if not os.environ.get("VERIF_SKIP_MC"):
        ok_cfgs = ["ok_s1", "ok_s2", "ok_s3", "ok_s4", "ok_s6", "ok_live"] + ([] if tier == "quick" else ["ok_s5", "ok_s7", "ok_live1"])
        mcs = [tlc_model_check("migration_" + c, "Migration_MC.tla", "Migration_MC_%s.cfg" % c, workers=6,
                               timeout=900 if tier == "quick" else 3000, xmx="8g", extra="") for c in ok_cfgs]
        # seeded design errors and the as-implemented owner switch must be rejected by the invariants
        for v in ("bad_no_key_lock", "bad_restore_replace", "bad_no_barrier", "bad_ttl_zero_persist", "bad_getdel_pull", "bad_skip_umsync_after_wait", "async_s4"):
            r = tlc_model_check("migration_" + v, "Migration_MC.tla", "Migration_MC_%s.cfg" % v, workers=4, timeout=600, xmx="4g", extra="")
            if r.get("ok") or not r.get("violated"):
                raise ToolError("Migration design model unexpectedly accepts %s" % v)
        mc = {"name": "Migration_MC[" + ",".join(ok_cfgs) + "] hold with the synchronous owner switch; 6 seeded design errors and the "
                      "as-implemented asynchronous owner switch (known finding stale_pull_after_owner_switch) are rejected",
              "ok": all(m["ok"] for m in mcs), "wall_s": round(sum(m["wall_s"] for m in mcs), 1),
              "states": sum(m.get("states", 0) for m in mcs), "transitions": sum(m.get("transitions", 0) for m in mcs),
              "violated": next((m.get("violated") for m in mcs if m.get("violated")), None),
              "out_tail": "\n".join(m.get("out_tail", "") for m in mcs if not m["ok"])}
    d = fresh_dir(os.path.join(WORK, "migration_" + tier))
    parts = 12 if tier == "quick" else 14
    per = 25 if tier == "quick" else 1200
    cmds, files = [], []
    for p in range(parts):
        f = os.path.join(d, "runs_%02d.ndjson" % p)
        cmds.append("%s migration-runs --out %s --count %d --seed %d" % (UVERIF, f, per, sd * 73 + p))
        files.append(f)
    for p in range(2):
        f = os.path.join(d, "directed_%02d.ndjson" % p)
        cmds.append("%s migration-runs --directed --out %s --count %d --seed %d" % (UVERIF, f, 14 if tier == "quick" else 140, sd * 79 + p))
        files.append(f)
    # the schedule TLC found for the as-implemented owner switch, replayed into the real stack
    f = os.path.join(d, "stale_00.ndjson")
    cmds.append("%s migration-runs --stale --out %s --count %d --seed %d" % (UVERIF, f, 6 if tier == "quick" else 60, sd * 83))
    files.append(f)
    rc, out = _run_cmds(cmds, timeout=3300)
    if rc != 0:
        raise ToolError("migration rig failed: " + out[-2000:])
    verdicts = validate_shards("Migration_Trace.tla", "Migration_Trace.cfg", files, jobs=14, timeout=3300)
    viols, events, incomplete = [], 0, 0
    for v in verdicts:
        events += v["n"]
        incomplete += len(v.get("div", []))
        if not v["consumed"]:
            raise ToolError("Migration_Trace did not consume %s\n%s" % (v["shard"], v.get("tlc_tail", "")))
        lines = None
        for x in v["viol"]:
            if lines is None:
                lines = open(v["shard"]).read().splitlines()
            e = json.loads(lines[x["line"] - 1])
            j = x["line"] - 1
            while j > 0 and json.loads(lines[j]).get("kind") != "reset":
                j -= 1
            cls = "-"
            if json.loads(lines[j]).get("directed_stale") or _stale_pull_signature(lines, j):
                cls = "stale_pull_after_owner_switch"
            elif "ttlinfo" in e:
                cls = "pttl=%s:ttl=%s" % (e["ttlinfo"]["pttl_kind"], e["ttlinfo"]["ttl_kind"])
            viols.append({"mon": x["mon"], "case": e, "cls": cls, "reset": json.loads(lines[j])})
    runs, nontrivial, restores, samples = 0, 0, 0, []
    paths = {"scan": 0, "pull": 0, "push": 0}
    for f in files:
        cur_inflight, had_conc = 0, False
        with open(f) as fh:
            for line in fh:
                e = json.loads(line)
                k = e["kind"]
                if k == "reset":
                    runs += 1
                    cur_inflight, had_conc = 0, False
                elif k == "inv":
                    cur_inflight += 1
                elif k == "resp":
                    cur_inflight -= 1
                    if e.get("redirects", 0) > 0 and len(samples) < 3:
                        samples.append(e)
                elif k == "redis" and "ttlinfo" in e:
                    restores += 1
                    # a RESTORE while a client operation is in flight: migration really interleaved with traffic
                    if cur_inflight > 0 and not had_conc:
                        had_conc = True
                        nontrivial += 1
    res = {"tier": tier, "seed": sd, "wall_s": time.time() - t0, "cases": runs, "kinds": {"events": events, "restores": restores},
           "nontrivial": nontrivial, "incomplete_runs": incomplete,
           "violations": viols[:300], "violation_count": len(viols), "samples": samples, "mc": mc}
    for f in files:
        os.remove(f)
    cache_put(key, res)
    return res


# ---------------------------------------------------------------------------------------------
# backend / session family (C08)
# ---------------------------------------------------------------------------------------------
def backend_family(tier):
    sd = seed()
    key = "backend_%s_%s_%d" % (tree_hash(), tier, sd)
    cached = cache_get(key)
    if cached:
        log("backend family: cache hit")
        return cached
    t0 = time.time()
    build_harness()
    cfgs = ["quick", "quick2", "live"] if tier == "quick" else ["quick", "quick2", "th1", "th2", "th_live"]
    mcs = []
    if not os.environ.get("VERIF_SKIP_MC"):
        for c in cfgs:
            mcs.append(tlc_model_check("backend_" + c, "Backend_MC.tla", "Backend_MC_%s.cfg" % c, workers=6,
                                       timeout=900 if tier == "quick" else 4000, xmx="8g", extra=""))
        # the seeded design errors must be rejected by the invariants (non-vacuity of the design model)
        for v in ("resend_unsent_only", "match_newest", "drain_forgets", "drop_on_backpressure"):
            r = tlc_model_check("backend_bad_" + v, "Backend_MC.tla", "Backend_MC_bad_%s.cfg" % v, workers=4, timeout=600, xmx="4g", extra="")
            if r.get("ok") or not r.get("violated"):
                raise ToolError("Backend design model accepts the seeded design error %s" % v)
    mc = None
    if mcs:
        mc = {"name": "Backend_MC[" + ",".join(cfgs) + "] + 4 seeded design errors rejected", "ok": all(m["ok"] for m in mcs),
              "wall_s": round(sum(m["wall_s"] for m in mcs), 1), "states": sum(m.get("states", 0) for m in mcs),
              "transitions": sum(m.get("transitions", 0) for m in mcs),
              "violated": next((m.get("violated") for m in mcs if m.get("violated")), None),
              "out_tail": "\n".join(m.get("out_tail", "") for m in mcs if not m["ok"])}
    d = fresh_dir(os.path.join(WORK, "backend_" + tier))
    parts = 8 if tier == "quick" else 14
    count = 80 if tier == "quick" else 1500
    cmds, files = [], []
    for p in range(parts):
        f = os.path.join(d, "tcp_%02d.ndjson" % p)
        cmds.append("%s tcp-runs --out %s --seed %d --first %d --count %d --par 12" % (UVERIF, f, sd, p * count, count))
        files.append(f)
    rc, out = _run_cmds(cmds, timeout=3000 if tier == "quick" else 20000)
    if rc != 0:
        raise ToolError("tcp rig failed: " + out[-2000:])
    verdicts = validate_shards("Backend_Trace.tla", "Backend_Trace.cfg", files, jobs=14, timeout=3000)
    viols, divs, cases = [], [], 0
    kinds, samples, nontrivial = {}, [], 0
    for v in verdicts:
        if not v["consumed"]:
            raise ToolError("Backend_Trace did not consume %s\n%s" % (v["shard"], v.get("tlc_tail", "")))
        lines = [json.loads(x) for x in open(v["shard"]).read().splitlines()]
        # scenario index
        scen_of, cur = [], None
        for e in lines:
            if e["ev"] == "cfg":
                cur = e
            scen_of.append(cur)
        for x in v["viol"]:
            e = lines[x["line"] - 1]
            sc = scen_of[x["line"] - 1]
            req = next((r for r in lines if r["ev"] == "req" and scen_of[lines.index(r)] is sc and r["conn"] == e.get("conn") and r["idx"] == e.get("idx")), None)
            viols.append({"mon": x["mon"], "cls": (req or {}).get("kind", e["ev"]),
                          "case": {"kind": "scenario", "scenario": sc["scenario"], "seed": sd, "cfg": sc, "event": e, "request": req}})
        for x in v["div"]:
            divs.append({"mon": x["mon"], "line": lines[x["line"] - 1]})
        faults_hit, errs, sc_cur = set(), 0, None
        for e in lines:
            k = e["ev"]
            if k == "cfg":
                cases += 1
                sc_cur = e["scenario"]
                if len(samples) < 2 and any(e["faults"]):
                    samples.append(e)
            elif k == "bk_conn" and e["mode"] != "good":
                faults_hit.add(sc_cur)
                kinds["fault:" + e["mode"]] = kinds.get("fault:" + e["mode"], 0) + 1
            elif k == "reply":
                kinds["reply:" + e["kind"]] = kinds.get("reply:" + e["kind"], 0) + 1
            elif k == "bk_down":
                kinds["fault:listener_down"] = kinds.get("fault:listener_down", 0) + 1
        nontrivial += len(faults_hit)
    res = {"tier": tier, "seed": sd, "wall_s": time.time() - t0, "cases": cases, "kinds": kinds, "nontrivial": nontrivial,
           "violations": viols[:200], "violation_count": len(viols), "divergences": divs[:50], "samples": samples, "mc": mc}
    for f in files:
        os.remove(f)
    cache_put(key, res)
    return res


# ---------------------------------------------------------------------------------------------
# hostile input family (C16)
# ---------------------------------------------------------------------------------------------
def _hostile_class(e):
    d = e.get("desc", "")
    if e.get("family") == "bytes":
        if d.startswith("nesting"):
            return "nesting"
        if "array header" in d:
            return "array_header"
        if "bulk" in d:
            return "bulk_header"
        return "bytes_other"
    return (d.split(" ") or ["?"])[0] or "empty"


def hostile_family(tier):
    sd = seed()
    key = "hostile_%s_%s_%d" % (tree_hash(), tier, sd)
    cached = cache_get(key)
    if cached:
        log("hostile family: cache hit")
        return cached
    t0 = time.time()
    build_harness()
    mc = None
    if not os.environ.get("VERIF_SKIP_MC"):
        m = tlc_model_check("session", "Session_MC.tla", "Session_MC.cfg", workers=4, timeout=600, xmx="4g", extra="")
        for v in ("trust_declared", "unbounded_depth", "trust_numkeys"):
            r = tlc_model_check("session_bad_" + v, "Session_MC.tla", "Session_MC_bad_%s.cfg" % v, workers=2, timeout=300, xmx="2g", extra="")
            if r.get("ok") or not r.get("violated"):
                raise ToolError("Session design model accepts the seeded design error %s" % v)
        mc = dict(m, name="Session_MC + 4 seeded design errors rejected")
    d = fresh_dir(os.path.join(WORK, "hostile_" + tier))
    base = 31000 + (os.getpid() % 50) * 40
    cmds, files = [], []
    nb = 4
    for p in range(nb):
        f = os.path.join(d, "bytes_%02d.ndjson" % p)
        cmds.append("%s hostile-runs --family bytes --out %s --port %d --part %d --parts %d" % (UVERIF, f, base + p, p, nb))
        files.append(f)
    nc = 10
    rnd = 400 if tier == "quick" else 40000
    for p in range(nc):
        f = os.path.join(d, "cmd_%02d.ndjson" % p)
        cmds.append("%s hostile-runs --family cmd --out %s --port %d --part %d --parts %d --seed %d --random %d" % (UVERIF, f, base + nb + p, p, nc, sd, rnd))
        files.append(f)
    rc, out = _run_cmds(cmds, timeout=3000 if tier == "quick" else 20000)
    if rc != 0:
        raise ToolError("hostile rig failed: " + out[-2000:])
    verdicts = validate_shards("Session_Trace.tla", "Session_Trace.cfg", files, jobs=14, timeout=3000)
    viols, divs, cases, kinds, samples, nontrivial = [], [], 0, {}, [], 0
    for v in verdicts:
        if not v["consumed"]:
            raise ToolError("Session_Trace did not consume %s\n%s" % (v["shard"], v.get("tlc_tail", "")))
        lines = [json.loads(x) for x in open(v["shard"]).read().splitlines()]
        for x in v["viol"]:
            e = lines[x["line"] - 1]
            viols.append({"mon": x["mon"], "cls": _hostile_class(e), "case": dict(e, kind="hostile")})
        for x in v["div"]:
            divs.append({"mon": x["mon"], "line": lines[x["line"] - 1]})
        for e in lines:
            if e["ev"] != "case":
                continue
            cases += 1
            k = "%s/%s/%s" % (e["family"], e["phase"], e["outcome"])
            kinds[k] = kinds.get(k, 0) + 1
            if e["family"] == "bytes" or e["outcome"] != "reply" or e["bytes"] > 200:
                nontrivial += 1
            if len(samples) < 3 and e["family"] == "bytes" and "array header" in e["desc"] and e["phase"] == "after_meta":
                samples.append({k2: e[k2] for k2 in ("desc", "bytes", "outcome", "ms", "probe", "alive", "rss_before_kb", "hwm_after_kb")})
    res = {"tier": tier, "seed": sd, "wall_s": time.time() - t0, "cases": cases, "kinds": kinds, "nontrivial": nontrivial,
           "violations": viols[:300], "violation_count": len(viols), "divergences": divs[:50], "samples": samples, "mc": mc}
    for f in files:
        os.remove(f)
        if os.path.exists(f + ".stderr"):
            os.remove(f + ".stderr")
    cache_put(key, res)
    return res
