"""Registry: property id -> run/replay functions."""
import json
import os
import time

import fam_blocking
import fam_broker
import vlib


def _broker_run(prop, tier):
    t0 = time.time()
    fam = fam_broker.run_family(tier)
    mine = [v for v in fam["violations"] if v["mon"].startswith(prop + ".")]
    unknown, hits = vlib.split_known(prop, mine)
    nontrivial = {f["sig"] for f in fam["features"] if f["flags"].get(prop)}
    mc = fam.get("mc") or {}
    bad_traces = {v["trace"] for v in mine}
    coverage = {
        "evaluations": fam["traces"],
        "distinct_nontrivial": len(nontrivial),
        "rule": fam_broker.RULES[prop],
        "samples": fam["samples"],
        "events": fam["events"],
        "traces_validated_against_impl": fam["traces"] - len(bad_traces) - fam.get("divergent_traces", 0),
        "divergent_traces": fam.get("divergent_traces", 0),
        "divergences": fam.get("divergences", [])[:10],
        "traces_with_monitor_failure": len(bad_traces),
        "exhaustive": False,
    }
    if mc.get("states"):
        coverage["states"] = mc["states"]
        coverage["transitions"] = mc["transitions"]
        coverage["spec_level"] = {k: mc.get(k) for k in ("name", "ok", "wall_s", "violated", "actions_never_taken")}
    assumptions = [
        "the harness projection of MetaStore / Cluster / Proxy into the trace schema is faithful (harness/src/brokerdrv.rs)",
        "TLC evaluates spec/BrokerMon.tla correctly on the recorded values",
        "operation histories are those produced by the seeded generator (not all histories)",
    ]
    vlib.write_evidence(prop, tier, "model_checking", coverage, time.time() - t0 + (0 if fam.get("_cached") else 0),
                        len(unknown), assumptions)
    if fam.get("divergence_count"):
        print("DIVERGENCE: %d recorded transitions/views of %d traces are not behaviours of spec/Broker.tla (L2); "
              "no property monitor failed on them; see evidence" % (fam["divergence_count"], fam["divergent_traces"]))
    if mc and not mc.get("ok", True):
        # a spec-level counterexample is about the design model; report but judge the code by L1 only
        print("SPEC-LEVEL: Broker_MC reported %s (see evidence); the code is judged by the trace monitors" % mc.get("violated", "an error"))

    def replay_of(v):
        return vlib.write_replay(prop, v["key"].replace(":", "_").replace(".", "_"), {
            "property": prop, "monitor": v["mon"], "line": v["line"], "op": v["op"], "args": v["args"], "res": v["res"],
            "ops_meta": v["ops_meta"], "ops": v["ops"], "detail": v["detail"],
            "how": "./check %s --replay <this file>" % prop})
    return vlib.finish(prop, unknown, hits, replay_of)


def _broker_replay(prop, path):
    hits = fam_broker.replay(prop, path)
    if hits:
        print("VIOLATION property=%s replay=%s" % (prop, path))
        for h in hits[:10]:
            print("  detail: %s at event %d" % (h["mon"], h["line"]))
        return 1
    print("replay: no %s monitor fails on the current tree" % prop)
    return 0


CHECKS = {}
for _p in fam_broker.FAMILY:
    CHECKS[_p] = {"run": _broker_run, "replay": _broker_replay}


def _blocking_run(prop, tier):
    t0 = time.time()
    fam = fam_blocking.run_family(tier)
    mine = [dict(v, key="%s:%s" % (v["mon"], ",".join(v["reset"]["targets"]) + "/b%d" % len(v["reset"]["blockers"])),
                 detail="%s at line %d of run seed=%s targets=%s blockers=%s" % (
                     v["mon"], v["line"] - v["run_start"], v["reset"]["seed"], v["reset"]["targets"], v["reset"]["blockers"]))
            for v in fam["violations"]]
    unknown, hits = vlib.split_known(prop, mine)
    mcs = fam["mc"]
    coverage = {
        "states": sum(m["states"] for m in mcs),
        "transitions": sum(m["transitions"] for m in mcs),
        "traces_validated_against_impl": fam["runs"] - fam["bad_runs"] - fam["divergent_runs"],
        "divergent_traces": fam["divergent_runs"],
        "divergences": fam["divergences"][:5],
        "samples": fam["samples"],
        "evaluations": fam["runs"],
        "distinct_nontrivial": fam["distinct_nontrivial"],
        "distinct_schedules": fam["distinct"],
        "events": fam["events"],
        "rule": fam_blocking.RULE,
        "spec_level": [{k: m[k] for k in ("name", "ok", "states", "transitions", "wall_s")} for m in mcs],
        "exhaustive": False,
    }
    vlib.write_evidence(prop, tier, "model_checking", coverage, time.time() - t0, len(unknown), [
        "the hint computation of RedisScanMigratingTask::send is replicated in the rig (harness/src/blockrig.rs::hint_of)",
        "hook placement (verif hook H2) covers every shared-memory access of blocking.rs / biatomic.rs",
        "sequential consistency of the atomics (the code uses SeqCst everywhere)",
    ])
    bad_mc = [m for m in mcs if not m["ok"]]
    if bad_mc:
        raise vlib.ToolError("Blocking_MC failed: %s\n%s" % (bad_mc[0]["name"], bad_mc[0]["tail"]))
    if fam["divergent_runs"]:
        print("DIVERGENCE: %d runs are not behaviours of spec/Blocking.tla (L2), first: %s" % (
            fam["divergent_runs"], json.dumps(fam["divergences"][0])))

    def replay_of(v):
        return vlib.write_replay(prop, v["key"].replace(":", "_").replace(".", "_").replace(",", "-").replace("/", "_"), {
            "property": prop, "monitor": v["mon"], "reset": v["reset"], "events": v["events"], "detail": v["detail"],
            "how": "./check %s --replay <this file>" % prop})
    return vlib.finish(prop, unknown, hits, replay_of)


def _blocking_replay(prop, path):
    hits = fam_blocking.replay(path)
    hits = [h for h in hits if h["mon"].startswith(prop + ".")]
    if hits:
        print("VIOLATION property=%s replay=%s" % (prop, path))
        for h in hits[:5]:
            print("  detail: %s at line %d" % (h["mon"], h["line"]))
        return 1
    print("replay: no %s monitor fails on the current tree" % prop)
    return 0


CHECKS["C11"] = {"run": _blocking_run, "replay": _blocking_replay}
