"""Registry: property id -> run/replay functions."""
import json
import os
import time

import fam_broker
import vlib


def _broker_run(prop, tier):
    t0 = time.time()
    fam = fam_broker.run_family(tier)
    mine = [v for v in fam["violations"] if v["mon"].startswith(prop + ".")]
    unknown, hits = vlib.split_known(prop, mine)
    nontrivial = {f["sig"] for f in fam["features"] if f["flags"].get(prop)}
    mc = fam.get("mc") or {}
    bad_traces = {v["trace"] for v in mine}
    coverage = {
        "evaluations": fam["traces"],
        "distinct_nontrivial": len(nontrivial),
        "rule": fam_broker.RULES[prop],
        "samples": fam["samples"],
        "events": fam["events"],
        "traces_validated_against_impl": fam["traces"] - len(bad_traces),
        "traces_with_monitor_failure": len(bad_traces),
        "exhaustive": False,
    }
    if mc.get("states"):
        coverage["states"] = mc["states"]
        coverage["transitions"] = mc["transitions"]
        coverage["spec_level"] = {k: mc.get(k) for k in ("name", "ok", "wall_s", "violated", "actions_never_taken")}
    assumptions = [
        "the harness projection of MetaStore / Cluster / Proxy into the trace schema is faithful (harness/src/brokerdrv.rs)",
        "TLC evaluates spec/BrokerMon.tla correctly on the recorded values",
        "operation histories are those produced by the seeded generator (not all histories)",
    ]
    vlib.write_evidence(prop, tier, "model_checking", coverage, time.time() - t0 + (0 if fam.get("_cached") else 0),
                        len(unknown), assumptions)
    if mc and not mc.get("ok", True):
        # a spec-level counterexample is about the design model; report but judge the code by L1 only
        print("SPEC-LEVEL: Broker_MC reported %s (see evidence); the code is judged by the trace monitors" % mc.get("violated", "an error"))

    def replay_of(v):
        return vlib.write_replay(prop, v["key"].replace(":", "_").replace(".", "_"), {
            "property": prop, "monitor": v["mon"], "line": v["line"], "op": v["op"], "args": v["args"], "res": v["res"],
            "ops_meta": v["ops_meta"], "ops": v["ops"], "detail": v["detail"],
            "how": "./check %s --replay <this file>" % prop})
    return vlib.finish(prop, unknown, hits, replay_of)


def _broker_replay(prop, path):
    hits = fam_broker.replay(prop, path)
    if hits:
        print("VIOLATION property=%s replay=%s" % (prop, path))
        for h in hits[:10]:
            print("  detail: %s at event %d" % (h["mon"], h["line"]))
        return 1
    print("replay: no %s monitor fails on the current tree" % prop)
    return 0


CHECKS = {}
for _p in fam_broker.FAMILY:
    CHECKS[_p] = {"run": _broker_run, "replay": _broker_replay}
