"""Registry: property id -> run/replay functions."""
import json
import os
import time

import fam_blocking
import fam_broker
import fam_codec
import vlib


def _broker_run(prop, tier):
    t0 = time.time()
    fam = fam_broker.run_family(tier)
    mine = [v for v in fam["violations"] if v["mon"].startswith(prop + ".")]
    unknown, hits = vlib.split_known(prop, mine)
    nontrivial = {f["sig"] for f in fam["features"] if f["flags"].get(prop)}
    mc = fam.get("mc") or {}
    bad_traces = {os.path.basename(v["trace"]) + "@" + os.path.dirname(v["trace"])[-12:] for v in mine}
    unvalidated = bad_traces | set(fam.get("div_trace_names", []))
    coverage = {
        "evaluations": fam["traces"],
        "distinct_nontrivial": len(nontrivial),
        "rule": fam_broker.RULES[prop],
        "samples": fam["samples"],
        "events": fam["events"],
        "traces_validated_against_impl": max(0, fam["traces"] - len(unvalidated)),
        "divergent_traces": fam.get("divergent_traces", 0),
        "tlc_generated_traces": fam.get("tlc_generated_traces", 0),
        "tlc_generated_note": "behaviours of spec/Broker_SIM.tla sampled by `tlc -simulate` (%s distinct), translated to symbolic operations and replayed on the real MemBrokerService; "
                              "judged by the same L1 monitors and L2 refinement as the generated histories" % fam.get("tlc_distinct_behaviours", 0),
        "divergences": fam.get("divergences", [])[:10],
        "traces_with_monitor_failure": len(bad_traces),
        "exhaustive": False,
    }
    if mc.get("states"):
        coverage["states"] = mc["states"]
        coverage["transitions"] = mc["transitions"]
        coverage["spec_level"] = {k: mc.get(k) for k in ("name", "ok", "wall_s", "violated", "actions_never_taken")}
    assumptions = [
        "the harness projection of MetaStore / Cluster / Proxy into the trace schema is faithful (harness/src/brokerdrv.rs)",
        "TLC evaluates spec/BrokerMon.tla correctly on the recorded values",
        "operation histories are those produced by the seeded generator (not all histories)",
    ]
    vlib.write_evidence(prop, tier, "model_checking", coverage, time.time() - t0 + (0 if fam.get("_cached") else 0),
                        len(unknown), assumptions)
    if fam.get("divergence_count"):
        print("DIVERGENCE: %d recorded transitions/views of %d traces are not behaviours of spec/Broker.tla (L2); "
              "no property monitor failed on them; see evidence" % (fam["divergence_count"], fam["divergent_traces"]))
    if mc and not mc.get("ok", True):
        # a spec-level counterexample is about the design model; report but judge the code by L1 only
        print("SPEC-LEVEL: Broker_MC reported %s (see evidence); the code is judged by the trace monitors" % mc.get("violated", "an error"))

    def replay_of(v):
        return vlib.write_replay(prop, v["key"].replace(":", "_").replace(".", "_"), {
            "property": prop, "monitor": v["mon"], "line": v["line"], "op": v["op"], "args": v["args"], "res": v["res"],
            "ops_meta": v["ops_meta"], "ops": v["ops"], "detail": v["detail"],
            "how": "./check %s --replay <this file>" % prop})
    return vlib.finish(prop, unknown, hits, replay_of)


def _broker_replay(prop, path):
    hits = fam_broker.replay(prop, path)
    if hits:
        print("VIOLATION property=%s replay=%s" % (prop, path))
        for h in hits[:10]:
            print("  detail: %s at event %d" % (h["mon"], h["line"]))
        return 1
    print("replay: no %s monitor fails on the current tree" % prop)
    return 0


CHECKS = {}
for _p in fam_broker.FAMILY:
    CHECKS[_p] = {"run": _broker_run, "replay": _broker_replay}


def _blocking_run(prop, tier):
    t0 = time.time()
    fam = fam_blocking.run_family(tier)
    mine = [dict(v, key="%s:%s" % (v["mon"], ",".join(v["reset"]["targets"]) + "/b%d" % len(v["reset"]["blockers"])),
                 detail="%s at line %d of run seed=%s targets=%s blockers=%s" % (
                     v["mon"], v["line"] - v["run_start"], v["reset"]["seed"], v["reset"]["targets"], v["reset"]["blockers"]))
            for v in fam["violations"]]
    unknown, hits = vlib.split_known(prop, mine)
    mcs = fam["mc"]
    coverage = {
        "states": sum(m["states"] for m in mcs),
        "transitions": sum(m["transitions"] for m in mcs),
        "traces_validated_against_impl": fam["runs"] - fam["bad_runs"] - fam["divergent_runs"],
        "divergent_traces": fam["divergent_runs"],
        "divergences": fam["divergences"][:5],
        "samples": fam["samples"],
        "evaluations": fam["runs"],
        "distinct_nontrivial": fam["distinct_nontrivial"],
        "distinct_schedules": fam["distinct"],
        "events": fam["events"],
        "rule": fam_blocking.RULE,
        "spec_level": [{k: m[k] for k in ("name", "ok", "states", "transitions", "wall_s")} for m in mcs],
        "exhaustive": False,
    }
    vlib.write_evidence(prop, tier, "model_checking", coverage, time.time() - t0, len(unknown), [
        "the hint computation of RedisScanMigratingTask::send is replicated in the rig (harness/src/blockrig.rs::hint_of)",
        "hook placement (verif hook H2) covers every shared-memory access of blocking.rs / biatomic.rs",
        "sequential consistency of the atomics (the code uses SeqCst everywhere)",
    ])
    bad_mc = [m for m in mcs if not m["ok"]]
    if bad_mc:
        raise vlib.ToolError("Blocking_MC failed: %s\n%s" % (bad_mc[0]["name"], bad_mc[0]["tail"]))
    if fam["divergent_runs"]:
        print("DIVERGENCE: %d runs are not behaviours of spec/Blocking.tla (L2), first: %s" % (
            fam["divergent_runs"], json.dumps(fam["divergences"][0])))

    def replay_of(v):
        return vlib.write_replay(prop, v["key"].replace(":", "_").replace(".", "_").replace(",", "-").replace("/", "_"), {
            "property": prop, "monitor": v["mon"], "reset": v["reset"], "events": v["events"], "detail": v["detail"],
            "how": "./check %s --replay <this file>" % prop})
    return vlib.finish(prop, unknown, hits, replay_of)


def _blocking_replay(prop, path):
    hits = fam_blocking.replay(path)
    hits = [h for h in hits if h["mon"].startswith(prop + ".")]
    if hits:
        print("VIOLATION property=%s replay=%s" % (prop, path))
        for h in hits[:5]:
            print("  detail: %s at line %d" % (h["mon"], h["line"]))
        return 1
    print("replay: no %s monitor fails on the current tree" % prop)
    return 0


CHECKS["C11"] = {"run": _blocking_run, "replay": _blocking_replay}


def _codec_finish(prop, tier, fam, t0, rule, assumptions, exhaustive_note):
    mine = [dict(v, key="%s:%s" % (v["mon"], v["cls"]),
                 detail="%s on %s input %s -> impl %s" % (v["mon"], v["case"].get("kind"), json.dumps(v["case"].get("in", v["case"].get("input", v["case"].get("desc", v["case"].get("scenario")))))[:160],
                                                          json.dumps({k: v["case"].get(k) for k in ("pkts", "end", "rest", "out", "outcome", "probe", "alive", "exit", "panic_at", "event") if k in v["case"]})[:300]))
            for v in fam["violations"] if v["mon"].startswith(prop + ".")]
    unknown, hits = vlib.split_known(prop, mine)
    mc = fam.get("mc") or {}
    coverage = {
        "traces_validated_against_impl": fam["cases"] - len({json.dumps(v["case"], sort_keys=True) for v in mine}),
        "evaluations": fam["cases"], "distinct_nontrivial": fam["nontrivial"], "rule": rule,
        "samples": fam["samples"], "kinds": fam.get("kinds"), "exhaustive": False, "exhaustive_note": exhaustive_note,
        "spec_level": {k: mc.get(k) for k in ("name", "ok", "wall_s", "violated")},
    }
    if mc.get("states"):
        coverage["states"] = mc["states"]
        coverage["transitions"] = mc["transitions"]
    vlib.write_evidence(prop, tier, "model_checking", coverage, time.time() - t0, len(unknown), assumptions)
    if mc and not mc.get("ok", True):
        raise vlib.ToolError("spec-level TLC run failed: %s" % mc.get("out_tail", "")[-1500:])

    def replay_of(v):
        return vlib.write_replay(prop, v["key"].replace(":", "_").replace(".", "_"), {
            "property": prop, "monitor": v["mon"], "class": v["cls"], "case": v["case"], "detail": v["detail"],
            "how": "./check %s --replay <this file>" % prop})
    return vlib.finish(prop, unknown, hits, replay_of)


def _c15_run(prop, tier):
    t0 = time.time()
    fam = fam_codec.resp_family(tier)
    return _codec_finish(prop, tier, fam, t0,
        "case = one byte stream fed to the real RespCodec whole and in every split (all 2^(n-1) splits up to 10 bytes, sampled beyond); "
        "all byte strings up to length %d over the alphabet {* $ + : - 1 2 CR LF a} are enumerated completely, plus generated values, pipelines, "
        "corrupted encodings and optional-multi groupings; non-trivial iff at least one packet was decoded" % fam["maxlen"],
        ["TLC evaluates the strict grammar oracle spec/Resp.tla; the oracle's own round-trip/prefix properties are model-checked (Resp_MC)",
         "integer payloads are treated as opaque lines (the proxy forwards them unparsed)"],
        "all byte strings of length <= %d over a 10-symbol hostile alphabet were enumerated; longer inputs are sampled" % fam["maxlen"])


def _case_replay(prop, path):
    rp = json.load(open(path))
    print("replay: case %s" % json.dumps(rp.get("case"))[:300])
    # re-run the family quick tier restricted by cache: simply re-run the check
    return CHECKS[prop]["run"](prop, "quick")


CHECKS["C15"] = {"run": _c15_run, "replay": _case_replay}


_ROUTING_RULES = {
    "C02": "case = one routing probe (start proxy x slot, following MOVED like a cluster client; executed node observed at the stand-ins) on real "
           "proxies synchronised by the real coordinator encoder (plain and gzip) from the real broker, at quiescent points (after create / "
           "failover+replacement / rebalance / re-registration / completed scale-out and scale-in) and at held migration phases (PRECHECK held; "
           "FINALSWITCH held); slots = every range boundary +-1, midpoints and random slots (thorough: additionally all 16384); non-trivial iff taken "
           "during a migration phase or needing a redirect",
    "C14": "case = one CLUSTER NODES (V1/V2) + CLUSTER SLOTS advertisement of an up proxy at an observation point of the C02 runs; non-trivial iff "
           "taken during a migration phase",
    "C07": "case = one control-plane run: admin changes (failover, rebalance, config, scale-out through a real migration, proxy restarts with empty "
           "state) interleaved with rounds of two coordinators while seeded faults hit coordinator->proxy calls (drop, lost reply, duplicate, "
           "delayed/reordered re-delivery) and coordinator->broker calls (drop, lost reply, duplicate) and coordinators crash mid-round; after the "
           "faults stop a live coordinator runs rounds and the proxies are compared with the broker; non-trivial iff a fault, crash or restart took effect",
    "C13": "case = one run in which the broker restarts from an earlier snapshot (any point after the cluster existed, including mid-migration) and "
           "epoch recovery runs through the production arithmetic with the largest epoch seen on the proxies (hook H4), followed by coordinator rounds; "
           "non-trivial by construction",
}


def _routing_run(prop, tier):
    t0 = time.time()
    fam = dict(fam_codec.routing_family(tier))
    fam["cases"] = fam["cases_by_prop"][prop]
    fam["nontrivial"] = fam["nontrivial_by_prop"][prop]
    fam["samples"] = fam["samples_by_prop"][prop] or fam["samples_by_prop"]["C02"]
    if prop in ("C07", "C13"):
        fam["mc"] = fam.get("mc_cp")
        l2 = fam.get("l2_ctl") or {}
        fam["kinds"] = dict(fam.get("kinds") or {}, l2_coord_trace={k: l2.get(k) for k in ("runs", "steps", "divergent_runs", "divergence_count", "divergences")})
        if l2.get("divergence_count"):
            print("DIVERGENCE: %d recorded control-plane calls of %d runs are not steps of the chain automata of spec/Coord.tla (L2, spec/Coord_Trace.tla); "
                  "no alarm by itself, see evidence: %s" % (l2["divergence_count"], l2["divergent_runs"], json.dumps(l2["divergences"][:2])[:600]))
    return _codec_finish(prop, tier, fam, t0, _ROUTING_RULES[prop],
        ["the served view recorded from the broker in the same trace is the reference (C01 covers its well-formedness)",
         "observations taken while some proxy's epoch differs from the served one are skipped (counted as skipped_unsynced)",
         "key -> slot of probe keys is computed by the harness's own CRC16 (C09 covers the proxy's)",
         "fault schedules and histories are seeded samples; the design-level model (Routing.tla / ControlPlane.tla) is checked exhaustively for small constants"],
        "all 16384 slots only in the thorough tier's all-slots runs; fault placements sampled")


CHECKS["C02"] = {"run": _routing_run, "replay": _case_replay}
CHECKS["C14"] = {"run": _routing_run, "replay": _case_replay}
CHECKS["C07"] = {"run": _routing_run, "replay": _case_replay}
CHECKS["C13"] = {"run": _routing_run, "replay": _case_replay}


def _c09_run(prop, tier):
    t0 = time.time()
    fam = fam_codec.slot_family(tier)
    return _codec_finish(prop, tier, fam, t0,
        "case = CLUSTER KEYSLOT of one key (all keys over {a,b,{,}} up to length %d plus random binary keys with braces), or one single-key / "
        "multi-key command sent to a real proxy holding a hand-built random slot layout (several ranges per node, single-slot ranges, gaps, "
        "two local nodes, two peers; keys at every range boundary +-1); the TLA+ spec recomputes CRC16-XMODEM / hash tag / decision; "
        "non-trivial iff a routing decision or a brace key" % fam["maxlen"],
        ["Slot.tla's CRC16 is checked against published check values (Slot_MC)",
         "scripts are not executed by the stand-in (EVAL returns 1); only routing is observed"],
        "brace-alphabet keys enumerated completely up to the stated length; layouts and binary keys are sampled")


CHECKS["C09"] = {"run": _c09_run, "replay": _case_replay}


def _c17_run(prop, tier):
    t0 = time.time()
    fam = fam_codec.wire_family(tier)
    for dv in fam.get("divergences", []):
        print("DIVERGENCE (spec/Wire.tla parser differs from the implementation; not a property violation): %s" % json.dumps(dv["line"])[:300])
    return _codec_finish(prop, tier, fam, t0,
        "case = one generated control-plane message (cluster metadata with 0-2 local nodes x 0-2 tagged slot ranges x multi-range lists, 0-2 peers, "
        "config variants; replication metadata; migration task descriptor) sent through the real encoder and the real parser (plain, gzip+base64, SETREPL, "
        "INFOMGR join/split), or one corrupted encoding (every single-token deletion, every truncation, cross-kind token replacements, damaged compressed "
        "payloads); non-trivial iff it has peers/tags or is a corruption case",
        ["value equality is judged by TLC on a canonical JSON projection (nodes sorted by address)",
         "L2: spec/Wire.tla's parser (Dec) is evaluated by TLC on the tokens of every plain / corrupted-plain SETCLUSTER case and must agree with the real parser (divergences are reported, exit 0)",
         "same-kind token replacements are excluded from the corruption model (they are legitimately different messages)",
         "the proxy->coordinator->broker journey of a descriptor is exercised by the C02/C14 full-stack runs (real INFOMGR -> real commit)"],
        "generated values, not all values")


CHECKS["C17"] = {"run": _c17_run, "replay": _case_replay}


def _c20_run(prop, tier):
    t0 = time.time()
    fam = fam_codec.compress_family(tier)
    return _codec_finish(prop, tier, fam, t0,
        "case = one write shape (SET with EX/PX/NX/XX/KEEPTTL after the value, SETEX, PSETEX, SETNX, GETSET, MSET, MSETNX) x one value class "
        "(empty, 1 byte, CR/LF, binary, long compressible, incompressible random, 1 MiB) x strategy, executed through a real proxy against a storing "
        "stand-in and read back with GET, MGET, GETSET; plus byte-observing commands per strategy; values compared as (length, hash, head) fingerprints; "
        "non-trivial iff compression is enabled",
        ["fingerprint equality (length + 31-bit hash + first 6 bytes) stands for byte equality",
         "zstd itself is opaque: only round-trip equality through the real code is checked",
         "byte-level universality is sampled, not decided"],
        "shapes x strategies enumerated; values sampled")


CHECKS["C20"] = {"run": _c20_run, "replay": _case_replay}


def _c08_run(prop, tier):
    t0 = time.time()
    fam = fam_codec.backend_family(tier)
    for dv in fam.get("divergences", []):
        print("DIVERGENCE (rig, not a property violation): %s %s" % (dv["mon"], json.dumps(dv["line"])[:200]))
    return _codec_finish(prop, tier, fam, t0,
        "case = one scenario on loopback TCP: a real proxy server (ServerProxyService::run -> handle_session, real backend connections through "
        "DefaultConnFactory, real codecs) with batching strategy in {disabled, fixed, dynamic}, backend_conn_num in {1,2}, 1-2 scripted backends, "
        "1-3 client connections each writing a pipeline of 1-16 requests (GET, SET, MGET, MSET, DEL, EXISTS, proxy-local PING / CLUSTER KEYSLOT) in "
        "scripted fragments; backend connection generations follow fault scripts (close on accept, close before the n-th reply, close after b bytes of "
        "the n-th reply, stall from the n-th request until the proxy times out, invalid bytes as n-th reply, listener down for a while, fragmented and "
        "delayed replies); TLC checks every reply against the payloads the backend produced for that request's sub-requests; non-trivial iff a fault "
        "script took effect",
        ["real sockets and real time: the interleavings explored are those the OS produces under the scripted delays, not an enumeration",
         "a scenario waits up to 40 s for each reply before declaring it missing (retries, 400 ms backend timeout and 1 s reconnect pauses are far below)",
         "payload strings stand for reply identity (they embed command, key, value, backend, connection generation and ordinal)",
         "Backend.tla is bound to the code by L1 monitors only; its internal steps (queues, retry state) are not observed"],
        "sampled scenarios; the design model is exhaustive for 3-4 requests x 1-2 connections x 2-4 connection generations")


CHECKS["C08"] = {"run": _c08_run, "replay": _case_replay}


def _c16_run(prop, tier):
    t0 = time.time()
    fam = fam_codec.hostile_family(tier)
    for dv in fam.get("divergences", []):
        print("DIVERGENCE (rig, not a property violation): %s %s" % (dv["mon"], json.dumps(dv["line"])[:200]))
    return _codec_finish(prop, tier, fam, t0,
        "case = one hostile input sent on a fresh TCP connection to a real proxy server running in a child process (same wiring as "
        "src/bin/server_proxy.rs, 2 worker threads), before and after cluster metadata is set, followed by a PING on a second connection; inputs: "
        "hostile byte strings (array/bulk headers declaring 10^3..2^64 elements with nothing / one element / a few bytes behind them, also nested; "
        "nesting depth 10..2*10^6; non-command RESP values; inline/HTTP/binary junk; truncated packets; 64 KiB..8 MiB well-formed payloads and "
        "pipelines) and well-formed commands: every command family x arity 0..4, every (command, argument position, extreme value) over 38 extreme "
        "values (integer limits +-1, 2^31, 2^32, 2^63, 2^64, NaN, non-UTF-8, empty, protocol fragments), every UMCTL / CLUSTER / CONFIG sub-command "
        "likewise, EVAL numkeys, blocking timeouts, UMFORWARD counters, SETCLUSTER/SETREPL fields, plus random combinations; recorded per case: "
        "reply/close/nothing and latency, bystander reply, process alive / exit signal, panics and abort messages on stderr, peak RSS; non-trivial "
        "iff a byte-level case, a large input, or an outcome other than a plain reply",
        ["the code under test is built with the dev profile (overflow checks on), as the repository's test suite builds it",
         "UMCTL SHUTDOWN is excluded (stopping the proxy is that command's purpose)",
         "time bound used: 4 s + 1.5 s per MiB of input for reply-or-close; 6 s for the bystander PING; memory bound: peak RSS growth <= 64 x input bytes + 32 MiB",
         "Session.tla is a resource-accounting model of the parse/dispatch path; it is bound to the code by the observable monitors only"],
        "the enumerated families are complete as listed (every command x position x extreme value); everything else is sampled")


CHECKS["C16"] = {"run": _c16_run, "replay": _case_replay}


def _c05_run(prop, tier):
    t0 = time.time()
    fam = fam_codec.meta_family(tier)
    return _codec_finish(prop, tier, fam, t0,
        "case = one delivery of a random SETCLUSTER/SETREPL message (epoch 1..4 equal/lower/higher, FORCE, two contents, foreign host) in a "
        "sequence delivered to a real proxy, followed by GETEPOCH, a routing probe and INFOREPL; or one concurrent batch of 2-3 deliveries plus a "
        "reader thread (GETEPOCH then routing/roles) run on real threads under the hook-driven scheduler (hooks inside set_meta / update_replicators); "
        "non-trivial iff refused/forced (sequential) or a distinct thread schedule (concurrent)",
        ["the replication epoch is not observable through any command: for SETREPL the monitor uses replies and INFOREPL content only",
         "a routing probe that gets an error reply while metadata is being swapped is treated as 'no observation'",
         "concurrent schedules are sampled (seeded random), the sequential design is model-checked exhaustively up to 4 deliveries"],
        "sequential message alphabet fully covered by the model checker up to length 4; implementation sequences sampled")


CHECKS["C05"] = {"run": _c05_run, "replay": _case_replay}


def _migration_run(prop, tier):
    t0 = time.time()
    fam = fam_codec.migration_family(tier)
    return _codec_finish(prop, tier, fam, t0,
        "case = one real live migration (scale-out 4->8 or scale-in 8->4 through the real broker, coordinator rounds and two pairs of real proxies) "
        "with 2-3 concurrent clients issuing GET/SET/DEL/APPEND/SETNX/PEXPIRE/PERSIST on keys inside and outside the migrating ranges at random proxies "
        "(following MOVED), while a deterministic scheduler releases one stand-in command at a time (4 policies: random, migration-first, client-first, "
        "mostly-LIFO); backend_conn_num 1/2; scan_count 1/2/16; plus directed runs with scripted PTTL replies (0, 1, -1, 2^31, 2^63-1) and directed "
        "replays of the schedule TLC found in Migration.tla for the asynchronous owner switch (one pull-path RESTORE held back until commit, new "
        "metadata and a DEL through the new owner); "
        "non-trivial iff a RESTORE happened while a client operation was in flight",
        ["timers max_blocking_time / max_migration_time are set high: the force-ahead paths are excluded from the claim",
         "the stand-in's DUMP/RESTORE/SCAN semantics (harness/src/simnet.rs) stand for Redis; SCAN keeps Redis's guarantee for keys present during the whole scan",
         "an error reply is treated as 'may or may not have taken effect'",
         "schedules are sampled by seeded policies; the per-key linearizability decision itself is exact (subset construction in TLA+)",
         "Migration.tla assumes the C11 barrier (no command in flight to the source when PreSwitch is entered) and models one key"],
        "schedules sampled")


CHECKS["C03"] = {"run": _migration_run, "replay": _case_replay}
CHECKS["C19"] = {"run": _migration_run, "replay": _case_replay}
