"""C11: the pre-switch barrier (spec/Blocking.tla PlusCal, spec/Blocking_Trace.tla).

Pipeline: build harness -> TLC model-checks the PlusCal algorithm (all interleavings, small k)
-> TLC -simulate produces schedules (process orders) -> the real TaskBlockingQueue/BlockingHandle run
on real threads under the hook-driven deterministic scheduler following those schedules (and seeded
random ones) -> every recorded <thread,label> log is validated by TLC: L1 observer (C11 clauses) and
L2 step-by-step refinement of the PlusCal algorithm."""
import json
import os
import re
import time
from concurrent.futures import ThreadPoolExecutor

from vlib import (SPEC, WORK, UVERIF, ToolError, build_harness, cache_get, cache_put, fresh_dir, log, seed, sh,
                  tlc, tlc_ok, tlc_stats, tree_hash, validate_shards)

# name -> (targets, blockers, MC cfg, runs quick, runs thorough)
CONFIGS = {
    "k2":   ("b1,b1", 1, "quick", 1200, 12000),
    "k2n":  ("b1,none", 1, "quick2", 1200, 12000),
    "k2b2": ("b1,b1", 2, "th2b", 600, 8000),
    "k3":   ("b1,b1,none", 1, "th3", 600, 8000),
    "k3b2": ("b1,b1,b2", 2, "th3b", 0, 8000),
}
MC_QUICK = ["quick", "quick2"]
# th3b (3 senders, 2 blockers) is far beyond exhaustive reach (> 60 M states with the temporal properties: a first thorough run died
# of its timeout = tool error): it is explored breadth-first for a fixed time, safety invariants only, and reported as partial
MC_THOROUGH = ["quick", "quick2", "th2b", "th3", "th3b_safety"]
BEST_EFFORT = {"th3b_safety": 1500}

RULE = ("one run = k sender threads + blocker thread(s) + completer on the real TaskBlockingQueue under the "
        "deterministic scheduler; schedule = TLC-simulated process order (even runs) or seeded random (odd runs); "
        "non-trivial iff the run has a barrier AND (a command parked or an inner send between start_blocking and "
        "the barrier); distinct by hash of the <thread,label> sequence")


def _mc(name):
    t0 = time.time()
    budget = BEST_EFFORT.get(name)
    rc, out = tlc("Blocking_MC.tla", "Blocking_MC_%s.cfg" % name, os.path.join(WORK, "tlcmeta_blk_" + name),
                  workers=8, timeout=budget or 3000, xmx="12g")
    st = tlc_stats(out) or {}
    ok = tlc_ok(rc, out)
    partial = False
    if budget and not ok and rc == 124 and "Error:" not in out and "violated" not in out:
        # stopped by its time budget without having found anything: a partial breadth-first exploration
        m = re.findall(r"([\d,]+) states generated \([\d,]+ s/min\), ([\d,]+) distinct states found", out)
        if m:
            st = {"generated": int(m[-1][0].replace(",", "")), "distinct": int(m[-1][1].replace(",", ""))}
        ok, partial = True, True
    return {"name": name + (" (partial: time budget %ds)" % budget if partial else ""), "ok": ok, "states": st.get("distinct", 0),
            "transitions": st.get("generated", 0), "wall_s": round(time.time() - t0, 1), "tail": "" if ok else out[-2500:]}


def _sim(cfgname, num, sd, out_path):
    rc, out = tlc("Blocking_SIM.tla", "Blocking_SIM_%s.cfg" % cfgname, os.path.join(WORK, "tlcmeta_sim_" + cfgname),
                  workers=1, timeout=600, simulate="num=%d" % num, extra="-depth 200 -seed %d" % sd)
    n = 0
    with open(out_path, "w") as f:
        for m in re.finditer(r'<<"SCHED",\s*"((?:[^"\\]|\\.)*)"\s*>>', out, re.S):
            s = m.group(1).replace("\n", "").replace('\\"', '"')
            try:
                arr = json.loads(s)
            except Exception:
                continue
            f.write(json.dumps(arr) + "\n")
            n += 1
    return n


def _features(path):
    """per-run signature and non-triviality"""
    import hashlib
    runs = []
    cur = None
    with open(path) as fh:
        for line in fh:
            e = json.loads(line)
            if e.get("ev") == "reset":
                if cur:
                    runs.append(cur)
                cur = {"sig": hashlib.sha1(), "barrier": False, "parked": False, "inner_mid": False, "started": False, "n": 0,
                       "labels": []}
                continue
            if cur is None:
                continue
            if "label" in e:
                cur["sig"].update(("%s:%s;" % (e["t"], e["label"])).encode())
                cur["n"] += 1
                if len(cur["labels"]) < 60:
                    cur["labels"].append("%s:%s" % (e["t"], e["label"]))
                if e["label"] == "cas_try":
                    cur["started"] = True
                if e["label"] == "s_enq":
                    cur["parked"] = True
            elif e.get("ev") == "barrier_on":
                cur["barrier"] = True
            elif e.get("ev") == "inner" and cur["started"] and not cur["barrier"]:
                cur["inner_mid"] = True
    if cur:
        runs.append(cur)
    return [{"sig": r["sig"].hexdigest(), "nontrivial": r["barrier"] and (r["parked"] or r["inner_mid"]), "n": r["n"],
             "labels": r["labels"]} for r in runs]


def run_family(tier):
    sd = seed()
    key = "blocking_%s_%s_%d" % (tree_hash(), tier, sd)
    cached = cache_get(key)
    if cached:
        log("blocking family: cache hit", key)
        return cached
    t0 = time.time()
    build_harness()
    mcs = [_mc(n) for n in (MC_QUICK if tier == "quick" else MC_THOROUGH)]
    out_dir = fresh_dir(os.path.join(WORK, "blocking_" + tier))
    files = []
    for k, (name, (targets, nb, mccfg, nq, nt)) in enumerate(CONFIGS.items()):
        count = nq if tier == "quick" else nt
        if count == 0:
            continue
        hints = os.path.join(out_dir, "hints_%s.ndjson" % name)
        nh = _sim(mccfg, max(50, count // 2), sd * 13 + k, hints)
        # several files per config so that TLC validates them in parallel
        parts = 2 if tier == "quick" else 6
        for j in range(parts):
            f = os.path.join(out_dir, "runs_%s_%d.ndjson" % (name, j))
            rc, out = sh("%s blocking-runs --out %s --count %d --seed %d --targets %s --blockers %d --hints %s --hint-offset %d" % (
                UVERIF, f, count // parts, sd * 1009 + k * 31 + j, targets, nb, hints, j * (count // parts // 2)), timeout=3000)
            if rc != 0:
                raise ToolError("blocking rig failed: " + out[-2000:])
            files.append(f)
        log("config %s: %d hint schedules, %d runs" % (name, nh, count))
    verdicts = validate_shards("Blocking_Trace.tla", "Blocking_Trace.cfg", files, jobs=12, timeout=3000)
    viols, divs, events = [], [], 0
    for v in verdicts:
        events += v["n"]
        if not v["consumed"]:
            raise ToolError("Blocking_Trace did not consume %s\n%s" % (v["shard"], v.get("tlc_tail", "")))
        lines = None
        for kind, dst in (("viol", viols), ("div", divs)):
            for x in v.get(kind, []):
                if lines is None:
                    lines = open(v["shard"]).read().splitlines()
                # find the run (last reset before the line)
                ln = x["line"]
                start = ln
                while start > 1 and json.loads(lines[start - 1]).get("ev") != "reset":
                    start -= 1
                end = ln
                while end < len(lines) and json.loads(lines[end]).get("ev") != "reset":
                    end += 1
                dst.append({"mon": x["mon"], "file": v["shard"], "line": ln, "run_start": start, "run_end": end,
                            "reset": json.loads(lines[start - 1]),
                            "events": [json.loads(l) for l in lines[start:end]][:400] if len(dst) < 20 else []})
    feats = []
    with ThreadPoolExecutor(max_workers=8) as ex:
        for fl in ex.map(_features, files):
            feats += fl
    div_runs = {(d["file"], d["run_start"]) for d in divs}
    bad_runs = {(d["file"], d["run_start"]) for d in viols}
    res = {"tier": tier, "seed": sd, "wall_s": time.time() - t0, "runs": len(feats), "events": events,
           "violations": viols[:100], "violation_count": len(viols), "bad_runs": len(bad_runs),
           "divergences": [{k: d[k] for k in ("mon", "line", "reset")} for d in divs[:20]], "divergent_runs": len(div_runs),
           "distinct_nontrivial": len({f["sig"] for f in feats if f["nontrivial"]}),
           "distinct": len({f["sig"] for f in feats}),
           "samples": [{"labels": f["labels"]} for f in feats[:2]],
           "mc": mcs}
    for f in files:
        try:
            os.remove(f)
        except OSError:
            pass
    cache_put(key, res)
    return res


def replay(path):
    """re-run the recorded schedule (as hints) of a replay file on the current tree"""
    build_harness()
    rp = json.load(open(path))
    d = fresh_dir(os.path.join(WORK, "blocking_replay"))
    hints = os.path.join(d, "hints.ndjson")
    order = [e["t"] for e in rp["events"] if "label" in e]
    open(hints, "w").write(json.dumps(order) + "\n")
    f = os.path.join(d, "runs.ndjson")
    r = rp["reset"]
    rc, out = sh("%s blocking-runs --out %s --count 1 --seed %d --targets %s --blockers %d --hints %s --exact-seed" % (
        UVERIF, f, r["seed"], ",".join(r["targets"]), len(r["blockers"]), hints), timeout=600)
    if rc != 0:
        raise ToolError("blocking replay failed: " + out[-2000:])
    v = validate_shards("Blocking_Trace.tla", "Blocking_Trace.cfg", [f], jobs=1)[0]
    return v["viol"]
