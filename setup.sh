#!/bin/sh
# One-time setup after a fresh restore: syntax-check every TLA+ module (offline).
set -e
cd /verif/spec
for f in *.tla; do
  tla-sany "$f" >/dev/null 2>&1 || { echo "SANY failed on $f"; tla-sany "$f" | tail -20; exit 1; }
done
mkdir -p /verif/work /verif/evidence /verif/replays
echo "setup ok"
