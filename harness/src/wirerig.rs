//! C17 rig: control-plane messages through their real encoders / parsers.
use crate::brokerdrv::{config_json, slot_range_json};
use rand::rngs::StdRng;
use rand::seq::SliceRandom;
use rand::{Rng, SeedableRng};
use serde_json::{json, Value};
use std::collections::HashMap;
use std::convert::TryFrom;
use std::io::Write;
use undermoon::common::cluster::{
    ClusterName, MigrationMeta, MigrationTaskMeta, Range, RangeList, ReplPeer, SlotRange, SlotRangeTag,
};
use undermoon::common::config::ClusterConfig;
use undermoon::common::proto::{ClusterMapFlags, ProxyClusterMeta};
use undermoon::protocol::{Array, BulkStr, Resp, RespVec};
use undermoon::replication::replicator::{encode_repl_meta, MasterMeta, ReplicaMeta, ReplicatorMeta};

fn gen_range_list(rng: &mut StdRng) -> RangeList {
    let n = rng.gen_range(1..=3);
    let mut pts: Vec<usize> = (0..2 * n).map(|_| rng.gen_range(0..16384)).collect();
    // boundary slots
    if rng.gen_bool(0.2) {
        pts[0] = 0;
    }
    if rng.gen_bool(0.2) {
        let k = pts.len() - 1;
        pts[k] = 16383;
    }
    pts.sort();
    pts.dedup();
    let mut rs = vec![];
    let mut i = 0;
    while i + 1 < pts.len() {
        // non-adjacent ranges so that the list is already compact
        if rs.last().map(|r: &Range| r.end() + 1 < pts[i]).unwrap_or(true) {
            // one range in four is a single slot (start == end)
            let end = if rng.gen_bool(0.25) { pts[i] } else { pts[i + 1] };
            rs.push(Range(pts[i], end));
        }
        i += 2;
    }
    if rs.is_empty() {
        rs.push(Range(7, 7));
    }
    RangeList::new(rs)
}

fn gen_addr(rng: &mut StdRng, port_base: u32) -> String {
    format!("127.0.0.{}:{}", rng.gen_range(1..5), port_base + rng.gen_range(0..4))
}

fn gen_slot_range(rng: &mut StdRng) -> SlotRange {
    let meta = MigrationMeta {
        epoch: rng.gen_range(1..1000),
        src_proxy_address: gen_addr(rng, 7000),
        src_node_address: gen_addr(rng, 6000),
        dst_proxy_address: gen_addr(rng, 7000),
        dst_node_address: gen_addr(rng, 6000),
    };
    let tag = match rng.gen_range(0..4) {
        0 => SlotRangeTag::Migrating(meta),
        1 => SlotRangeTag::Importing(meta),
        _ => SlotRangeTag::None,
    };
    SlotRange { range_list: gen_range_list(rng), tag }
}

fn gen_node_map(rng: &mut StdRng, port_base: u32, allow_empty_slots: bool) -> HashMap<String, Vec<SlotRange>> {
    let mut m = HashMap::new();
    for _ in 0..rng.gen_range(0..=2) {
        let k = if allow_empty_slots { rng.gen_range(0..=2) } else { rng.gen_range(1..=2) };
        m.insert(gen_addr(rng, port_base), (0..k).map(|_| gen_slot_range(rng)).collect());
    }
    m
}

fn gen_config(rng: &mut StdRng) -> ClusterConfig {
    let mut c = ClusterConfig::default();
    let _ = c.set_field("compression_strategy", ["disabled", "set_get_only", "allow_all"].choose(rng).unwrap_or(&"disabled"));
    if rng.gen_bool(0.5) {
        let _ = c.set_field("migration_scan_count", &rng.gen_range(1..100).to_string());
        let _ = c.set_field("migration_max_blocking_time", &rng.gen_range(0..100000).to_string());
    }
    c
}

fn node_map_json(m: &HashMap<String, Vec<SlotRange>>) -> Value {
    let mut v: Vec<Value> = m.iter().map(|(k, srs)| json!({"node": k, "slots": srs.iter().map(slot_range_json).collect::<Vec<_>>()})).collect();
    v.sort_by(|a, b| a["node"].as_str().cmp(&b["node"].as_str()));
    Value::Array(v)
}

fn meta_json(m: &ProxyClusterMeta) -> Value {
    let cfg = serde_json::to_value(m.get_config()).unwrap_or(Value::Null);
    json!({
        "epoch": m.get_epoch(), "force": m.get_flags().force, "name": m.get_cluster_name().to_string(),
        "local": node_map_json(m.get_local()), "peer": node_map_json(m.get_peer()), "config": config_json(&cfg),
    })
}

fn parse_args(args: &[String]) -> Value {
    let mut it = args.iter().cloned().peekable();
    match std::panic::catch_unwind(std::panic::AssertUnwindSafe(|| ProxyClusterMeta::parse(&mut it))) {
        Ok(Ok((m, ext))) => json!({"ok": true, "why": "", "config_ok": ext.is_ok(), "v": meta_json(&m)}),
        Ok(Err(_)) => json!({"ok": false, "why": "ERR", "config_ok": true, "v": {}}),
        Err(_) => json!({"ok": false, "why": "PANIC", "config_ok": true, "v": {}}),
    }
}

fn repl_json(r: &ReplicatorMeta) -> Value {
    let peers = |ps: &Vec<ReplPeer>| Value::Array(ps.iter().map(|p| json!({"node": p.node_address, "proxy": p.proxy_address})).collect());
    json!({
        "epoch": r.epoch, "force": r.flags.force,
        "masters": r.masters.iter().map(|m| json!({"name": m.cluster_name.to_string(), "node": m.master_node_address, "peers": peers(&m.replicas)})).collect::<Vec<_>>(),
        "replicas": r.replicas.iter().map(|m| json!({"name": m.cluster_name.to_string(), "node": m.replica_node_address, "peers": peers(&m.masters)})).collect::<Vec<_>>(),
    })
}

fn parse_repl(args: &[String]) -> Value {
    let mut items: Vec<RespVec> = vec![Resp::Bulk(BulkStr::Str(b"UMCTL".to_vec())), Resp::Bulk(BulkStr::Str(b"SETREPL".to_vec()))];
    items.extend(args.iter().map(|a| Resp::Bulk(BulkStr::Str(a.clone().into_bytes()))));
    let resp: RespVec = Resp::Arr(Array::Arr(items));
    match std::panic::catch_unwind(|| ReplicatorMeta::from_resp(&resp)) {
        Ok(Ok(r)) => json!({"ok": true, "why": "", "v": repl_json(&r)}),
        Ok(Err(_)) => json!({"ok": false, "why": "ERR", "v": {}}),
        Err(_) => json!({"ok": false, "why": "PANIC", "v": {}}),
    }
}

/// what the parser can read a token as (attributes for spec/Wire.tla); integers beyond TLC's range are clamped
fn tok_json(t: &str) -> Value {
    let clamp = |n: u64| -> i64 { if n > 2_000_000_000 { 2_000_000_000 } else { n as i64 } };
    let num = t.parse::<u64>().map(clamp).unwrap_or(-1);
    let (lo, hi) = {
        let mut it = t.split('-');
        match (it.next().and_then(|x| x.parse::<usize>().ok()), it.next().and_then(|x| x.parse::<usize>().ok())) {
            (Some(a), Some(b)) => (clamp(a as u64), clamp(b as u64)),
            _ => (-1, -1),
        }
    };
    let has = |f: &str| t.split(',').any(|x| x == f);
    json!({"s": t, "up": t.to_uppercase(), "num": num, "lo": lo, "hi": hi, "force": has("FORCE"), "compress": has("COMPRESS"),
           "nameok": ClusterName::try_from(t).is_ok()})
}

fn toks_json(args: &[String]) -> (Value, Value) {
    let toks: Vec<Value> = args.iter().map(|a| tok_json(a)).collect();
    let pairok: Vec<bool> = (0..args.len())
        .map(|i| match args.get(i + 1) {
            Some(v) => ClusterConfig::default().set_field(&args[i], v).is_ok(),
            None => false,
        })
        .collect();
    (Value::Array(toks), json!(pairok))
}

fn token_kind(t: &str) -> &'static str {
    let u = t.to_uppercase();
    if u == "PEER" || u == "CONFIG" || u == "MIGRATING" || u == "IMPORTING" {
        "keyword"
    } else if t.parse::<u64>().is_ok() {
        "number"
    } else if t.contains(':') {
        "address"
    } else if t.contains('-') && t.split('-').all(|x| x.parse::<u64>().is_ok()) {
        "range"
    } else {
        "word"
    }
}

pub fn run<W: Write>(out: &mut W, count: u64, seed: u64) {
    let mut rng = StdRng::seed_from_u64(seed);
    let names = ["c1", "mycluster", "a-b_c@1"];
    for i in 0..count {
        let name = ClusterName::try_from(*names.choose(&mut rng).unwrap_or(&"c1")).expect("name");
        let flags = ClusterMapFlags { force: rng.gen_bool(0.3), compress: false };
        let m = ProxyClusterMeta::new(
            rng.gen_range(1..100000),
            flags.clone(),
            name.clone(),
            gen_node_map(&mut rng, 6000, i % 5 == 0),
            gen_node_map(&mut rng, 7000, false),
            gen_config(&mut rng),
        );
        let orig = meta_json(&m);
        let args = m.to_args();
        let (toks, pairok) = toks_json(&args);
        writeln!(out, "{}", json!({"kind": "plain", "orig": orig, "args": args, "toks": toks, "pairok": pairok, "parsed": parse_args(&args)})).ok();
        // compressed path
        let mc = ProxyClusterMeta::new(m.get_epoch(), ClusterMapFlags { force: flags.force, compress: true }, name.clone(), m.get_local().clone(), m.get_peer().clone(), m.get_config().clone());
        match mc.to_compressed_args() {
            Ok(cargs) => {
                writeln!(out, "{}", json!({"kind": "compressed", "orig": orig, "parsed": parse_args(&cargs)})).ok();
            }
            Err(_) => {
                writeln!(out, "{}", json!({"kind": "compressed", "orig": orig, "parsed": {"ok": false, "why": "ENCODE_ERR", "config_ok": true, "v": {}}})).ok();
            }
        }
        // corrupted compressed encodings: the payload token damaged in three ways
        if i % 3 == 1 {
            if let Ok(cargs) = mc.to_compressed_args() {
                if let Some(data) = cargs.get(3).cloned() {
                    let mut variants: Vec<(&str, Vec<String>)> = vec![];
                    let mut a = cargs.clone();
                    a.truncate(3);
                    variants.push(("drop_payload", a));
                    let mut a = cargs.clone();
                    a[3] = data[..data.len() / 2].to_string();
                    variants.push(("truncate_payload", a));
                    let mut a = cargs.clone();
                    let p = rng.gen_range(0..data.len());
                    let mut b = data.clone().into_bytes();
                    b[p] = if b[p] == b'A' { b'B' } else { b'A' };
                    a[3] = String::from_utf8_lossy(&b).to_string();
                    variants.push(("flip_char", a));
                    for (how, a) in variants {
                        writeln!(out, "{}", json!({"kind": "corrupt", "how": how, "idx": 3, "token": "", "tk": "payload", "orig": orig, "parsed": parse_args(&a)})).ok();
                    }
                    // damage BELOW the base64 layer: every single-bit flip of the gzip stream and every truncation of its last
                    // 1..16 bytes (the CRC32 / ISIZE trailer is what protects the inflated text).  Only accepted variants are
                    // written out (a rejected one is what the property asks for); the summary line counts all of them.
                    if i % 9 == 1 {
                        if let Ok(raw) = base64::decode(&data) {
                            let mut tried = 0u64;
                            let mut accepted = 0u64;
                            let mut try_one = |how: &str, bytes: &[u8], out: &mut dyn Write| {
                                tried += 1;
                                let mut a = cargs.clone();
                                a[3] = base64::encode(bytes);
                                let parsed = parse_args(&a);
                                if parsed["ok"] == true {
                                    accepted += 1;
                                    writeln!(out, "{}", json!({"kind": "corrupt", "how": how, "idx": 3, "token": "", "tk": "payload", "orig": orig, "parsed": parsed})).ok();
                                }
                            };
                            for byte in 0..raw.len() {
                                for bit in 0..8 {
                                    let mut b = raw.clone();
                                    b[byte] ^= 1 << bit;
                                    try_one("gzip_bit_flip", &b, out);
                                }
                            }
                            for cut in 1..=16usize.min(raw.len()) {
                                try_one("gzip_truncate", &raw[..raw.len() - cut], out);
                            }
                            writeln!(out, "{}", json!({"kind": "corrupt_summary", "tried": tried, "accepted": accepted})).ok();
                        }
                    }
                }
            }
        }
        // corrupted plain encodings: every single-token deletion, every truncation, some replacements
        if i % 3 == 0 {
            for p in 0..args.len() {
                let mut a = args.clone();
                let tok = a.remove(p);
                let (toks, pairok) = toks_json(&a);
                writeln!(out, "{}", json!({"kind": "corrupt", "how": "delete", "idx": p, "token": tok, "tk": token_kind(&tok), "orig": orig, "toks": toks, "pairok": pairok, "parsed": parse_args(&a)})).ok();
                let t: Vec<String> = args[..p].to_vec();
                let (toks, pairok) = toks_json(&t);
                writeln!(out, "{}", json!({"kind": "corrupt", "how": "truncate", "idx": p, "token": args[p], "tk": token_kind(&args[p]), "orig": orig, "toks": toks, "pairok": pairok, "parsed": parse_args(&t)})).ok();
            }
            for _ in 0..6 {
                if args.is_empty() {
                    break;
                }
                let mut a = args.clone();
                let p = rng.gen_range(0..a.len());
                let q = rng.gen_range(0..a.len());
                let old = a[p].clone();
                a[p] = args[q].clone();
                // only replacements by a token of another kind: same-kind replacements are legitimately
                // different messages that no parser could tell apart
                if a[p] != old && token_kind(&a[p]) != token_kind(&old) {
                    let (toks, pairok) = toks_json(&a);
                    writeln!(out, "{}", json!({"kind": "corrupt", "how": "replace", "idx": p, "token": old, "tk": token_kind(&old), "orig": orig, "toks": toks, "pairok": pairok, "parsed": parse_args(&a)})).ok();
                }
            }
        }
        // replication metadata
        let mk_peers = |rng: &mut StdRng| -> Vec<ReplPeer> {
            (0..rng.gen_range(0..=2)).map(|_| ReplPeer { node_address: gen_addr(rng, 6000), proxy_address: gen_addr(rng, 7000) }).collect()
        };
        let masters: Vec<MasterMeta> = (0..rng.gen_range(0..=2)).map(|_| MasterMeta { cluster_name: name.clone(), master_node_address: gen_addr(&mut rng, 6000), replicas: mk_peers(&mut rng) }).collect();
        let replicas: Vec<ReplicaMeta> = (0..rng.gen_range(0..=2)).map(|_| ReplicaMeta { cluster_name: name.clone(), replica_node_address: gen_addr(&mut rng, 6000), masters: mk_peers(&mut rng) }).collect();
        let r = ReplicatorMeta { epoch: rng.gen_range(1..100000), flags: ClusterMapFlags { force: rng.gen_bool(0.3), compress: false }, masters, replicas };
        let rorig = repl_json(&r);
        let rargs = encode_repl_meta(r);
        writeln!(out, "{}", json!({"kind": "repl", "orig": rorig, "args": rargs, "parsed": parse_repl(&rargs)})).ok();
        if i % 4 == 0 {
            for p in 0..rargs.len() {
                let mut a = rargs.clone();
                let tok = a.remove(p);
                writeln!(out, "{}", json!({"kind": "corrupt_repl", "how": "delete", "idx": p, "token": tok, "tk": token_kind(&tok), "orig": rorig, "parsed": parse_repl(&a)})).ok();
            }
        }
        // migration task descriptor: into_strings -> join(" ") (UMCTL INFOMGR) -> split(" ") -> from_strings
        let mut sr = gen_slot_range(&mut rng);
        if sr.tag.is_stable() && rng.gen_bool(0.8) {
            sr.tag = SlotRangeTag::Migrating(MigrationMeta { epoch: 5, src_proxy_address: gen_addr(&mut rng, 7000), src_node_address: gen_addr(&mut rng, 6000), dst_proxy_address: gen_addr(&mut rng, 7000), dst_node_address: gen_addr(&mut rng, 6000) });
        }
        let task = MigrationTaskMeta { cluster_name: name.clone(), slot_range: sr.clone() };
        let wire = task.clone().into_strings().join(" ");
        let mut it = wire.split(' ').map(ToString::to_string).collect::<Vec<String>>().into_iter().peekable();
        let back = MigrationTaskMeta::from_strings(&mut it);
        writeln!(out, "{}", json!({"kind": "task", "orig": {"name": name.to_string(), "sr": slot_range_json(&sr)}, "wire": wire,
            "parsed": match back { Some(t) => json!({"ok": true, "why": "", "v": {"name": t.cluster_name.to_string(), "sr": slot_range_json(&t.slot_range)}}), None => json!({"ok": false, "why": "ERR", "v": {}}) }})).ok();
    }
}
