//! simnet: an in-process cluster (DESIGN §2.2).
//!  - storing Redis stand-ins (strings, lists, ttl on a virtual clock, DUMP/RESTORE/PTTL/SCAN)
//!  - real proxies (`SharedForwardHandler`) wired to the stand-ins and to each other through fake
//!    `ConnFactory` / `RedisClientFactory` implementations that route by address
//!  - an event log with a per-world sequence number
//!  - an optional deterministic gate that releases one stand-in command at a time (C03)
use arc_swap::ArcSwap;
use futures::channel::mpsc;
use futures::{Future, SinkExt, StreamExt};
use parking_lot::Mutex;
use serde_json::{json, Value};
use std::collections::{BTreeMap, HashMap, VecDeque};
use std::net::SocketAddr;
use std::num::NonZeroUsize;
use std::pin::Pin;
use std::sync::atomic::{AtomicBool, AtomicI64, AtomicU64, Ordering};
use std::sync::Arc;
use std::time::Duration;
use undermoon::common::batch::BatchStrategy;
use undermoon::common::track::TrackedFutureRegistry;
use undermoon::protocol::{
    Array, BinSafeStr, BulkStr, OptionalMulti, RedisClient, RedisClientError, RedisClientFactory, Resp, RespPacket,
    RespVec,
};
use undermoon::proxy::backend::{BackendError, ConnFactory, ConnSink, ConnStream, CreateConnResult};
use undermoon::proxy::command::{new_command_pair, Command};
use undermoon::proxy::executor::SharedForwardHandler;
use undermoon::proxy::manager::MetaMap;
use undermoon::proxy::service::{ClusterNodesVersion, ServerProxyConfig};
use undermoon::proxy::session::{CmdCtx, CmdCtxHandler};
use undermoon::proxy::slowlog::SlowRequestLogger;

// ---------------------------------------------------------------------------------------------
// Redis stand-in
// ---------------------------------------------------------------------------------------------

#[derive(Clone, Debug, PartialEq)]
pub enum RVal {
    Str(Vec<u8>),
    List(VecDeque<Vec<u8>>),
}

#[derive(Clone, Debug)]
pub struct REntry {
    pub val: RVal,
    pub expire_at: Option<u64>, // virtual ms
}

#[derive(Default)]
pub struct FakeRedis {
    pub data: BTreeMap<Vec<u8>, REntry>,
    pub master_of: Option<String>, // SLAVEOF target
    /// scripted PTTL replies (C19 directed rig): key -> raw reply
    pub pttl_override: HashMap<Vec<u8>, RespVec>,
}

fn bulk(s: &[u8]) -> RespVec {
    Resp::Bulk(BulkStr::Str(s.to_vec()))
}
fn int(n: i64) -> RespVec {
    Resp::Integer(n.to_string().into_bytes())
}
fn ok() -> RespVec {
    Resp::Simple(b"OK".to_vec())
}
fn err(s: &str) -> RespVec {
    Resp::Error(s.as_bytes().to_vec())
}
fn nil() -> RespVec {
    Resp::Bulk(BulkStr::Nil)
}

fn key_order(k: &[u8]) -> u64 {
    // stable pseudo-random order of keys for SCAN cursors (never 0)
    let mut h: u64 = 0xcbf29ce484222325;
    for b in k {
        h ^= *b as u64;
        h = h.wrapping_mul(0x100000001b3);
    }
    (h >> 2) | 1
}

fn dump_payload(e: &RVal) -> Vec<u8> {
    match e {
        RVal::Str(s) => {
            let mut v = b"S".to_vec();
            v.extend_from_slice(s);
            v
        }
        RVal::List(l) => {
            let mut v = b"L".to_vec();
            for it in l {
                v.extend_from_slice(&(it.len() as u32).to_be_bytes());
                v.extend_from_slice(it);
            }
            v
        }
    }
}

fn parse_payload(p: &[u8]) -> Option<RVal> {
    match p.first()? {
        b'S' => Some(RVal::Str(p[1..].to_vec())),
        b'L' => {
            let mut l = VecDeque::new();
            let mut i = 1;
            while i + 4 <= p.len() {
                let n = u32::from_be_bytes([p[i], p[i + 1], p[i + 2], p[i + 3]]) as usize;
                i += 4;
                if i + n > p.len() {
                    return None;
                }
                l.push_back(p[i..i + n].to_vec());
                i += n;
            }
            Some(RVal::List(l))
        }
        _ => None,
    }
}

impl FakeRedis {
    fn live(&mut self, k: &[u8], now: u64) -> bool {
        let expired = match self.data.get(k) {
            None => return false,
            Some(e) => e.expire_at.map(|t| t <= now).unwrap_or(false),
        };
        if expired {
            self.data.remove(k);
            return false;
        }
        true
    }

    pub fn exec(&mut self, cmd: &[Vec<u8>], now: u64) -> RespVec {
        if cmd.is_empty() {
            return err("ERR empty command");
        }
        let name = String::from_utf8_lossy(&cmd[0]).to_uppercase();
        let a = |i: usize| -> Option<&Vec<u8>> { cmd.get(i) };
        let num = |i: usize| -> Option<i64> { cmd.get(i).and_then(|s| std::str::from_utf8(s).ok()).and_then(|s| s.parse().ok()) };
        macro_rules! need {
            ($n:expr) => {
                if cmd.len() < $n {
                    return err("ERR wrong number of arguments");
                }
            };
        }
        match name.as_str() {
            "PING" => Resp::Simple(b"PONG".to_vec()),
            "SELECT" | "AUTH" | "CONFIG" => ok(),
            "INFO" => bulk(b"# Replication\r\nrole:master\r\n"),
            "SLAVEOF" | "REPLICAOF" => {
                need!(3);
                if String::from_utf8_lossy(&cmd[1]).to_uppercase() == "NO" {
                    self.master_of = None;
                } else {
                    self.master_of = Some(format!("{}:{}", String::from_utf8_lossy(&cmd[1]), String::from_utf8_lossy(&cmd[2])));
                }
                ok()
            }
            "GET" => {
                need!(2);
                if !self.live(&cmd[1], now) {
                    return nil();
                }
                match &self.data[&cmd[1]].val {
                    RVal::Str(s) => bulk(s),
                    _ => err("WRONGTYPE Operation against a key holding the wrong kind of value"),
                }
            }
            "SET" => {
                need!(3);
                let mut ex: Option<u64> = None;
                let mut nx = false;
                let mut xx = false;
                let mut keepttl = false;
                let mut i = 3;
                while i < cmd.len() {
                    let o = String::from_utf8_lossy(&cmd[i]).to_uppercase();
                    match o.as_str() {
                        "EX" => {
                            ex = num(i + 1).map(|s| now + (s.max(0) as u64) * 1000);
                            i += 1;
                        }
                        "PX" => {
                            ex = num(i + 1).map(|s| now + s.max(0) as u64);
                            i += 1;
                        }
                        "NX" => nx = true,
                        "XX" => xx = true,
                        "KEEPTTL" => keepttl = true,
                        _ => return err("ERR syntax error"),
                    }
                    i += 1;
                }
                let exists = self.live(&cmd[1], now);
                if (nx && exists) || (xx && !exists) {
                    return nil();
                }
                let old_exp = if keepttl { self.data.get(&cmd[1]).and_then(|e| e.expire_at) } else { None };
                self.data.insert(cmd[1].clone(), REntry { val: RVal::Str(cmd[2].clone()), expire_at: ex.or(old_exp) });
                ok()
            }
            "SETNX" => {
                need!(3);
                if self.live(&cmd[1], now) {
                    int(0)
                } else {
                    self.data.insert(cmd[1].clone(), REntry { val: RVal::Str(cmd[2].clone()), expire_at: None });
                    int(1)
                }
            }
            "SETEX" | "PSETEX" => {
                need!(4);
                let n = match num(2) {
                    Some(n) if n > 0 => n as u64,
                    _ => return err("ERR invalid expire time"),
                };
                let ms = if name == "SETEX" { n * 1000 } else { n };
                self.data.insert(cmd[1].clone(), REntry { val: RVal::Str(cmd[3].clone()), expire_at: Some(now + ms) });
                ok()
            }
            "GETDEL" => {
                need!(2);
                if !self.live(&cmd[1], now) {
                    return nil();
                }
                let r = match &self.data[&cmd[1]].val {
                    RVal::Str(s) => bulk(s),
                    _ => return err("WRONGTYPE Operation against a key holding the wrong kind of value"),
                };
                self.data.remove(&cmd[1]);
                r
            }
            "GETSET" => {
                need!(3);
                let old = if self.live(&cmd[1], now) {
                    match &self.data[&cmd[1]].val {
                        RVal::Str(s) => bulk(s),
                        _ => return err("WRONGTYPE Operation against a key holding the wrong kind of value"),
                    }
                } else {
                    nil()
                };
                self.data.insert(cmd[1].clone(), REntry { val: RVal::Str(cmd[2].clone()), expire_at: None });
                old
            }
            "MGET" => {
                need!(2);
                let mut out = vec![];
                for k in &cmd[1..] {
                    if self.live(k, now) {
                        match &self.data[k].val {
                            RVal::Str(s) => out.push(bulk(s)),
                            _ => out.push(nil()),
                        }
                    } else {
                        out.push(nil());
                    }
                }
                Resp::Arr(Array::Arr(out))
            }
            "MSET" | "MSETNX" => {
                if cmd.len() < 3 || cmd.len() % 2 == 0 {
                    return err("ERR wrong number of arguments");
                }
                if name == "MSETNX" {
                    let mut any = false;
                    for i in (1..cmd.len()).step_by(2) {
                        any |= self.live(&cmd[i], now);
                    }
                    if any {
                        return int(0);
                    }
                }
                for i in (1..cmd.len()).step_by(2) {
                    self.data.insert(cmd[i].clone(), REntry { val: RVal::Str(cmd[i + 1].clone()), expire_at: None });
                }
                if name == "MSET" {
                    ok()
                } else {
                    int(1)
                }
            }
            "DEL" | "UNLINK" => {
                need!(2);
                let mut n = 0;
                for k in &cmd[1..] {
                    if self.live(k, now) {
                        self.data.remove(k);
                        n += 1;
                    }
                }
                int(n)
            }
            "EXISTS" => {
                need!(2);
                let mut n = 0;
                for k in &cmd[1..] {
                    if self.live(k, now) {
                        n += 1;
                    }
                }
                int(n)
            }
            "INCR" | "DECR" | "INCRBY" => {
                need!(2);
                let delta = match name.as_str() {
                    "INCR" => 1,
                    "DECR" => -1,
                    _ => num(2).unwrap_or(0),
                };
                let cur = if self.live(&cmd[1], now) {
                    match &self.data[&cmd[1]].val {
                        RVal::Str(s) => match std::str::from_utf8(s).ok().and_then(|x| x.parse::<i64>().ok()) {
                            Some(n) => n,
                            None => return err("ERR value is not an integer or out of range"),
                        },
                        _ => return err("WRONGTYPE Operation against a key holding the wrong kind of value"),
                    }
                } else {
                    0
                };
                let exp = self.data.get(&cmd[1]).and_then(|e| e.expire_at);
                let n = cur + delta;
                self.data.insert(cmd[1].clone(), REntry { val: RVal::Str(n.to_string().into_bytes()), expire_at: exp });
                int(n)
            }
            "APPEND" => {
                need!(3);
                let (mut s, exp) = if self.live(&cmd[1], now) {
                    match &self.data[&cmd[1]] {
                        REntry { val: RVal::Str(s), expire_at } => (s.clone(), *expire_at),
                        _ => return err("WRONGTYPE Operation against a key holding the wrong kind of value"),
                    }
                } else {
                    (vec![], None)
                };
                s.extend_from_slice(&cmd[2]);
                let n = s.len();
                self.data.insert(cmd[1].clone(), REntry { val: RVal::Str(s), expire_at: exp });
                int(n as i64)
            }
            "STRLEN" => {
                need!(2);
                if !self.live(&cmd[1], now) {
                    return int(0);
                }
                match &self.data[&cmd[1]].val {
                    RVal::Str(s) => int(s.len() as i64),
                    _ => err("WRONGTYPE Operation against a key holding the wrong kind of value"),
                }
            }
            "LPUSH" | "RPUSH" => {
                need!(3);
                let (mut l, exp) = if self.live(&cmd[1], now) {
                    match &self.data[&cmd[1]] {
                        REntry { val: RVal::List(l), expire_at } => (l.clone(), *expire_at),
                        _ => return err("WRONGTYPE Operation against a key holding the wrong kind of value"),
                    }
                } else {
                    (VecDeque::new(), None)
                };
                for v in &cmd[2..] {
                    if name == "LPUSH" {
                        l.push_front(v.clone());
                    } else {
                        l.push_back(v.clone());
                    }
                }
                let n = l.len();
                self.data.insert(cmd[1].clone(), REntry { val: RVal::List(l), expire_at: exp });
                int(n as i64)
            }
            "LPOP" | "RPOP" => {
                need!(2);
                if !self.live(&cmd[1], now) {
                    return nil();
                }
                let e = self.data.get_mut(&cmd[1]).expect("live");
                match &mut e.val {
                    RVal::List(l) => {
                        let v = if name == "LPOP" { l.pop_front() } else { l.pop_back() };
                        let empty = l.is_empty();
                        if empty {
                            self.data.remove(&cmd[1]);
                        }
                        v.map(|x| bulk(&x)).unwrap_or_else(nil)
                    }
                    _ => err("WRONGTYPE Operation against a key holding the wrong kind of value"),
                }
            }
            "LLEN" => {
                need!(2);
                if !self.live(&cmd[1], now) {
                    return int(0);
                }
                match &self.data[&cmd[1]].val {
                    RVal::List(l) => int(l.len() as i64),
                    _ => err("WRONGTYPE Operation against a key holding the wrong kind of value"),
                }
            }
            "LRANGE" => {
                need!(4);
                if !self.live(&cmd[1], now) {
                    return Resp::Arr(Array::Arr(vec![]));
                }
                match &self.data[&cmd[1]].val {
                    RVal::List(l) => Resp::Arr(Array::Arr(l.iter().map(|x| bulk(x)).collect())),
                    _ => err("WRONGTYPE Operation against a key holding the wrong kind of value"),
                }
            }
            "EXPIRE" | "PEXPIRE" => {
                need!(3);
                if !self.live(&cmd[1], now) {
                    return int(0);
                }
                let n = num(2).unwrap_or(0);
                let ms = if name == "EXPIRE" { n * 1000 } else { n };
                if ms <= 0 {
                    self.data.remove(&cmd[1]);
                } else {
                    self.data.get_mut(&cmd[1]).expect("live").expire_at = Some(now + ms as u64);
                }
                int(1)
            }
            "PERSIST" => {
                need!(2);
                if !self.live(&cmd[1], now) {
                    return int(0);
                }
                let e = self.data.get_mut(&cmd[1]).expect("live");
                let had = e.expire_at.is_some();
                e.expire_at = None;
                int(had as i64)
            }
            "PTTL" | "TTL" => {
                need!(2);
                if name == "PTTL" {
                    if let Some(r) = self.pttl_override.get(&cmd[1]) {
                        return r.clone();
                    }
                }
                if !self.live(&cmd[1], now) {
                    return int(-2);
                }
                match self.data[&cmd[1]].expire_at {
                    None => int(-1),
                    Some(t) => {
                        let ms = (t - now) as i64;
                        if name == "PTTL" {
                            int(ms)
                        } else {
                            int((ms + 500) / 1000)
                        }
                    }
                }
            }
            "DUMP" => {
                need!(2);
                if !self.live(&cmd[1], now) {
                    return nil();
                }
                bulk(&dump_payload(&self.data[&cmd[1]].val))
            }
            "RESTORE" => {
                need!(4);
                let ttl = match num(2) {
                    Some(t) if t >= 0 => t as u64,
                    _ => return err("ERR Invalid TTL value, must be >= 0"),
                };
                let mut replace = false;
                for o in &cmd[4..] {
                    if String::from_utf8_lossy(o).to_uppercase() == "REPLACE" {
                        replace = true;
                    }
                }
                if self.live(&cmd[1], now) && !replace {
                    return err("BUSYKEY Target key name already exists.");
                }
                let val = match parse_payload(&cmd[3]) {
                    Some(v) => v,
                    None => return err("ERR DUMP payload version or checksum are wrong"),
                };
                self.data.insert(cmd[1].clone(), REntry { val, expire_at: if ttl == 0 { None } else { Some(now + ttl) } });
                ok()
            }
            "SCAN" => {
                need!(2);
                let cursor: u64 = num(1).map(|x| x as u64).unwrap_or(0);
                let mut count = 10usize;
                let mut i = 2;
                while i + 1 < cmd.len() {
                    if String::from_utf8_lossy(&cmd[i]).to_uppercase() == "COUNT" {
                        count = num(i + 1).unwrap_or(10).max(1) as usize;
                    }
                    i += 2;
                }
                let keys: Vec<Vec<u8>> = self.data.keys().cloned().collect();
                let mut live: Vec<(u64, Vec<u8>)> = vec![];
                for k in keys {
                    if self.live(&k, now) {
                        live.push((key_order(&k), k));
                    }
                }
                live.sort();
                let rest: Vec<&(u64, Vec<u8>)> = live.iter().filter(|(o, _)| *o >= cursor).collect();
                let batch: Vec<&(u64, Vec<u8>)> = rest.iter().take(count).cloned().collect();
                let next = if rest.len() > batch.len() { rest[batch.len()].0 } else { 0 };
                Resp::Arr(Array::Arr(vec![
                    bulk(next.to_string().as_bytes()),
                    Resp::Arr(Array::Arr(batch.iter().map(|(_, k)| bulk(k)).collect())),
                ]))
            }
            // scripts cannot run in the stand-in; routing of EVAL/EVALSHA is what the rigs observe
            "EVAL" | "EVALSHA" => int(1),
            "TOUCH" => {
                need!(2);
                let mut n = 0;
                for k in &cmd[1..] {
                    if self.live(k, now) {
                        n += 1;
                    }
                }
                int(n)
            }
            "DBSIZE" => int(self.data.len() as i64),
            "FLUSHALL" | "FLUSHDB" => {
                self.data.clear();
                ok()
            }
            _ => err(&format!("ERR unknown command '{}'", name)),
        }
    }
}

// ---------------------------------------------------------------------------------------------
// The world
// ---------------------------------------------------------------------------------------------

pub type Handler = SharedForwardHandler<NetClientFactory, NetConnFactory>;

pub struct ProxyNode {
    pub addr: String,
    pub handler: Handler,
    pub config: Arc<ServerProxyConfig>,
}

pub struct Pending {
    pub id: u64,
    /// how the command reached the stand-in: "conn:<proxy>" (a proxy's backend connection) or "client:<proxy>"
    pub via: String,
    pub node: String,
    pub cmd: Vec<Vec<u8>>,
    pub release: futures::channel::oneshot::Sender<()>,
}

pub struct NetInner {
    pub redis: Mutex<HashMap<String, FakeRedis>>,
    pub proxies: Mutex<HashMap<String, Arc<ProxyNode>>>,
    pub log: Mutex<Vec<Value>>,
    pub clock_ms: AtomicU64,
    pub gated: AtomicBool,
    pub pending: Mutex<Vec<Pending>>,
    pub pending_notify: tokio::sync::Notify,
    pub next_id: AtomicU64,
    pub log_redis: AtomicBool,
    /// calls to proxies through the client factory that must fail (unreachable proxies)
    pub down: Mutex<std::collections::HashSet<String>>,
    /// interceptor for control calls (UMCTL ...) crossing the fake network; returns Some(reply) to short-cut
    pub call_hook: Mutex<Option<Arc<dyn Fn(&str, &[Vec<u8>]) -> Option<RespVec> + Send + Sync>>>,
    /// faults for control calls (UMCTL ...) to proxies: call index -> "drop" | "dropreply" | "dup" | "delay:<k>"
    pub call_faults: Mutex<HashMap<u64, String>>,
    pub call_counter: AtomicU64,
    /// delayed control messages: (due call index, target, command)
    pub delayed: Mutex<Vec<(u64, String, Vec<Vec<u8>>)>>,
}

#[derive(Clone)]
pub struct Net {
    pub inner: Arc<NetInner>,
}

pub fn lossy(cmd: &[Vec<u8>]) -> Vec<String> {
    cmd.iter()
        .map(|s| {
            if s.len() > 64 {
                format!("<{} bytes>", s.len())
            } else if s.iter().all(|b| *b >= 32 && *b < 127) {
                String::from_utf8_lossy(s).to_string()
            } else {
                format!("0x{}", s.iter().map(|b| format!("{:02x}", b)).collect::<String>())
            }
        })
        .collect()
}

pub fn resp_json(r: &RespVec) -> Value {
    let s = |b: &Vec<u8>| -> Value {
        if b.len() > 200 {
            json!(format!("<{} bytes>", b.len()))
        } else if b.iter().all(|c| *c >= 32 && *c < 127) {
            json!(String::from_utf8_lossy(b))
        } else {
            json!(format!("0x{}", b.iter().map(|c| format!("{:02x}", c)).collect::<String>()))
        }
    };
    match r {
        Resp::Simple(b) => json!({"t": "simple", "s": s(b)}),
        Resp::Error(b) => json!({"t": "error", "s": s(b)}),
        Resp::Integer(b) => json!({"t": "int", "s": s(b)}),
        Resp::Bulk(BulkStr::Str(b)) => json!({"t": "bulk", "s": s(b)}),
        Resp::Bulk(BulkStr::Nil) => json!({"t": "nil"}),
        Resp::Arr(Array::Nil) => json!({"t": "nilarr"}),
        Resp::Arr(Array::Arr(a)) => json!({"t": "arr", "a": a.iter().map(resp_json).collect::<Vec<_>>()}),
    }
}

impl Net {
    pub fn new() -> Self {
        Net {
            inner: Arc::new(NetInner {
                redis: Mutex::new(HashMap::new()),
                proxies: Mutex::new(HashMap::new()),
                log: Mutex::new(vec![]),
                clock_ms: AtomicU64::new(1_000_000),
                gated: AtomicBool::new(false),
                pending: Mutex::new(vec![]),
                pending_notify: tokio::sync::Notify::new(),
                next_id: AtomicU64::new(1),
                log_redis: AtomicBool::new(true),
                down: Mutex::new(Default::default()),
                call_hook: Mutex::new(None),
                call_faults: Mutex::new(HashMap::new()),
                call_counter: AtomicU64::new(0),
                delayed: Mutex::new(vec![]),
            }),
        }
    }

    pub fn event(&self, mut v: Value) {
        let mut log = self.inner.log.lock();
        v["seq"] = json!(log.len() + 1);
        log.push(v);
    }

    pub fn take_log(&self) -> Vec<Value> {
        std::mem::take(&mut *self.inner.log.lock())
    }

    pub fn now(&self) -> u64 {
        self.inner.clock_ms.load(Ordering::SeqCst)
    }
    pub fn advance_clock(&self, ms: u64) {
        self.inner.clock_ms.fetch_add(ms, Ordering::SeqCst);
    }

    pub fn add_redis(&self, addr: &str) {
        self.inner.redis.lock().entry(addr.to_string()).or_default();
    }

    pub fn is_redis(&self, addr: &str) -> bool {
        self.inner.redis.lock().contains_key(addr)
    }

    /// Execute one command on a stand-in (after passing the gate when gating is on).
    pub async fn redis_exec(&self, node: &str, cmd: Vec<Vec<u8>>) -> RespVec {
        self.redis_exec_via(node, cmd, "").await
    }

    pub async fn redis_exec_via(&self, node: &str, cmd: Vec<Vec<u8>>, via: &str) -> RespVec {
        if self.inner.gated.load(Ordering::SeqCst) {
            let (tx, rx) = futures::channel::oneshot::channel();
            let id = self.inner.next_id.fetch_add(1, Ordering::SeqCst);
            self.inner.pending.lock().push(Pending { id, via: via.to_string(), node: node.to_string(), cmd: cmd.clone(), release: tx });
            self.inner.pending_notify.notify_one();
            let _ = rx.await;
        }
        let now = self.now();
        let reply = {
            let mut redis = self.inner.redis.lock();
            match redis.get_mut(node) {
                Some(r) => r.exec(&cmd, now),
                None => err("ERR no such node"),
            }
        };
        if self.inner.log_redis.load(Ordering::SeqCst) {
            self.event(json!({"kind": "redis", "node": node, "cmd": lossy(&cmd), "reply": resp_json(&reply)}));
        }
        reply
    }

    /// Run a command on an in-process proxy exactly as a client session would.
    pub async fn proxy_exec(&self, proxy: &str, cmd: Vec<Vec<u8>>) -> RespVec {
        let node = match self.inner.proxies.lock().get(proxy) {
            Some(p) => p.clone(),
            None => return err("ERR proxy unreachable"),
        };
        let resp = Resp::Arr(Array::Arr(cmd.into_iter().map(|s| Resp::Bulk(BulkStr::Str(s))).collect()));
        let command = Command::new(Box::new(RespPacket::Data(resp)));
        let (s, r) = new_command_pair(&command);
        let ctx = CmdCtx::new(command, s, 1, false);
        let authed = AtomicBool::new(true);
        let fut = node.handler.handle_cmd_ctx(ctx, r, &authed);
        // a panic in the handler kills the session task of a real server (the client sees its connection closed) and nothing
        // else: here it becomes an error reply and an event, not the death of the rig (a tool error would hide the verdict)
        match futures::FutureExt::catch_unwind(std::panic::AssertUnwindSafe(fut)).await {
            Ok(Ok(reply)) => {
                let (_req, pkt, _slow) = reply.into_inner();
                pkt.to_resp_vec()
            }
            Ok(Err(e)) => Resp::Error(format!("COMMAND_ERROR {:?}", e).into_bytes()),
            Err(_) => {
                self.event(json!({"kind": "proxy_panic", "proxy": proxy}));
                Resp::Error(b"PROXY_PANIC connection closed".to_vec())
            }
        }
    }

    /// a raw RESP packet (possibly not an array of bulks) on a proxy
    pub async fn proxy_exec_resp(&self, proxy: &str, resp: RespVec) -> RespVec {
        let node = match self.inner.proxies.lock().get(proxy) {
            Some(p) => p.clone(),
            None => return err("ERR proxy unreachable"),
        };
        let command = Command::new(Box::new(RespPacket::Data(resp)));
        let (s, r) = new_command_pair(&command);
        let ctx = CmdCtx::new(command, s, 1, false);
        let authed = AtomicBool::new(true);
        match futures::FutureExt::catch_unwind(std::panic::AssertUnwindSafe(node.handler.handle_cmd_ctx(ctx, r, &authed))).await {
            Ok(Ok(reply)) => reply.into_inner().1.to_resp_vec(),
            Ok(Err(e)) => Resp::Error(format!("COMMAND_ERROR {:?}", e).into_bytes()),
            Err(_) => {
                self.event(json!({"kind": "proxy_panic", "proxy": proxy}));
                Resp::Error(b"PROXY_PANIC connection closed".to_vec())
            }
        }
    }

    /// route a command by address: stand-in or proxy
    pub async fn exec_at(&self, addr: &str, cmd: Vec<Vec<u8>>) -> Result<RespVec, ()> {
        self.exec_at_via(addr, cmd, "").await
    }

    pub async fn exec_at_via(&self, addr: &str, cmd: Vec<Vec<u8>>, via: &str) -> Result<RespVec, ()> {
        if self.is_redis(addr) {
            Ok(self.redis_exec_via(addr, cmd, via).await)
        } else if self.inner.proxies.lock().contains_key(addr) {
            if self.inner.down.lock().contains(addr) {
                return Err(());
            }
            Ok(self.proxy_exec(addr, cmd).await)
        } else {
            Err(())
        }
    }

    pub fn proxy_config(addr: &str, active_redirection: bool, backend_conn_num: usize, nodes_version: ClusterNodesVersion) -> ServerProxyConfig {
        let host = addr.split(':').next().unwrap_or("127.0.0.1").to_string();
        ServerProxyConfig {
            address: addr.to_string(),
            announce_address: addr.to_string(),
            announce_host: host,
            slowlog_len: NonZeroUsize::new(16).expect("nz"),
            slowlog_log_slower_than: AtomicI64::new(-1),
            slowlog_sample_rate: AtomicU64::new(1),
            thread_number: NonZeroUsize::new(1).expect("nz"),
            backend_conn_num: NonZeroUsize::new(backend_conn_num.max(1)).expect("nz"),
            active_redirection,
            // active redirection as shipped (conf/server-proxy.toml): at most 4 hops, forwarded commands wrapped in UMFORWARD
            max_redirections: if active_redirection { NonZeroUsize::new(4) } else { None },
            default_redirection_address: None,
            backend_batch_strategy: BatchStrategy::Disabled,
            backend_flush_size: NonZeroUsize::new(1024).expect("nz"),
            backend_low_flush_interval: Duration::from_nanos(200_000),
            backend_high_flush_interval: Duration::from_nanos(800_000),
            session_timeout: None,
            backend_timeout: Duration::from_secs(3),
            password: None,
            command_cluster_nodes_version: nodes_version,
        }
    }

    /// start (or restart with empty state) an in-process proxy
    pub fn start_proxy(&self, addr: &str, config: ServerProxyConfig) -> Arc<ProxyNode> {
        let config = Arc::new(config);
        let client_factory = Arc::new(NetClientFactory { net: self.clone(), from: addr.to_string() });
        let conn_factory = Arc::new(NetConnFactory { net: self.clone(), from: addr.to_string() });
        let meta_map = Arc::new(ArcSwap::new(Arc::new(MetaMap::empty())));
        let registry = Arc::new(TrackedFutureRegistry::default());
        let slow = Arc::new(SlowRequestLogger::new(config.clone()));
        let (stopped_tx, _stopped_rx) = mpsc::unbounded();
        let handler = SharedForwardHandler::new(config.clone(), client_factory, slow, meta_map, conn_factory, registry, stopped_tx);
        let node = Arc::new(ProxyNode { addr: addr.to_string(), handler, config });
        self.inner.proxies.lock().insert(addr.to_string(), node.clone());
        node
    }

    pub fn stop_proxy(&self, addr: &str) {
        self.inner.proxies.lock().remove(addr);
    }

    pub fn redis_snapshot(&self, node: &str) -> Value {
        let now = self.now();
        let mut redis = self.inner.redis.lock();
        let mut out = vec![];
        if let Some(r) = redis.get_mut(node) {
            let keys: Vec<Vec<u8>> = r.data.keys().cloned().collect();
            for k in keys {
                if !r.live(&k, now) {
                    continue;
                }
                let e = &r.data[&k];
                let v = match &e.val {
                    RVal::Str(s) => json!({"k": String::from_utf8_lossy(&k), "t": "str", "v": String::from_utf8_lossy(s),
                                           "ttl": e.expire_at.map(|t| (t - now) as i64).unwrap_or(-1)}),
                    RVal::List(l) => json!({"k": String::from_utf8_lossy(&k), "t": "list",
                                            "v": l.iter().map(|x| String::from_utf8_lossy(x).to_string()).collect::<Vec<_>>().join(","),
                                            "ttl": e.expire_at.map(|t| (t - now) as i64).unwrap_or(-1)}),
                };
                out.push(v);
            }
        }
        Value::Array(out)
    }
}

// ---------------------------------------------------------------------------------------------
// fake factories
// ---------------------------------------------------------------------------------------------

pub struct NetConnFactory {
    pub net: Net,
    pub from: String,
}

fn packet_to_cmd(p: &RespPacket) -> Option<Vec<Vec<u8>>> {
    match p.to_resp_vec() {
        Resp::Arr(Array::Arr(items)) => {
            let mut out = vec![];
            for it in items {
                match it {
                    Resp::Bulk(BulkStr::Str(s)) => out.push(s),
                    _ => return None,
                }
            }
            Some(out)
        }
        _ => None,
    }
}

impl ConnFactory for NetConnFactory {
    type Pkt = RespPacket;

    fn create_conn(&self, addr: SocketAddr) -> Pin<Box<dyn Future<Output = CreateConnResult<Self::Pkt>> + Send>> {
        let net = self.net.clone();
        let target = addr.to_string();
        let self_from = self.from.clone();
        Box::pin(async move {
            let known = net.is_redis(&target) || net.inner.proxies.lock().contains_key(&target);
            if !known || net.inner.down.lock().contains(&target) {
                return Err(BackendError::Io(std::io::Error::new(std::io::ErrorKind::ConnectionRefused, "refused")));
            }
            let (req_tx, mut req_rx) = mpsc::unbounded::<RespPacket>();
            let (rep_tx, rep_rx) = mpsc::unbounded::<Result<RespPacket, BackendError>>();
            let net2 = net.clone();
            let via = format!("conn:{}", self_from);
            tokio::spawn(async move {
                // one connection = strictly sequential request/reply processing
                while let Some(pkt) = req_rx.next().await {
                    let reply = match packet_to_cmd(&pkt) {
                        Some(cmd) => match net2.exec_at_via(&target, cmd, &via).await {
                            Ok(r) => r,
                            Err(()) => {
                                let _ = rep_tx.unbounded_send(Err(BackendError::Canceled));
                                break;
                            }
                        },
                        None => err("ERR Protocol error"),
                    };
                    if rep_tx.unbounded_send(Ok(RespPacket::Data(reply))).is_err() {
                        break;
                    }
                }
            });
            let sink: ConnSink<RespPacket> = Box::pin(req_tx.sink_map_err(|_| BackendError::Canceled));
            let stream: ConnStream<RespPacket> = Box::pin(rep_rx);
            Ok((sink, stream))
        })
    }
}

pub struct NetClientFactory {
    pub net: Net,
    pub from: String,
}

pub struct NetClient {
    net: Net,
    from: String,
    target: String,
}

impl RedisClient for NetClient {
    fn execute<'s>(
        &'s mut self,
        command: OptionalMulti<Vec<BinSafeStr>>,
    ) -> Pin<Box<dyn Future<Output = Result<OptionalMulti<RespVec>, RedisClientError>> + Send + 's>> {
        Box::pin(async move {
            let one = |cmd: Vec<BinSafeStr>| {
                let net = self.net.clone();
                let target = self.target.clone();
                let from = self.from.clone();
                async move {
                    let hook = net.inner.call_hook.lock().clone();
                    if let Some(h) = hook {
                        if let Some(r) = h(&target, &cmd) {
                            net.event(json!({"kind": "call", "from": from, "to": target, "cmd": lossy(&cmd), "reply": resp_json(&r), "hooked": true}));
                            return Ok(r);
                        }
                    }
                    let is_ctl = cmd.first().map(|c| c.eq_ignore_ascii_case(b"UMCTL")).unwrap_or(false);
                    let io_err = || RedisClientError::Io(std::io::Error::new(std::io::ErrorKind::ConnectionRefused, "refused"));
                    let mut fault = String::new();
                    let mut idx = 0;
                    if is_ctl && net.inner.proxies.lock().contains_key(&target) {
                        idx = net.inner.call_counter.fetch_add(1, Ordering::SeqCst) + 1;
                        fault = net.inner.call_faults.lock().get(&idx).cloned().unwrap_or_default();
                        // deliver delayed (stale) messages that are due
                        let due: Vec<(u64, String, Vec<Vec<u8>>)> = {
                            let mut d = net.inner.delayed.lock();
                            let (now, later): (Vec<_>, Vec<_>) = d.drain(..).partition(|x| x.0 <= idx);
                            *d = later;
                            now
                        };
                        for (_, t, c) in due {
                            let r = net.exec_at(&t, c.clone()).await;
                            net.event(json!({"kind": "call", "idx": idx, "from": "delayed", "to": t, "cmd": lossy(&c), "fault": "late",
                                             "reply": r.as_ref().map(resp_json).unwrap_or(json!({"t": "lost"}))}));
                        }
                        if fault == "drop" {
                            net.event(json!({"kind": "call", "idx": idx, "from": from, "to": target, "cmd": lossy(&cmd), "fault": "drop", "reply": {"t": "lost"}}));
                            return Err(io_err());
                        }
                        if let Some(k) = fault.strip_prefix("delay:") {
                            let k: u64 = k.parse().unwrap_or(3);
                            net.inner.delayed.lock().push((idx + k, target.clone(), cmd.clone()));
                            net.event(json!({"kind": "call", "idx": idx, "from": from, "to": target, "cmd": lossy(&cmd), "fault": fault, "reply": {"t": "lost"}}));
                            return Err(io_err());
                        }
                    }
                    match net.exec_at_via(&target, cmd.clone(), &format!("client:{}", from)).await {
                        Ok(r) => {
                            let mut r = r;
                            if fault == "dup" {
                                if let Ok(r2) = net.exec_at(&target, cmd.clone()).await {
                                    net.event(json!({"kind": "call", "idx": idx, "from": from, "to": target, "cmd": lossy(&cmd), "fault": "dup-first", "reply": resp_json(&r)}));
                                    r = r2;
                                }
                            }
                            if is_ctl {
                                net.event(json!({"kind": "call", "idx": idx, "from": from, "to": target, "cmd": lossy(&cmd), "fault": fault, "reply": resp_json(&r)}));
                            }
                            if fault == "dropreply" {
                                return Err(io_err());
                            }
                            Ok(r)
                        }
                        Err(()) => {
                            if is_ctl {
                                net.event(json!({"kind": "call", "idx": idx, "from": from, "to": target, "cmd": lossy(&cmd), "fault": "down", "reply": {"t": "lost"}}));
                            }
                            Err(io_err())
                        }
                    }
                }
            };
            match command {
                OptionalMulti::Single(cmd) => Ok(OptionalMulti::Single(one(cmd).await?)),
                OptionalMulti::Multi(cmds) => {
                    let mut out = vec![];
                    for c in cmds {
                        out.push(one(c).await?);
                    }
                    Ok(OptionalMulti::Multi(out))
                }
            }
        })
    }
}

impl RedisClientFactory for NetClientFactory {
    type Client = NetClient;

    fn create_client<'s>(
        &'s self,
        address: String,
    ) -> Pin<Box<dyn Future<Output = Result<Self::Client, RedisClientError>> + Send + 's>> {
        let net = self.net.clone();
        let from = self.from.clone();
        Box::pin(async move {
            let known = net.is_redis(&address) || net.inner.proxies.lock().contains_key(&address);
            if !known || net.inner.down.lock().contains(&address) {
                if from.starts_with("coord") {
                    // a coordinator could not connect: whatever call its chain was about to make is lost
                    net.event(json!({"kind": "connect_failed", "from": from, "to": address}));
                }
                return Err(RedisClientError::Io(std::io::Error::new(std::io::ErrorKind::ConnectionRefused, "refused")));
            }
            Ok(NetClient { net, from, target: address })
        })
    }
}
