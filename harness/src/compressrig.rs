//! C20 rig: value compression through a real proxy and a storing stand-in.
use crate::simnet::{resp_json, Net, RVal};
use rand::rngs::StdRng;
use rand::{Rng, SeedableRng};
use serde_json::{json, Value};
use std::io::Write;
use undermoon::protocol::{Array, BulkStr, Resp, RespVec};
use undermoon::proxy::service::ClusterNodesVersion;

const PROXY: &str = "127.0.0.1:7000";
const NODE: &str = "127.0.0.1:6000";

fn fp(v: &[u8]) -> Value {
    let mut h: u64 = 0xcbf29ce484222325;
    for b in v {
        h ^= *b as u64;
        h = h.wrapping_mul(0x100000001b3);
    }
    json!({"len": v.len(), "h": (h % 2_000_000_011) as u64, "head": v.iter().take(6).cloned().collect::<Vec<u8>>()})
}

fn reply_fp(r: &RespVec) -> Value {
    match r {
        Resp::Bulk(BulkStr::Str(s)) => json!({"t": "bulk", "v": fp(s)}),
        Resp::Bulk(BulkStr::Nil) => json!({"t": "nil", "v": fp(b"")}),
        Resp::Simple(s) => json!({"t": "simple", "v": fp(s)}),
        Resp::Integer(s) => json!({"t": "int", "v": fp(s)}),
        Resp::Error(s) => json!({"t": "error", "v": fp(s)}),
        Resp::Arr(Array::Arr(a)) => json!({"t": "arr", "v": fp(b""), "a": a.iter().map(reply_fp).collect::<Vec<_>>()}),
        Resp::Arr(Array::Nil) => json!({"t": "nilarr", "v": fp(b"")}),
    }
}

fn gen_value(rng: &mut StdRng, big: bool) -> Vec<u8> {
    match rng.gen_range(0..12) {
        // values that look like what the compressor itself produces: the write and read paths must still be inverses
        8 => {
            let payload: Vec<u8> = (0..rng.gen_range(1..400)).map(|i| b'a' + (i % 7) as u8).collect();
            zstd::encode_all(&payload[..], 3).unwrap_or_else(|_| vec![0x28, 0xb5, 0x2f, 0xfd])
        }
        9 => {
            let mut v = vec![0x28u8, 0xb5, 0x2f, 0xfd];
            v.extend((0..rng.gen_range(0..40)).map(|_| rng.gen::<u8>()));
            v
        }
        10 => {
            let mut v = vec![0x1fu8, 0x8b, 0x08, 0x00];
            v.extend((0..rng.gen_range(0..40)).map(|_| rng.gen::<u8>()));
            v
        }
        11 => {
            // a frame inside a frame
            let inner = zstd::encode_all(&b"nested nested nested nested"[..], 1).unwrap_or_default();
            zstd::encode_all(&inner[..], 1).unwrap_or_default()
        }
        0 => vec![],
        1 => vec![rng.gen()],
        2 => b"\r\n".to_vec(),
        3 => b"hello\r\nworld\n\r".to_vec(),
        4 => (0..rng.gen_range(2..64)).map(|_| rng.gen::<u8>()).collect(),
        5 => {
            // very compressible, from tiny to far beyond any fixed buffer: sizes around the powers of two that matter
            let n = match rng.gen_range(0..8) {
                0 => rng.gen_range(100..5000),
                1 => 16384,
                2 => 16385,
                3 => rng.gen_range(16386..70000),
                4 => 131072 + rng.gen_range(0..3),
                5 => rng.gen_range(200_000..400_000),
                _ => rng.gen_range(5000..16384),
            };
            match rng.gen_range(0..3) {
                0 => vec![b'a'; n],
                1 => vec![0u8; n],
                _ => b"the same line again and again\n".iter().cycle().take(n).cloned().collect(),
            }
        }
        6 => (0..rng.gen_range(500..3000)).map(|_| rng.gen::<u8>()).collect(), // incompressible
        _ => {
            if big {
                (0..(1 << 20)).map(|i| (i % 251) as u8).collect()
            } else {
                b"12345".to_vec()
            }
        }
    }
}

async fn set_strategy(net: &Net, epoch: u64, strategy: &str) {
    let cmd: Vec<Vec<u8>> = ["UMCTL", "SETCLUSTER", "v2", &epoch.to_string(), "NOFLAG", "cz", NODE, "1", "0-16383", "CONFIG", "compression_strategy", strategy]
        .iter()
        .map(|s| s.as_bytes().to_vec())
        .collect();
    let _ = net.proxy_exec(PROXY, cmd).await;
}

fn stored(net: &Net, key: &[u8]) -> Value {
    let now = net.now();
    let redis = net.inner.redis.lock();
    match redis.get(NODE).and_then(|r| r.data.get(key)) {
        None => json!({"present": false, "raw": fp(b""), "ttl": -2}),
        Some(e) => {
            let raw = match &e.val {
                RVal::Str(s) => s.clone(),
                _ => vec![],
            };
            json!({"present": true, "raw": fp(&raw), "ttl": e.expire_at.map(|t| if t > now { 1 } else { 0 }).unwrap_or(-1)})
        }
    }
}

pub async fn run(out: &mut dyn Write, seed: u64, count: usize, big: bool) {
    let mut rng = StdRng::seed_from_u64(seed);
    let net = Net::new();
    net.add_redis(NODE);
    net.start_proxy(PROXY, Net::proxy_config(PROXY, false, 1, ClusterNodesVersion::V2));
    net.inner.log_redis.store(true, std::sync::atomic::Ordering::SeqCst);
    let mut epoch = 1;
    let b = |s: &str| s.as_bytes().to_vec();
    for strategy in ["disabled", "set_get_only", "allow_all"] {
        epoch += 1;
        set_strategy(&net, epoch, strategy).await;
        for i in 0..count {
            let v = gen_value(&mut rng, big && i % 40 == 7);
            let v2 = gen_value(&mut rng, false);
            let k1 = format!("{{t{}}}a", i).into_bytes();
            let k2 = format!("{{t{}}}b", i).into_bytes();
            let shape = rng.gen_range(0..12);
            // optional pre-existing key for XX / KEEPTTL / GETSET
            if matches!(shape, 4 | 5 | 9) {
                let _ = net.proxy_exec(PROXY, vec![b("SET"), k1.clone(), b("old"), b("EX"), b("1000")]).await;
            }
            let (name, cmd, expect_ttl): (&str, Vec<Vec<u8>>, i64) = match shape {
                0 => ("SET", vec![b("SET"), k1.clone(), v.clone()], -1),
                1 => ("SET_EX", vec![b("SET"), k1.clone(), v.clone(), b("EX"), b("100")], 1),
                2 => ("SET_PX", vec![b("SET"), k1.clone(), v.clone(), b("PX"), b("100000")], 1),
                3 => ("SET_NX", vec![b("SET"), k1.clone(), v.clone(), b("NX")], -1),
                4 => ("SET_XX", vec![b("SET"), k1.clone(), v.clone(), b("XX")], -1),
                5 => ("SET_KEEPTTL", vec![b("SET"), k1.clone(), v.clone(), b("KEEPTTL")], 1),
                6 => ("SETEX", vec![b("SETEX"), k1.clone(), b("100"), v.clone()], 1),
                7 => ("PSETEX", vec![b("PSETEX"), k1.clone(), b("100000"), v.clone()], 1),
                8 => ("SETNX", vec![b("SETNX"), k1.clone(), v.clone()], -1),
                9 => ("GETSET", vec![b("GETSET"), k1.clone(), v.clone()], -1),
                10 => ("MSET", vec![b("MSET"), k1.clone(), v.clone(), k2.clone(), v2.clone()], -1),
                _ => ("MSETNX", vec![b("MSETNX"), k1.clone(), v.clone(), k2.clone(), v2.clone()], -1),
            };
            net.take_log();
            let wreply = net.proxy_exec(PROXY, cmd).await;
            let st1 = stored(&net, &k1);
            // reads
            let g = net.proxy_exec(PROXY, vec![b("GET"), k1.clone()]).await;
            let mg = net.proxy_exec(PROXY, vec![b("MGET"), k1.clone(), k2.clone()]).await;
            let gs = net.proxy_exec(PROXY, vec![b("GETSET"), k1.clone(), v2.clone()]).await;
            let g2 = net.proxy_exec(PROXY, vec![b("GET"), k1.clone()]).await;
            // non-string replies and untouched arguments
            let ex = net.proxy_exec(PROXY, vec![b("EXISTS"), k1.clone()]).await;
            let ttl_reply = net.proxy_exec(PROXY, vec![b("TTL"), k2.clone()]).await;
            let del = net.proxy_exec(PROXY, vec![b("DEL"), k1.clone()]).await;
            let multi = matches!(shape, 10 | 11);
            writeln!(out, "{}", json!({
                "kind": "wr", "strategy": strategy, "shape": name, "multi": multi, "pre": matches!(shape, 4 | 5 | 9),
                "v": fp(&v), "v2": fp(&v2), "old": fp(b"old"), "wreply": reply_fp(&wreply), "stored": st1, "expect_ttl": expect_ttl,
                "get": reply_fp(&g), "mget": reply_fp(&mg), "getset": reply_fp(&gs), "get2": reply_fp(&g2),
                "exists": resp_json(&ex), "ttl_k2": resp_json(&ttl_reply), "del": resp_json(&del),
            })).ok();
            let _ = net.proxy_exec(PROXY, vec![b("DEL"), k2.clone()]).await;
            // commands that would observe stored bytes
            if i % 4 == 0 {
                let _ = net.proxy_exec(PROXY, vec![b("SET"), k1.clone(), b("abcdef")]).await;
                for (nm, c) in [
                    ("APPEND", vec![b("APPEND"), k1.clone(), b("x")]),
                    ("STRLEN", vec![b("STRLEN"), k1.clone()]),
                    ("GETRANGE", vec![b("GETRANGE"), k1.clone(), b("0"), b("1")]),
                    ("SETRANGE", vec![b("SETRANGE"), k1.clone(), b("0"), b("z")]),
                    ("INCR", vec![b("INCR"), k2.clone()]),
                    ("BITCOUNT", vec![b("BITCOUNT"), k1.clone()]),
                    ("SUBSTR", vec![b("SUBSTR"), k1.clone(), b("0"), b("1")]),
                    ("GETDEL", vec![b("GETDEL"), k1.clone()]),
                    ("GETEX", vec![b("GETEX"), k1.clone()]),
                    ("DECRBY", vec![b("DECRBY"), k2.clone(), b("2")]),
                    ("BITPOS", vec![b("BITPOS"), k1.clone(), b("1")]),
                ] {
                    net.take_log();
                    let r = net.proxy_exec(PROXY, c).await;
                    let reached = net.take_log().iter().any(|e| e["kind"] == "redis" && e["cmd"][0].as_str().map(|x| x.eq_ignore_ascii_case(nm)).unwrap_or(false));
                    writeln!(out, "{}", json!({"kind": "observer", "strategy": strategy, "cmd": nm, "reply": reply_fp(&r), "reached_backend": reached})).ok();
                }
                let _ = net.proxy_exec(PROXY, vec![b("DEL"), k1.clone(), k2.clone()]).await;
            }
        }
    }
    // "through any proxy of the cluster": two proxies, each owning half of the slots, with and without active redirection;
    // a value written through one proxy is read through the other (following MOVED like a cluster client)
    for (active, redirect, limit) in [("off", false, 0usize), ("limit4", true, 4), ("unlimited", true, 0)] {
        let net = Net::new();
        const P1: &str = "127.0.0.1:7000";
        const P2: &str = "127.0.0.2:7000";
        const N1: &str = "127.0.0.1:6000";
        const N2: &str = "127.0.0.2:6000";
        net.add_redis(N1);
        net.add_redis(N2);
        for p in [P1, P2] {
            let mut cfg = Net::proxy_config(p, redirect, 1, ClusterNodesVersion::V2);
            // max_redirections > 0: forwarded commands travel wrapped in UMFORWARD; 0 (no limit): they travel as they are
            cfg.max_redirections = std::num::NonZeroUsize::new(limit);
            net.start_proxy(p, cfg);
        }
        let mut ep = 1u64;
        for strategy in ["set_get_only", "allow_all"] {
            ep += 1;
            for (me, node, lo, other_p, other_n, olo) in [(P1, N1, "0-8191", P2, N2, "8192-16383"), (P2, N2, "8192-16383", P1, N1, "0-8191")] {
                let cmd: Vec<Vec<u8>> = ["UMCTL", "SETCLUSTER", "v2", &ep.to_string(), "NOFLAG", "cz", node, "1", lo, "PEER", other_p, "1", olo,
                                         "CONFIG", "compression_strategy", strategy].iter().map(|s| s.as_bytes().to_vec()).collect();
                let _ = net.proxy_exec(me, cmd).await;
                let _ = other_n;
            }
            for i in 0..(count / 4).max(6) {
                let v = gen_value(&mut rng, false);
                let key = format!("x{}", i).into_bytes();
                let (wp, rp) = if i % 2 == 0 { (P1, P2) } else { (P2, P1) };
                let wr = exec_following_moved(&net, wp, vec![b("SET"), key.clone(), v.clone()]).await;
                let rd_other = exec_following_moved(&net, rp, vec![b("GET"), key.clone()]).await;
                let rd_same = exec_following_moved(&net, wp, vec![b("GET"), key.clone()]).await;
                let mg = exec_following_moved(&net, rp, vec![b("MGET"), key.clone()]).await;
                writeln!(out, "{}", json!({
                    "kind": "cross", "strategy": strategy, "active": active, "v": fp(&v), "wreply": reply_fp(&wr),
                    "get_other": reply_fp(&rd_other), "get_same": reply_fp(&rd_same), "mget_other": reply_fp(&mg),
                })).ok();
            }
        }
    }
}

/// send a command to `start`; on MOVED re-send it to the named proxy (at most 3 times)
async fn exec_following_moved(net: &Net, start: &str, cmd: Vec<Vec<u8>>) -> RespVec {
    let mut at = start.to_string();
    for _ in 0..4 {
        let r = net.proxy_exec(&at, cmd.clone()).await;
        if let Resp::Error(e) = &r {
            let s = String::from_utf8_lossy(e).to_string();
            if let Some(rest) = s.strip_prefix("MOVED ") {
                if let Some(addr) = rest.split(' ').nth(1) {
                    at = addr.trim().to_string();
                    continue;
                }
            }
        }
        return r;
    }
    Resp::Error(b"too many redirections".to_vec())
}
