//! C02 / C14 (and the proxy half of C09): broker -> coordinator encoder -> real proxies -> stand-ins.
//! Routing and advertising are probed at quiescent points and at held migration phases.
use crate::brokerdrv::{self, Op};
use crate::cluster::{keys_for_all_slots, slot_of, ClusterWorld};
use crate::simnet::resp_json;
use rand::rngs::StdRng;
use rand::seq::SliceRandom;
use rand::{Rng, SeedableRng};
use serde_json::{json, Value};
use std::collections::BTreeSet;
use std::io::Write;
use std::time::Duration;
use undermoon::protocol::{Array, BulkStr, Resp, RespVec};

pub struct RouteCfg {
    pub seed: u64,
    pub all_slots: bool,
    pub compress: bool,
    pub limit: u64,
    pub v1: bool,
    pub conn_num: usize,
    /// proxies forward commands for foreign slots themselves (active redirection, at most 4 hops) instead of answering MOVED
    pub active: bool,
}

fn parse_moved(r: &RespVec) -> Option<(usize, String)> {
    if let Resp::Error(b) = r {
        let s = String::from_utf8_lossy(b);
        let mut it = s.split(' ');
        if it.next()? == "MOVED" {
            let slot = it.next()?.parse().ok()?;
            let addr = it.next()?.to_string();
            return Some((slot, addr));
        }
    }
    None
}

struct ProbeOut {
    exec: String,
    redirects: usize,
    err: String,
    path: Vec<String>,
}

pub async fn probe(w: &ClusterWorld, start: &str, key: &str, uniq: u64) -> ProbeOut {
    let val = format!("v{}", uniq);
    let mut cur = start.to_string();
    let mut path = vec![cur.clone()];
    let mut redirects = 0;
    let mut err = String::new();
    w.net.take_log();
    loop {
        let fut = w.net.proxy_exec(&cur, vec![b"SET".to_vec(), key.as_bytes().to_vec(), val.as_bytes().to_vec()]);
        let r = match tokio::time::timeout(Duration::from_secs(3600), fut).await {
            Ok(r) => r,
            Err(_) => {
                err = "TIMEOUT".to_string();
                break;
            }
        };
        if let Some((_slot, addr)) = parse_moved(&r) {
            redirects += 1;
            if redirects > 5 {
                err = "TOO_MANY_MOVED".to_string();
                break;
            }
            cur = addr;
            path.push(cur.clone());
            continue;
        }
        match r {
            Resp::Simple(_) => {}
            Resp::Error(b) => err = String::from_utf8_lossy(&b).to_string(),
            other => err = format!("unexpected reply {}", resp_json(&other)),
        }
        break;
    }
    // which stand-in executed it (the value may have been compressed by the proxy: match by key)
    let mut exec = String::new();
    let mut others = vec![];
    for e in w.net.take_log() {
        if e["kind"] == "redis" && e["cmd"][1] == key && e["cmd"][0].as_str().map(|c| c.eq_ignore_ascii_case("SET")).unwrap_or(false) {
            if exec.is_empty() {
                exec = e["node"].as_str().unwrap_or("").to_string();
            } else {
                others.push(e["node"].as_str().unwrap_or("").to_string());
            }
        }
    }
    if !others.is_empty() && err.is_empty() {
        err = format!("EXECUTED_TWICE {:?}", others);
    }
    ProbeOut { exec, redirects, err, path }
}

fn parse_cluster_nodes(text: &str) -> Value {
    // <id> <addr[@cport]> <flags> - 0 0 <epoch> connected [slots...]
    let mut out = vec![];
    for line in text.lines() {
        let toks: Vec<&str> = line.split(' ').collect();
        if toks.len() < 8 {
            continue;
        }
        let addr = toks[1].split('@').next().unwrap_or("").to_string();
        let mut ranges = vec![];
        for t in &toks[8..] {
            if t.is_empty() {
                continue;
            }
            let mut it = t.split('-');
            let lo: i64 = it.next().and_then(|x| x.parse().ok()).unwrap_or(-1);
            let hi: i64 = it.next().and_then(|x| x.parse().ok()).unwrap_or(lo);
            ranges.push(json!([lo, hi]));
        }
        out.push(json!({"addr": addr, "myself": toks[2].contains("myself"), "ranges": ranges, "epoch": toks[6].parse::<i64>().unwrap_or(-1)}));
    }
    Value::Array(out)
}

fn parse_cluster_slots(r: &RespVec) -> Value {
    // [[lo, hi, [ip, port, id]], ...]
    let mut out = vec![];
    if let Resp::Arr(Array::Arr(items)) = r {
        for it in items {
            if let Resp::Arr(Array::Arr(f)) = it {
                let num = |x: &RespVec| -> i64 {
                    match x {
                        Resp::Integer(b) => String::from_utf8_lossy(b).parse().unwrap_or(-1),
                        _ => -1,
                    }
                };
                let lo = f.get(0).map(num).unwrap_or(-1);
                let hi = f.get(1).map(num).unwrap_or(-1);
                let mut addr = String::new();
                if let Some(Resp::Arr(Array::Arr(n))) = f.get(2) {
                    let ip = match n.get(0) {
                        Some(Resp::Bulk(BulkStr::Str(b))) => String::from_utf8_lossy(b).to_string(),
                        _ => String::new(),
                    };
                    let port = n.get(1).map(num).unwrap_or(-1);
                    addr = format!("{}:{}", ip, port);
                }
                out.push(json!({"lo": lo, "hi": hi, "addr": addr}));
            }
        }
    } else {
        return json!({"error": resp_json(r)});
    }
    Value::Array(out)
}

/// slots worth probing for a cluster view: every range boundary +-1 and a few interior points
fn interesting_slots(view: &Value, rng: &mut StdRng) -> Vec<usize> {
    let mut s: BTreeSet<usize> = BTreeSet::new();
    s.insert(0);
    s.insert(16383);
    if let Some(nodes) = view["nodes"].as_array() {
        for n in nodes {
            for sr in n["slots"].as_array().cloned().unwrap_or_default() {
                for r in sr["rl"].as_array().cloned().unwrap_or_default() {
                    let lo = r[0].as_u64().unwrap_or(0) as usize;
                    let hi = r[1].as_u64().unwrap_or(0) as usize;
                    for x in [lo.saturating_sub(1), lo, lo + 1, hi.saturating_sub(1), hi, hi + 1, (lo + hi) / 2] {
                        if x < 16384 {
                            s.insert(x);
                        }
                    }
                }
            }
        }
    }
    for _ in 0..8 {
        s.insert(rng.gen_range(0..16384));
    }
    s.into_iter().collect()
}

pub struct Rig {
    pub w: ClusterWorld,
    pub keys: Vec<String>,
    pub out: Vec<Value>,
    pub uniq: u64,
    pub rng: StdRng,
    pub all_slots: bool,
    /// also record the installed epochs of reachable FREE proxies (control-plane runs: they are synced too)
    pub check_free: bool,
}

impl Rig {
    pub fn emit(&mut self, v: Value) {
        self.out.push(v);
    }

    pub async fn op(&mut self, op: Op) -> String {
        let (res, args, _out) = self.w.broker.apply(&op).await;
        let snap = self.w.broker.raw_store().await;
        self.w.broker.snapshots.push(snap);
        self.w.refresh_broker_handle();
        self.w.ensure_proxies().await;
        let name = serde_json::to_value(&op).ok().and_then(|v| v["op"].as_str().map(String::from)).unwrap_or_default();
        self.emit(json!({"kind": "op", "op": name, "args": args, "res": res}));
        res
    }

    /// the broker was changed by somebody else than `op` (a coordinator's failure handler): same bookkeeping
    pub async fn after_external_change(&mut self, what: &str, args: Value) {
        let snap = self.w.broker.raw_store().await;
        self.w.broker.snapshots.push(snap);
        self.w.refresh_broker_handle();
        self.w.ensure_proxies().await;
        self.emit(json!({"kind": "op", "op": what, "args": args, "res": "OK"}));
    }

    pub async fn settle(&self) {
        // let background tasks (migration handshakes with 10ms polls, scans) make progress
        for _ in 0..30 {
            tokio::time::sleep(Duration::from_millis(10)).await;
        }
    }

    /// record the broker's views (the ones the coordinator serves from), every proxy's epoch,
    /// routing probes and advertised topology
    pub async fn observe(&mut self, phase: &str, migrating_probe_at_src: bool) {
        let (s, obs) = self.w.broker.observe().await;
        let svc_clusters = obs["svc"]["clusters"].clone();
        let svc_proxies = obs["svc"]["proxies"].clone();
        let down: Vec<String> = self.w.net.inner.down.lock().iter().cloned().collect();
        self.emit(json!({"kind": "state", "phase": phase, "S": s, "clusters": svc_clusters, "proxies": svc_proxies, "down": down}));
        if self.check_free {
            let mut epochs = vec![];
            for pv in svc_proxies.as_array().cloned().unwrap_or_default() {
                let a = pv["addr"].as_str().unwrap_or("").to_string();
                if pv["cluster"].as_str().unwrap_or("").is_empty() && !down.contains(&a) && self.w.net.inner.proxies.lock().contains_key(&a) {
                    epochs.push(json!({"proxy": a, "epoch": self.w.proxy_epoch(&a).await}));
                }
            }
            self.emit(json!({"kind": "epochs", "phase": phase, "cluster": "", "epochs": epochs}));
        }
        let clusters = svc_clusters.as_array().cloned().unwrap_or_default();
        for cv in clusters {
            let cname = cv["name"].as_str().unwrap_or("").to_string();
            let mut members: Vec<String> = vec![];
            for n in cv["nodes"].as_array().cloned().unwrap_or_default() {
                let p = n["proxy"].as_str().unwrap_or("").to_string();
                if !members.contains(&p) && !down.contains(&p) {
                    members.push(p);
                }
            }
            // epochs
            let mut epochs = vec![];
            for p in members.iter() {
                epochs.push(json!({"proxy": p, "epoch": self.w.proxy_epoch(p).await}));
            }
            self.emit(json!({"kind": "epochs", "phase": phase, "cluster": cname, "epochs": epochs}));
            // advertised topology
            for p in members.iter() {
                let nodes = self.w.net.proxy_exec(p, vec![b"CLUSTER".to_vec(), b"NODES".to_vec()]).await;
                let slots = self.w.net.proxy_exec(p, vec![b"CLUSTER".to_vec(), b"SLOTS".to_vec()]).await;
                let (nodes_v, nodes_ok) = match &nodes {
                    Resp::Bulk(BulkStr::Str(b)) => (parse_cluster_nodes(&String::from_utf8_lossy(b)), true),
                    _ => (json!([]), false),
                };
                let slots_v = parse_cluster_slots(&slots);
                let slots_ok = slots_v.is_array();
                self.emit(json!({"kind": "adv", "phase": phase, "cluster": cname, "proxy": p, "nodes": nodes_v,
                                 "slots": if slots_ok { slots_v } else { json!([]) }, "ok": nodes_ok && slots_ok,
                                 "raw_err": if nodes_ok && slots_ok { json!("") } else { json!(format!("{} / {}", resp_json(&nodes), resp_json(&slots))) }}));
            }
            // routing probes
            let slots: Vec<usize> = if self.all_slots { (0..16384).collect() } else { interesting_slots(&cv, &mut self.rng) };
            // which slots are under migration (by the served view) and their source proxies
            let mut mig: Vec<(usize, usize, String)> = vec![];
            for n in cv["nodes"].as_array().cloned().unwrap_or_default() {
                for sr in n["slots"].as_array().cloned().unwrap_or_default() {
                    if sr["tag"] == "migrating" {
                        for r in sr["rl"].as_array().cloned().unwrap_or_default() {
                            mig.push((r[0].as_u64().unwrap_or(0) as usize, r[1].as_u64().unwrap_or(0) as usize, sr["meta"]["sp"].as_str().unwrap_or("").to_string()));
                        }
                    }
                }
            }
            for start in members.iter() {
                let mut run: Option<(usize, usize, Value)> = None;
                for s in slots.iter() {
                    let in_mig = mig.iter().any(|(lo, hi, _)| lo <= s && s <= hi);
                    if in_mig && !migrating_probe_at_src {
                        continue;
                    }
                    self.uniq += 1;
                    let key = self.keys[*s].clone();
                    let po = probe(&self.w, start, &key, self.uniq).await;
                    let outcome = json!({"exec": po.exec, "redirects": po.redirects, "err": po.err, "path": po.path});
                    match run.take() {
                        Some((lo, hi, o)) if o == outcome && hi + 1 == *s => run = Some((lo, *s, o)),
                        Some((lo, hi, o)) => {
                            self.out.push(json!({"kind": "probe", "phase": phase, "cluster": cname, "start": start, "lo": lo, "hi": hi, "outcome": o}));
                            run = Some((*s, *s, outcome));
                        }
                        None => run = Some((*s, *s, outcome)),
                    }
                }
                if let Some((lo, hi, o)) = run {
                    self.out.push(json!({"kind": "probe", "phase": phase, "cluster": cname, "start": start, "lo": lo, "hi": hi, "outcome": o}));
                }
            }
        }
    }

    pub async fn sync(&mut self) {
        let errs = self.w.sync_round("coord1").await;
        self.emit(json!({"kind": "sync", "errors": errs}));
    }

    pub async fn is_migrating(&self, name: &str) -> bool {
        let raw = self.w.broker.raw_store().await;
        raw["clusters"][name]["chunks"]
            .as_array()
            .map(|chs| chs.iter().any(|ch| ch["migrating_slots"].as_array().map(|a| a.iter().any(|h| h.as_array().map(|x| !x.is_empty()).unwrap_or(false))).unwrap_or(false)))
            .unwrap_or(false)
    }

    /// a scale episode driven through the real migration: probes at PreCheck, mid-way and after commit
    pub async fn scale_episode(&mut self, name: &str, out: bool) {
        self.w.hold(&["PRECHECK"]).await;
        let res = if out {
            let r = self.op(Op::AddNodes { name: name.to_string(), n: 4 }).await;
            if r != "OK" {
                self.w.hold(&[]).await;
                return;
            }
            self.sync().await;
            self.op(Op::MigrateSlots { name: name.to_string() }).await
        } else {
            self.op(Op::ScaleDown { name: name.to_string(), n: 4 }).await
        };
        if res != "OK" {
            self.w.hold(&[]).await;
            return;
        }
        self.sync().await;
        self.settle().await;
        self.observe("precheck", true).await;
        // let the handshake run, but hold the final switch: sources are past the barrier
        self.w.hold(&["FINALSWITCH"]).await;
        self.settle().await;
        self.settle().await;
        self.observe("running", true).await;
        self.w.hold(&[]).await;
        // finish: migration rounds commit finished tasks; limited migrations start one after another
        for _ in 0..40 {
            self.settle().await;
            let errs = self.w.migration_round("coord1").await;
            self.emit(json!({"kind": "mround", "errors": errs}));
            self.sync().await;
            if !self.is_migrating(name).await {
                break;
            }
        }
        self.sync().await;
        let still = self.is_migrating(name).await;
        self.emit(json!({"kind": "episode_end", "cluster": name, "still_migrating": still}));
        if !still {
            self.observe("stable", true).await;
        }
    }
}

pub async fn run_one(cfg: &RouteCfg) -> Vec<Value> {
    let w = match ClusterWorld::new(cfg.limit, false, cfg.compress, cfg.active, cfg.conn_num, cfg.v1) {
        Ok(w) => w,
        Err(e) => return vec![json!({"kind": "harness_error", "e": e})],
    };
    w.net.inner.log_redis.store(true, std::sync::atomic::Ordering::SeqCst);
    let mut rig = Rig { w, keys: keys_for_all_slots(), out: vec![], uniq: 0, rng: StdRng::seed_from_u64(cfg.seed), all_slots: cfg.all_slots, check_free: false };
    rig.emit(json!({"kind": "reset", "seed": cfg.seed, "compress": cfg.compress, "limit": cfg.limit, "v1": cfg.v1, "conn_num": cfg.conn_num, "all_slots": cfg.all_slots, "active_redirection": cfg.active}));
    // layout
    let nh = rig.rng.gen_range(3..=4);
    let per = rig.rng.gen_range(2..=3);
    let mut regs = vec![];
    for h in 1..=nh {
        for i in 0..per {
            regs.push((h as u32, i as u32));
        }
    }
    regs.shuffle(&mut rig.rng);
    for (h, i) in regs {
        let eh = rig.rng.gen_bool(0.5);
        rig.op(Op::AddProxy { host: h, idx: i, explicit_host: eh, index: None }).await;
    }
    let n0 = *[4usize, 8].choose(&mut rig.rng).unwrap_or(&4);
    if rig.op(Op::AddCluster { name: "c1".into(), n: n0 }).await != "OK" {
        return rig.out;
    }
    // keep phases holdable: no forced switch on timeouts
    rig.op(Op::ChangeConfig { name: "c1".into(), key: "migration_max_blocking_time".into(), value: "2000000000".into() }).await;
    rig.op(Op::ChangeConfig { name: "c1".into(), key: "migration_max_migration_time".into(), value: "2000000000".into() }).await;
    if rig.rng.gen_bool(0.5) {
        rig.op(Op::ChangeConfig { name: "c1".into(), key: "compression_strategy".into(), value: "allow_all".into() }).await;
    }
    rig.sync().await;
    rig.observe("stable", true).await;
    let steps = rig.rng.gen_range(3..=5);
    for _ in 0..steps {
        match rig.rng.gen_range(0..6) {
            0 | 1 => {
                // failover of a random in-cluster proxy: it becomes unreachable, the broker replaces it
                // only a reachable proxy whose chunk partner is reachable may fail, and at most two proxies are ever down: with
                // both proxies of a chunk gone (or a refused replacement followed by the partner's failure) the chunk's slots
                // have no owner and C02 does not apply (seen once as a false alarm: the outcome depends on HashMap order)
                let raw = rig.w.broker.raw_store().await;
                let down: Vec<String> = rig.w.net.inner.down.lock().iter().cloned().collect();
                let mut members: Vec<String> = vec![];
                for ch in raw["clusters"]["c1"]["chunks"].as_array().cloned().unwrap_or_default() {
                    let ps: Vec<String> = ch["proxy_addresses"].as_array().cloned().unwrap_or_default().iter().map(|p| p.as_str().unwrap_or("").to_string()).collect();
                    if ps.len() == 2 && !down.contains(&ps[0]) && !down.contains(&ps[1]) {
                        members.extend(ps);
                    }
                }
                members.sort();
                if down.len() >= 2 {
                    members.clear();
                }
                if let Some(a) = members.choose(&mut rig.rng).cloned() {
                    rig.w.net.inner.down.lock().insert(a.clone());
                    rig.op(Op::Failover { addr: a }).await;
                    rig.sync().await;
                    rig.observe("stable", true).await;
                }
            }
            2 => {
                rig.op(Op::Balance { name: "c1".into() }).await;
                rig.sync().await;
                rig.observe("stable", true).await;
            }
            3 | 4 => {
                let chunks = rig.w.broker.raw_store().await["clusters"]["c1"]["chunks"].as_array().map(|a| a.len()).unwrap_or(0);
                if chunks >= 2 && rig.rng.gen_bool(0.5) {
                    rig.scale_episode("c1", false).await;
                    rig.op(Op::DeleteFree { name: "c1".into() }).await;
                    rig.sync().await;
                } else {
                    rig.scale_episode("c1", true).await;
                }
            }
            _ => {
                // a failed proxy comes back (re-registration) and may be reused
                let raw = rig.w.broker.raw_store().await;
                let failed: Vec<String> = raw["failed_proxies"].as_array().map(|a| a.iter().filter_map(|x| x.as_str().map(String::from)).collect()).unwrap_or_default();
                if let Some(a) = failed.first().cloned() {
                    if let Some((h, i)) = brokerdrv::parse_addr(&a) {
                        rig.w.net.inner.down.lock().remove(&a);
                        rig.w.restart_proxy(&a);
                        rig.op(Op::AddProxy { host: h, idx: i, explicit_host: true, index: None }).await;
                        rig.sync().await;
                        rig.observe("stable", true).await;
                    }
                }
            }
        }
    }
    rig.out
}

pub fn run_many<W: Write>(out: &mut W, count: u64, seed: u64, all_slots: bool) {
    // a fresh runtime every few runs: the background tasks of finished runs (proxies, migrations, replicators) die with their
    // runtime; with one runtime for hundreds of runs a thorough part grew to several GB and the OOM killer took it
    let mk = || tokio::runtime::Builder::new_current_thread().enable_all().start_paused(true).build().expect("rt");
    let mut rt = mk();
    for i in 0..count {
        if i > 0 && i % 8 == 0 {
            rt = mk();
        }
        let s = seed.wrapping_mul(1_000_003).wrapping_add(i);
        let cfg = RouteCfg { seed: s, all_slots, compress: i % 2 == 1, limit: [1u64, 0, 2][(i % 3) as usize], v1: i % 4 == 3, conn_num: 1 + (i % 2) as usize, active: std::env::var("UVERIF_ACTIVE").is_ok() || i % 5 == 2 };
        let log = rt.block_on(run_one(&cfg));
        for e in log {
            writeln!(out, "{}", e).ok();
        }
    }
}

pub fn _slot(key: &[u8]) -> usize {
    slot_of(key)
}
