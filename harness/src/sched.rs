//! Thread-level deterministic scheduler (DESIGN §2.2 `sched`).
//! Real OS threads run the real code; every `verif_hooks::sched_point(label, val)` parks the
//! calling worker until the controller grants it one step. Exactly one worker runs at a time, so
//! the event log is a total order of the shared-memory accesses.
use parking_lot::{Condvar, Mutex};
use rand::rngs::StdRng;
use rand::{Rng, SeedableRng};
use serde_json::{json, Value};
use std::cell::RefCell;
use std::collections::{BTreeMap, BTreeSet};
use std::sync::Arc;
use std::time::Duration;

thread_local! {
    static CUR: RefCell<Option<(Arc<Inner>, String)>> = RefCell::new(None);
}

struct State {
    waiting: BTreeMap<String, (String, u64)>, // worker -> (label, val) parked at a hook
    live: BTreeSet<String>,                   // workers that exist and are not blocked/finished
    granted: Option<String>,
    log: Vec<Value>,
    free_run: bool, // watchdog tripped: stop scheduling, let everything run
    steps: usize,
    stopping: bool, // only idle daemon workers are left: they must exit
}

pub struct Inner {
    st: Mutex<State>,
    cv: Condvar,
}

#[derive(Clone)]
pub struct Sched {
    inner: Arc<Inner>,
    /// how long the controller waits for the running worker to park again
    pub stall_ms: u64,
}

/// install the global hook callbacks once per process
pub fn install_hooks() {
    undermoon::verif_hooks::install_sched(Arc::new(|label: &'static str, val: u64| {
        let cur = CUR.with(|c| c.borrow().clone());
        if let Some((inner, name)) = cur {
            inner.park(&name, label, val);
        }
    }));
    undermoon::verif_hooks::install_observer(Arc::new(|label: &'static str, val: u64| {
        let cur = CUR.with(|c| c.borrow().clone());
        if let Some((inner, name)) = cur {
            inner.st.lock().log.push(json!({"t": name, "obs": label, "val": val}));
        }
    }));
}

impl Inner {
    fn park(&self, name: &str, label: &str, val: u64) {
        let mut st = self.st.lock();
        if st.free_run {
            st.log.push(json!({"t": name, "label": label, "val": val, "free": true}));
            return;
        }
        st.waiting.insert(name.to_string(), (label.to_string(), val));
        self.cv.notify_all();
        loop {
            if st.free_run {
                break;
            }
            if st.granted.as_deref() == Some(name) {
                st.granted = None;
                break;
            }
            self.cv.wait(&mut st);
        }
        st.waiting.remove(name);
        st.log.push(json!({"t": name, "label": label, "val": val}));
    }
}

impl Sched {
    pub fn with_stall(ms: u64) -> Self {
        let mut s = Self::new();
        s.stall_ms = ms;
        s
    }

    pub fn new() -> Self {
        Self {
            stall_ms: 200,
            inner: Arc::new(Inner {
                st: Mutex::new(State {
                    waiting: BTreeMap::new(),
                    live: BTreeSet::new(),
                    granted: None,
                    log: vec![],
                    free_run: false,
                    steps: 0,
                    stopping: false,
                }),
                cv: Condvar::new(),
            }),
        }
    }

    /// log a harness-level event (called by the running worker; ordered because one worker runs)
    pub fn event(&self, v: Value) {
        self.inner.st.lock().log.push(v);
    }

    /// explicit scheduling point of harness code
    pub fn point(&self, label: &'static str, val: u64) {
        undermoon::verif_hooks::sched_point(label, val);
    }

    /// true once only idle daemon workers are left (they should exit)
    pub fn stopping(&self) -> bool {
        self.inner.st.lock().stopping
    }

    pub fn register(&self, name: &str) {
        self.inner.st.lock().live.insert(name.to_string());
    }

    /// spawn a worker; it must have been `register`ed before the controller starts
    pub fn spawn<F: FnOnce() + Send + 'static>(&self, name: &str, f: F) -> std::thread::JoinHandle<()> {
        let inner = self.inner.clone();
        let name = name.to_string();
        std::thread::spawn(move || {
            CUR.with(|c| *c.borrow_mut() = Some((inner.clone(), name.clone())));
            // a panic in code under test is data
            let r = std::panic::catch_unwind(std::panic::AssertUnwindSafe(f));
            let mut st = inner.st.lock();
            if r.is_err() {
                st.log.push(json!({"t": name, "ev": "panic"}));
            }
            st.live.remove(&name);
            st.waiting.remove(&name);
            inner.cv.notify_all();
        })
    }

    /// run a blocking call outside the scheduler's accounting (the worker is not "live" meanwhile)
    pub fn blocked<T, F: FnOnce() -> T>(&self, name: &str, f: F) -> T {
        {
            let mut st = self.inner.st.lock();
            st.live.remove(name);
            self.inner.cv.notify_all();
        }
        let r = f();
        {
            let mut st = self.inner.st.lock();
            st.live.insert(name.to_string());
            self.inner.cv.notify_all();
        }
        r
    }

    /// Drive the workers: `hints` is a priority list of worker names (a schedule from the spec);
    /// when the hinted worker is not parked, or hints run out, a seeded random parked worker is taken.
    /// `enabled(worker, label)` tells whether a parked worker may be chosen now (evaluated while every
    /// worker is parked, so it may read shared harness state); `daemons` do not keep the run alive.
    pub fn run(
        &self,
        hints: &[String],
        seed: u64,
        max_steps: usize,
        enabled: &dyn Fn(&str, &str) -> bool,
        daemons: &[&str],
    ) -> Vec<Value> {
        let mut rng = StdRng::seed_from_u64(seed);
        let mut hint_pos = 0;
        loop {
            let mut st = self.inner.st.lock();
            // wait until every live worker is parked (or none is live)
            let mut waited = 0;
            while !(st.granted.is_none() && st.waiting.len() == st.live.len()) {
                let r = self.inner.cv.wait_for(&mut st, Duration::from_millis(self.stall_ms));
                if r.timed_out() {
                    // a worker that neither parks nor finishes is taken to be blocked on a lock held by
                    // a parked worker: go on with the parked ones (it will park once it gets the lock)
                    if self.stall_ms < 200 && st.granted.is_none() && !st.waiting.is_empty() {
                        break;
                    }
                    waited += 1;
                    if waited > 50 {
                        // a worker blocks outside a hook: fall back to free running
                        st.free_run = true;
                        st.stopping = true;
                        st.log.push(json!({"ev": "watchdog_free_run"}));
                        self.inner.cv.notify_all();
                        break;
                    }
                }
            }
            if st.free_run {
                drop(st);
                std::thread::sleep(Duration::from_millis(300));
                break;
            }
            if st.live.is_empty() {
                break;
            }
            st.steps += 1;
            if st.steps > max_steps {
                st.free_run = true;
                st.stopping = true;
                st.log.push(json!({"ev": "max_steps_free_run"}));
                self.inner.cv.notify_all();
                drop(st);
                std::thread::sleep(Duration::from_millis(300));
                break;
            }
            let parked: Vec<String> = st
                .waiting
                .iter()
                .filter(|(w, (label, _))| enabled(w.as_str(), label.as_str()))
                .map(|(w, _)| w.clone())
                .collect();
            if parked.is_empty() {
                // nothing can move: if only daemons are left they must exit, otherwise free-run
                let only_daemons = st.live.iter().all(|w| daemons.contains(&w.as_str()));
                st.stopping = true;
                if !only_daemons {
                    st.log.push(json!({"ev": "watchdog_free_run"}));
                }
                st.free_run = true;
                self.inner.cv.notify_all();
                drop(st);
                std::thread::sleep(Duration::from_millis(if only_daemons { 1 } else { 300 }));
                break;
            }
            let mut choice = None;
            while hint_pos < hints.len() {
                let h = &hints[hint_pos];
                hint_pos += 1;
                if parked.contains(h) {
                    choice = Some(h.clone());
                    break;
                }
            }
            let choice = choice.unwrap_or_else(|| parked[rng.gen_range(0..parked.len())].clone());
            st.granted = Some(choice);
            self.inner.cv.notify_all();
        }
        let st = self.inner.st.lock();
        st.log.clone()
    }
}
