//! C05 rig: SETCLUSTER / SETREPL deliveries into a real proxy.
//!  (a) sequential delivery sequences;  (b) concurrent deliveries + a reader on real threads under `sched`.
use crate::sched::Sched;
use crate::simnet::{resp_json, Net};
use rand::rngs::StdRng;
use rand::{Rng, SeedableRng};
use serde_json::{json, Value};
use std::io::Write;
use undermoon::protocol::{Array, BulkStr, Resp, RespVec};
use undermoon::proxy::service::ClusterNodesVersion;

const PROXY: &str = "127.0.0.1:7000";
const NODE_A: &str = "127.0.0.1:6000";
const NODE_B: &str = "127.0.0.1:6001";
const FOREIGN: &str = "127.0.0.9:6000";

#[derive(Clone, Debug)]
pub struct Msg {
    pub kind: char, // 'C' | 'R'
    pub epoch: u64,
    pub force: bool,
    pub content: u8, // 1 | 2
    pub host_ok: bool,
}

impl Msg {
    fn json(&self) -> Value {
        json!({"kind": self.kind.to_string(), "epoch": self.epoch, "force": self.force, "content": self.content, "hostOk": self.host_ok})
    }
    fn cmd(&self) -> Vec<Vec<u8>> {
        let flags = if self.force { "FORCE" } else { "NOFLAG" };
        let node = if !self.host_ok { FOREIGN } else if self.content == 1 { NODE_A } else { NODE_B };
        let v: Vec<String> = if self.kind == 'C' {
            // content 1: node A owns everything; content 2: node B owns everything
            vec!["UMCTL".into(), "SETCLUSTER".into(), "v2".into(), self.epoch.to_string(), flags.into(), "c5".into(), node.into(), "1".into(), "0-16383".into()]
        } else {
            // content 1 / 3: node A is a master with one replica; content 2 / 4: node A is a replica of one master; the peer differs
            // between 1|2 and 3|4 (same replicator key, different metadata: a reused replicator would show the old peer)
            let role = if self.content % 2 == 1 { "master" } else { "replica" };
            let peer = if self.content <= 2 { "127.0.0.2:6000" } else { "127.0.0.3:6000" };
            let node = if !self.host_ok { FOREIGN } else { NODE_A };
            vec!["UMCTL".into(), "SETREPL".into(), self.epoch.to_string(), flags.into(), role.into(), "c5".into(), node.into(), "1".into(), peer.into(), "127.0.0.2:7000".into()]
        };
        v.into_iter().map(String::into_bytes).collect()
    }
}

fn reply_code(r: &RespVec) -> String {
    match r {
        Resp::Simple(s) if s == b"OK" => "OK".into(),
        Resp::Error(e) => {
            let s = String::from_utf8_lossy(e).to_string();
            if s.contains("OLD_EPOCH") || s == undermoon::common::response::OLD_EPOCH_REPLY {
                "OLD_EPOCH".into()
            } else if s == undermoon::common::response::ERR_NOT_MY_META {
                "NOT_MY_META".into()
            } else {
                format!("ERR:{}", s)
            }
        }
        other => format!("OTHER:{}", resp_json(other)),
    }
}

async fn get_epoch(net: &Net) -> i64 {
    match net.proxy_exec(PROXY, vec![b"UMCTL".to_vec(), b"GETEPOCH".to_vec()]).await {
        Resp::Integer(b) => String::from_utf8_lossy(&b).parse().unwrap_or(-1),
        _ => -1,
    }
}

static PROBE_SEQ: std::sync::atomic::AtomicU64 = std::sync::atomic::AtomicU64::new(0);

/// which routing content is installed: 1 (node A executes), 2 (node B), 0 (no cluster / the probe failed).
/// Every probe uses its own key and only the stand-in event carrying that key counts: a probe of an earlier call that timed out
/// on a busy machine and reaches its node late cannot be mistaken for this one (seen once as a false alarm in a thorough run).
async fn route_content(net: &Net) -> i64 {
    let key = format!("probe{}", PROBE_SEQ.fetch_add(1, std::sync::atomic::Ordering::SeqCst));
    net.take_log();
    let r = net.proxy_exec(PROXY, vec![b"GET".to_vec(), key.clone().into_bytes()]).await;
    let mut c = 0;
    for e in net.take_log() {
        if e["kind"] == "redis" && e["cmd"][0] == "GET" && e["cmd"][1] == key.as_str() {
            c = if e["node"] == NODE_A { 1 } else if e["node"] == NODE_B { 2 } else { 9 };
        }
    }
    if let Resp::Error(_) = r {
        // no reply from a node: whatever the log says is not an observation of the routing table
        return 0;
    }
    c
}

/// replication content: 1 / 3 (a master record, peer on host 2 / 3), 2 / 4 (a replica record, peer on host 2 / 3), 0 none
async fn repl_content(net: &Net) -> i64 {
    let r = net.proxy_exec(PROXY, vec![b"UMCTL".to_vec(), b"INFOREPL".to_vec()]).await;
    if let Resp::Arr(Array::Arr(items)) = r {
        for it in items {
            if let Resp::Arr(Array::Arr(lines)) = it {
                let mut role = 0;
                let mut far_peer = false;
                for l in lines {
                    if let Resp::Bulk(BulkStr::Str(b)) = l {
                        let s = String::from_utf8_lossy(&b).to_string();
                        if s.starts_with("role:master") {
                            role = 1;
                        }
                        if s.starts_with("role:replica") {
                            role = 2;
                        }
                        if (s.starts_with("replica:") || s.starts_with("master:")) && s.contains("127.0.0.3:6000") {
                            far_peer = true;
                        }
                    }
                }
                if role != 0 {
                    return role + if far_peer { 2 } else { 0 };
                }
            }
        }
    }
    0
}

fn gen_msg(rng: &mut StdRng, max_epoch: u64) -> Msg {
    let kind = if rng.gen_bool(0.6) { 'C' } else { 'R' };
    Msg {
        kind,
        epoch: rng.gen_range(1..=max_epoch),
        force: rng.gen_bool(0.15),
        content: if kind == 'C' { rng.gen_range(1..=2) } else { rng.gen_range(1..=4) },
        host_ok: rng.gen_bool(0.9),
    }
}

fn fresh_net() -> Net {
    let net = Net::new();
    net.add_redis(NODE_A);
    net.add_redis(NODE_B);
    net.start_proxy(PROXY, Net::proxy_config(PROXY, false, 1, ClusterNodesVersion::V2));
    net
}

pub async fn run_sequential(out: &mut dyn Write, seed: u64, count: usize, len: usize) {
    let mut rng = StdRng::seed_from_u64(seed);
    for i in 0..count {
        let net = fresh_net();
        writeln!(out, "{}", json!({"kind": "reset", "run": i})).ok();
        for _ in 0..len {
            let m = gen_msg(&mut rng, 4);
            let r = net.proxy_exec(PROXY, m.cmd()).await;
            let e = get_epoch(&net).await;
            let rc = route_content(&net).await;
            let pc = repl_content(&net).await;
            writeln!(out, "{}", json!({"kind": "deliver", "msg": m.json(), "reply": reply_code(&r), "getepoch": e, "route": rc, "repl": pc})).ok();
        }
    }
}

/// concurrent deliveries of non-forced cluster messages plus a reader (GETEPOCH then a routing probe)
pub fn run_concurrent(out: &mut dyn Write, seed: u64, count: usize) {
    crate::sched::install_hooks();
    let mut rng = StdRng::seed_from_u64(seed);
    // one shared runtime: tasks spawned by the code under test (backend connections, replicators)
    // must outlive the delivering thread
    let shared = tokio::runtime::Builder::new_multi_thread().worker_threads(2).enable_all().build().expect("rt");
    let handle = shared.handle().clone();
    for i in 0..count {
        let kind = if i % 3 == 2 { 'R' } else { 'C' };
        let net = handle.block_on(async { fresh_net() });
        // a pre-installed epoch sometimes
        let pre = if rng.gen_bool(0.5) { rng.gen_range(1..=2) } else { 0 };
        if pre > 0 {
            let m = Msg { kind, epoch: pre, force: false, content: 1, host_ok: true };
            handle.block_on(net.proxy_exec(PROXY, m.cmd()));
        }
        let n = rng.gen_range(2..=3);
        let msgs: Vec<Msg> = (0..n).map(|_| Msg { kind, epoch: rng.gen_range(1..=4), force: false, content: if kind == 'C' { rng.gen_range(1..=2) } else { rng.gen_range(1..=4) }, host_ok: true }).collect();
        let sched = Sched::with_stall(40);
        let results = std::sync::Arc::new(parking_lot::Mutex::new(vec![String::new(); n]));
        let reads = std::sync::Arc::new(parking_lot::Mutex::new(vec![]));
        let mut handles = vec![];
        for j in 0..n {
            sched.register(&format!("d{}", j));
        }
        sched.register("reader");
        for (j, m) in msgs.iter().cloned().enumerate() {
            let net = net.clone();
            let results = results.clone();
            let s = sched.clone();
            let rt = handle.clone();
            handles.push(sched.spawn(&format!("d{}", j), move || {
                s.point("d_start", j as u64);
                let r = rt.block_on(net.proxy_exec(PROXY, m.cmd()));
                results.lock()[j] = reply_code(&r);
                s.event(json!({"ev": "reply", "d": j, "reply": reply_code(&r)}));
            }));
        }
        {
            let net = net.clone();
            let reads = reads.clone();
            let s = sched.clone();
            let rt = handle.clone();
            handles.push(sched.spawn("reader", move || {
                for _ in 0..3 {
                    s.point("rd_epoch", 0);
                    let e = rt.block_on(get_epoch(&net));
                    s.point("rd_route", 0);
                    let c = if kind == 'C' { rt.block_on(route_content(&net)) } else { rt.block_on(repl_content(&net)) };
                    reads.lock().push(json!({"epoch": e, "content": c}));
                }
            }));
        }
        let log = sched.run(&[], seed.wrapping_mul(31).wrapping_add(i as u64), 2000, &|_, _| true, &[]);
        for h in handles {
            let _ = h.join();
        }
        let (fe, fc) = handle.block_on(async {
            let e = get_epoch(&net).await;
            let c = if kind == 'C' { route_content(&net).await } else { repl_content(&net).await };
            (e, c)
        });
        let order: Vec<String> = log.iter().filter(|e| e.get("label").is_some()).map(|e| format!("{}:{}", e["t"].as_str().unwrap_or(""), e["label"].as_str().unwrap_or(""))).collect();
        writeln!(out, "{}", json!({
            "kind": "concurrent", "mkind": kind.to_string(), "pre": pre, "msgs": msgs.iter().map(|m| m.json()).collect::<Vec<_>>(),
            "replies": results.lock().clone(), "reads": reads.lock().clone(), "final_epoch": fe, "final_content": fc,
            "schedule": order, "free_run": log.iter().any(|e| e["ev"] == "watchdog_free_run" || e["ev"] == "max_steps_free_run"),
        })).ok();
    }
}


// ---------------------------------------------------------------------------------------------
// races between forced and non-forced deliveries, followed by a lone later message (spec/MetaConc.tla)
// ---------------------------------------------------------------------------------------------

/// SETREPL whose peer address carries the message id, so that INFOREPL tells which message is installed
fn repl_cmd(id: usize, epoch: u64, force: bool) -> Vec<Vec<u8>> {
    let flags = if force { "FORCE" } else { "NOFLAG" };
    let v: Vec<String> = vec!["UMCTL".into(), "SETREPL".into(), epoch.to_string(), flags.into(), "master".into(), "c5".into(), NODE_A.into(), "1".into(),
                              format!("127.0.0.2:{}", 6100 + id), "127.0.0.2:7000".into()];
    v.into_iter().map(String::into_bytes).collect()
}

/// id of the message whose roles are installed (0 = none)
async fn repl_installed_id(net: &Net) -> i64 {
    let r = net.proxy_exec(PROXY, vec![b"UMCTL".to_vec(), b"INFOREPL".to_vec()]).await;
    if let Resp::Arr(Array::Arr(items)) = r {
        for it in items {
            if let Resp::Arr(Array::Arr(lines)) = it {
                for l in lines {
                    if let Resp::Bulk(BulkStr::Str(b)) = l {
                        let s = String::from_utf8_lossy(&b).to_string();
                        if let Some(rest) = s.strip_prefix("replica:").or_else(|| s.strip_prefix("master:")) {
                            // <host>:<port>@<proxy>
                            let node = rest.split('@').next().unwrap_or("");
                            if let Some(p) = node.trim().rsplit(':').next().and_then(|x| x.parse::<i64>().ok()) {
                                return p - 6100;
                            }
                        }
                    }
                }
            }
        }
    }
    0
}

/// `count` batches: 2-3 concurrent replication messages, some of them forced, under the thread scheduler (every third batch
/// follows the schedule of the TLC counterexample of MetaConc_MC_force_asbuilt), then ONE more non-forced message alone.
pub fn run_race(out: &mut dyn Write, seed: u64, count: usize) {
    crate::sched::install_hooks();
    let mut rng = StdRng::seed_from_u64(seed ^ 0x5eed);
    let shared = tokio::runtime::Builder::new_multi_thread().worker_threads(2).enable_all().build().expect("rt");
    let handle = shared.handle().clone();
    for i in 0..count {
        let net = handle.block_on(async { fresh_net() });
        let directed = i % 3 == 0;
        // (epoch, force) per message; ids are 1-based
        let msgs: Vec<(u64, bool)> = if directed {
            let hi = rng.gen_range(4..=6);
            let lo = rng.gen_range(1..=2);
            vec![(hi, false), (lo, true)]
        } else {
            let n = rng.gen_range(2..=3);
            (0..n).map(|_| (rng.gen_range(1..=6), rng.gen_bool(0.4))).collect()
        };
        let n = msgs.len();
        let sched = Sched::with_stall(40);
        let results = std::sync::Arc::new(parking_lot::Mutex::new(vec![String::new(); n]));
        let mut handles = vec![];
        for j in 0..n {
            sched.register(&format!("d{}", j));
        }
        for (j, (epoch, force)) in msgs.iter().cloned().enumerate() {
            let net = net.clone();
            let results = results.clone();
            let s = sched.clone();
            let rt = handle.clone();
            handles.push(sched.spawn(&format!("d{}", j), move || {
                s.point("d_start", j as u64);
                let r = rt.block_on(net.proxy_exec(PROXY, repl_cmd(j + 1, epoch, force)));
                results.lock()[j] = reply_code(&r);
            }));
        }
        // counterexample schedule: the forced message stores its (lower) epoch optimistically, the non-forced one overwrites it,
        // installs, then the forced one installs
        let hints: Vec<String> = if directed { ["d1", "d1", "d1", "d0", "d0", "d0", "d0", "d1", "d1"].iter().map(|x| x.to_string()).collect() } else { vec![] };
        let log = sched.run(&hints, seed.wrapping_mul(37).wrapping_add(i as u64), 2000, &|_, _| true, &[]);
        for h in handles {
            let _ = h.join();
        }
        let installed_id = handle.block_on(repl_installed_id(&net));
        let installed_epoch = if installed_id >= 1 && (installed_id as usize) <= n { msgs[installed_id as usize - 1].0 } else { 0 };
        // the lone later message
        let late_epoch = rng.gen_range(1..=7u64);
        let late_id = n + 1;
        let lr = handle.block_on(net.proxy_exec(PROXY, repl_cmd(late_id, late_epoch, false)));
        let after_id = handle.block_on(repl_installed_id(&net));
        let order: Vec<String> = log.iter().filter(|e| e.get("label").is_some()).map(|e| format!("{}:{}", e["t"].as_str().unwrap_or(""), e["label"].as_str().unwrap_or(""))).collect();
        writeln!(out, "{}", json!({
            "kind": "race", "mkind": "R", "directed": directed,
            "msgs": msgs.iter().enumerate().map(|(j, (e, f))| json!({"id": j + 1, "epoch": e, "force": f})).collect::<Vec<_>>(),
            "replies": results.lock().clone(), "installed_id": installed_id, "installed_epoch": installed_epoch,
            "late": {"id": late_id, "epoch": late_epoch}, "late_reply": reply_code(&lr), "after_id": after_id,
            "schedule": order, "free_run": log.iter().any(|e| e["ev"] == "watchdog_free_run" || e["ev"] == "max_steps_free_run"),
        })).ok();
    }
}
