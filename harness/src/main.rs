#[macro_use]
extern crate serde_derive;

mod blockrig;
mod brokerdrv;
mod resprig;
mod routerig;
mod cluster;
mod metarig;
mod migrig;
mod compressrig;
mod ctlrig;
mod sched;
mod simnet;
mod hostilerig;
mod slotrig;
mod tcprig;
mod wirerig;

use std::collections::HashMap;
use std::io::{BufWriter, Write};

fn parse_args(args: &[String]) -> HashMap<String, String> {
    let mut m = HashMap::new();
    let mut i = 0;
    while i < args.len() {
        if let Some(k) = args[i].strip_prefix("--") {
            if i + 1 < args.len() && !args[i + 1].starts_with("--") {
                m.insert(k.to_string(), args[i + 1].clone());
                i += 2;
            } else {
                m.insert(k.to_string(), "true".to_string());
                i += 1;
            }
        } else {
            i += 1;
        }
    }
    m
}

fn geti<T: std::str::FromStr>(m: &HashMap<String, String>, k: &str, d: T) -> T {
    m.get(k).and_then(|v| v.parse().ok()).unwrap_or(d)
}

fn paused_rt() -> tokio::runtime::Runtime {
    tokio::runtime::Builder::new_current_thread()
        .enable_all()
        .start_paused(true)
        .build()
        .expect("runtime")
}

fn cmd_broker_traces(m: &HashMap<String, String>) -> i32 {
    let out_dir = m.get("out").cloned().unwrap_or_else(|| "work/broker".to_string());
    let count: u64 = geti(m, "count", 10);
    let steps: usize = geti(m, "steps", 40);
    let seed: u64 = geti(m, "seed", 1);
    let profile = m.get("profile").cloned().unwrap_or_else(|| "mixed".to_string());
    std::fs::create_dir_all(&out_dir).ok();
    let rt = paused_rt();
    for i in 0..count {
        let s = seed.wrapping_mul(1_000_003).wrapping_add(i);
        let limit = [0u64, 1, 2, 1][(i % 4) as usize];
        let ordered = m.get("ordered").map(|v| v == "true").unwrap_or(i % 7 == 6);
        let (ttl, quorum) = if profile == "quorum" {
            ([10u64, 60, 3600][(i % 3) as usize], 1 + (i / 3) % 4)
        } else {
            (60, 1 + i % 2)
        };
        let cfg = brokerdrv::TraceCfg { seed: s, steps, limit, ordered, ttl, quorum, profile: profile.clone(), ops: None };
        let path = format!("{}/trace_{:05}.ndjson", out_dir, i);
        let f = std::fs::File::create(&path).expect("create trace");
        let mut w = BufWriter::new(f);
        let ops = match rt.block_on(brokerdrv::run_trace(&cfg, &mut w)) {
            Ok(ops) => ops,
            Err(e) => {
                eprintln!("harness error: {}", e);
                return 2;
            }
        };
        w.flush().ok();
        let meta = serde_json::json!({"seed": s, "limit": limit, "ordered": ordered, "ttl": ttl, "quorum": quorum, "profile": profile, "ops": ops});
        std::fs::write(format!("{}/ops_{:05}.json", out_dir, i), serde_json::to_string(&meta).unwrap()).ok();
    }
    0
}

/// replay many op lists (one JSON object per line: {"ops": [...], "limit": n}) - the TLC-generated behaviours
fn cmd_broker_replay_many(m: &HashMap<String, String>) -> i32 {
    let lists = m.get("lists").expect("--lists");
    let out_dir = m.get("out").expect("--out");
    std::fs::create_dir_all(out_dir).ok();
    let rt = paused_rt();
    let text = std::fs::read_to_string(lists).expect("read lists");
    for (i, line) in text.lines().enumerate() {
        if line.trim().is_empty() {
            continue;
        }
        let meta: serde_json::Value = match serde_json::from_str(line) {
            Ok(v) => v,
            Err(e) => {
                eprintln!("bad list {}: {}", i, e);
                return 2;
            }
        };
        let ops: Vec<brokerdrv::Op> = match serde_json::from_value(meta["ops"].clone()) {
            Ok(o) => o,
            Err(e) => {
                eprintln!("bad ops {}: {}", i, e);
                return 2;
            }
        };
        let limit = meta["limit"].as_u64().unwrap_or(0);
        let cfg = brokerdrv::TraceCfg { seed: i as u64, steps: ops.len(), limit, ordered: false, ttl: 60, quorum: 1, profile: "tlc".to_string(), ops: Some(ops.clone()) };
        let path = format!("{}/trace_{:05}.ndjson", out_dir, i);
        let f = std::fs::File::create(&path).expect("create trace");
        let mut w = BufWriter::new(f);
        if let Err(e) = rt.block_on(brokerdrv::run_trace(&cfg, &mut w)) {
            eprintln!("harness error: {}", e);
            return 2;
        }
        w.flush().ok();
        let meta = serde_json::json!({"seed": i, "limit": limit, "ordered": false, "ttl": 60, "quorum": 1, "profile": "tlc", "ops": ops});
        std::fs::write(format!("{}/ops_{:05}.json", out_dir, i), serde_json::to_string(&meta).unwrap()).ok();
    }
    0
}

fn cmd_broker_replay(m: &HashMap<String, String>) -> i32 {
    let ops_file = m.get("ops").expect("--ops");
    let out = m.get("out").expect("--out");
    let meta: serde_json::Value = serde_json::from_str(&std::fs::read_to_string(ops_file).expect("read ops")).expect("parse ops");
    let ops: Vec<brokerdrv::Op> = serde_json::from_value(meta["ops"].clone()).expect("ops");
    let cfg = brokerdrv::TraceCfg {
        seed: meta["seed"].as_u64().unwrap_or(0),
        steps: ops.len(),
        limit: meta["limit"].as_u64().unwrap_or(0),
        ordered: meta["ordered"].as_bool().unwrap_or(false),
        ttl: meta["ttl"].as_u64().unwrap_or(60),
        quorum: meta["quorum"].as_u64().unwrap_or(1),
        profile: "replay".to_string(),
        ops: Some(ops),
    };
    let rt = paused_rt();
    let f = std::fs::File::create(out).expect("create trace");
    let mut w = BufWriter::new(f);
    match rt.block_on(brokerdrv::run_trace(&cfg, &mut w)) {
        Ok(_) => 0,
        Err(e) => {
            eprintln!("harness error: {}", e);
            2
        }
    }
}

fn cmd_blocking_runs(m: &HashMap<String, String>) -> i32 {
    let out = m.get("out").expect("--out");
    let count: u64 = geti(m, "count", 100);
    let seed: u64 = geti(m, "seed", 1);
    let nb: usize = geti(m, "blockers", 1);
    let targets: Vec<String> = m.get("targets").map(|s| s.split(',').map(String::from).collect()).unwrap_or_else(|| vec!["b1".into(), "b1".into()]);
    let f = std::fs::File::create(out).expect("create");
    let mut w = BufWriter::new(f);
    blockrig::run_many(
        &mut w,
        count,
        seed,
        &targets,
        nb,
        m.get("hints").map(|s| s.as_str()),
        geti(m, "hint-offset", 0usize),
        m.contains_key("exact-seed"),
    );
    w.flush().ok();
    0
}

fn cmd_resp_cases(m: &HashMap<String, String>) -> i32 {
    let out = m.get("out").expect("--out");
    let f = std::fs::File::create(out).expect("create");
    let mut w = BufWriter::new(f);
    resprig::run(
        &mut w,
        m.get("mode").map(|s| s.as_str()).unwrap_or("bytes"),
        geti(m, "maxlen", 4usize),
        geti(m, "count", 1000u64),
        geti(m, "seed", 1u64),
        geti(m, "part", 0u64),
        geti(m, "parts", 1u64),
    );
    w.flush().ok();
    0
}

fn cmd_routing_runs(m: &HashMap<String, String>) -> i32 {
    let out = m.get("out").expect("--out");
    let f = std::fs::File::create(out).expect("create");
    let mut w = BufWriter::new(f);
    routerig::run_many(&mut w, geti(m, "count", 2u64), geti(m, "seed", 1u64), m.contains_key("all-slots"));
    w.flush().ok();
    0
}

fn cmd_slot_cases(m: &HashMap<String, String>) -> i32 {
    let out = m.get("out").expect("--out");
    let f = std::fs::File::create(out).expect("create");
    let mut w = BufWriter::new(f);
    let rt = paused_rt();
    rt.block_on(slotrig::run(
        &mut w,
        geti(m, "seed", 1u64),
        geti(m, "layouts", 6usize),
        geti(m, "maxlen", 5usize),
        geti(m, "random-keys", 600usize),
    ));
    w.flush().ok();
    0
}

fn cmd_wire_cases(m: &HashMap<String, String>) -> i32 {
    let out = m.get("out").expect("--out");
    let f = std::fs::File::create(out).expect("create");
    let mut w = BufWriter::new(f);
    wirerig::run(&mut w, geti(m, "count", 100u64), geti(m, "seed", 1u64));
    w.flush().ok();
    0
}

fn cmd_compress_cases(m: &HashMap<String, String>) -> i32 {
    let out = m.get("out").expect("--out");
    let f = std::fs::File::create(out).expect("create");
    let mut w = BufWriter::new(f);
    let rt = paused_rt();
    rt.block_on(compressrig::run(&mut w, geti(m, "seed", 1u64), geti(m, "count", 100usize), m.contains_key("big")));
    w.flush().ok();
    0
}

fn cmd_meta_cases(m: &HashMap<String, String>) -> i32 {
    let out = m.get("out").expect("--out");
    let f = std::fs::File::create(out).expect("create");
    let mut w = BufWriter::new(f);
    if m.contains_key("race") {
        metarig::run_race(&mut w, geti(m, "seed", 1u64), geti(m, "count", 30usize));
    } else if m.contains_key("concurrent") {
        metarig::run_concurrent(&mut w, geti(m, "seed", 1u64), geti(m, "count", 50usize));
    } else {
        let rt = paused_rt();
        rt.block_on(metarig::run_sequential(&mut w, geti(m, "seed", 1u64), geti(m, "count", 50usize), geti(m, "len", 8usize)));
    }
    w.flush().ok();
    0
}

fn cmd_migration_runs(m: &HashMap<String, String>) -> i32 {
    let out = m.get("out").expect("--out");
    let f = std::fs::File::create(out).expect("create");
    let mut w = BufWriter::new(f);
    migrig::run_many(&mut w, geti(m, "count", 2u64), geti(m, "seed", 1u64), m.contains_key("directed"), m.contains_key("stale"));
    w.flush().ok();
    0
}

fn cmd_ctl_runs(m: &HashMap<String, String>) -> i32 {
    let out = m.get("out").expect("--out");
    let f = std::fs::File::create(out).expect("create");
    let mut w = BufWriter::new(f);
    ctlrig::run_many(&mut w, geti(m, "count", 2u64), geti(m, "seed", 1u64));
    w.flush().ok();
    0
}

fn cmd_hostile_runs(m: &HashMap<String, String>) -> i32 {
    let out = m.get("out").expect("--out");
    let f = std::fs::File::create(out).expect("create");
    let mut w = BufWriter::new(f);
    let errfile = format!("{}.stderr", out);
    let rc = hostilerig::run_many(&mut w, m.get("family").map(|s| s.as_str()).unwrap_or("cmd"), geti(m, "seed", 1u64), geti(m, "random", 200usize),
                                  geti(m, "port", 31000u16), &errfile, geti(m, "part", 0usize), geti(m, "parts", 1usize));
    w.flush().ok();
    rc
}

fn cmd_tcp_runs(m: &HashMap<String, String>) -> i32 {
    let out = m.get("out").expect("--out");
    let f = std::fs::File::create(out).expect("create");
    let mut w = BufWriter::new(f);
    tcprig::run_many(&mut w, geti(m, "count", 8u64), geti(m, "seed", 1u64), geti(m, "first", 0u64), geti(m, "par", 16usize));
    w.flush().ok();
    0
}

fn main() {
    let args: Vec<String> = std::env::args().collect();
    if args.len() < 2 {
        eprintln!("usage: uverif <subcommand> [--k v]...");
        std::process::exit(2);
    }
    // silence panic messages of code under test (they are recorded as data)
    if std::env::var("UVERIF_PANIC_VERBOSE").is_err() {
        std::panic::set_hook(Box::new(|_| {}));
    }
    let m = parse_args(&args[2..]);
    let code = match args[1].as_str() {
        "broker-traces" => cmd_broker_traces(&m),
        "broker-replay" => cmd_broker_replay(&m),
        "broker-replay-many" => cmd_broker_replay_many(&m),
        "blocking-runs" => cmd_blocking_runs(&m),
        "resp-cases" => cmd_resp_cases(&m),
        "routing-runs" => cmd_routing_runs(&m),
        "slot-cases" => cmd_slot_cases(&m),
        "wire-cases" => cmd_wire_cases(&m),
        "compress-cases" => cmd_compress_cases(&m),
        "meta-cases" => cmd_meta_cases(&m),
        "migration-runs" => cmd_migration_runs(&m),
        "ctl-runs" => cmd_ctl_runs(&m),
        "tcp-runs" => cmd_tcp_runs(&m),
        "hostile-runs" => cmd_hostile_runs(&m),
        "proxy-child" => hostilerig::proxy_child(geti(&m, "port", 31000u16), geti(&m, "threads", 2usize)),
        other => {
            eprintln!("unknown subcommand {}", other);
            2
        }
    };
    std::process::exit(code);
}
