//! C03 / C19 rig: a real live slot migration (real broker, coordinator rounds, proxies) under concurrent
//! client traffic, with a deterministic scheduler releasing one stand-in command at a time.
use crate::brokerdrv::Op;
use crate::cluster::{keys_for_all_slots, ClusterWorld};
use crate::simnet::{resp_json, Net};
use rand::rngs::StdRng;
use rand::seq::SliceRandom;
use rand::{Rng, SeedableRng};
use serde_json::{json, Value};
use std::io::Write;
use std::sync::atomic::{AtomicBool, AtomicUsize, Ordering};
use std::sync::Arc;
use std::time::Duration;
use undermoon::protocol::{BulkStr, Resp, RespVec};

pub struct MigCfg {
    pub seed: u64,
    pub conn_num: usize,
    pub scale_in: bool,
    pub ttl_keys: bool,
    pub directed_pttl: bool,
    /// directed schedule: one pull-path RESTORE is held back until the migration is committed, the new
    /// metadata is installed and the key has been deleted through the new owner
    pub directed_stale: bool,
    pub clients: usize,
    pub ops_per_client: usize,
    pub policy: u8, // 0 random, 1 prefer migration traffic, 2 prefer client traffic, 3 LIFO
    /// proxies run with active redirection (commands for slots of another proxy are forwarded, not answered with MOVED)
    pub active: bool,
}

fn parse_moved(r: &RespVec) -> Option<String> {
    if let Resp::Error(b) = r {
        let s = String::from_utf8_lossy(b);
        let mut it = s.split(' ');
        if it.next()? == "MOVED" {
            it.next()?;
            return Some(it.next()?.to_string());
        }
    }
    None
}

/// the deterministic gate: releases one pending stand-in command whenever everything else is idle
pub struct StaleCtl {
    pub key: parking_lot::Mutex<Vec<u8>>,
    pub captured: AtomicBool,
    pub release: AtomicBool,
}

async fn gate_loop(net: Net, seed: u64, policy: u8, stop: Arc<AtomicBool>, stale: Option<Arc<StaleCtl>>) {
    let mut rng = StdRng::seed_from_u64(seed);
    loop {
        if stop.load(Ordering::SeqCst) {
            // release everything
            let all: Vec<_> = std::mem::take(&mut *net.inner.pending.lock());
            for p in all {
                let _ = p.release.send(());
            }
            return;
        }
        let empty = net.inner.pending.lock().is_empty();
        if empty {
            // nothing to schedule: let timers run
            let _ = tokio::time::timeout(Duration::from_millis(5), net.inner.pending_notify.notified()).await;
            continue;
        }
        // quiescence: 1ns of virtual time elapses only when every other task is blocked
        tokio::time::sleep(Duration::from_nanos(1)).await;
        if let Some(ctl) = &stale {
            // the directed schedule: hold the pull path's RESTORE of the chosen key (it comes over a proxy's
            // backend connection, the scan's comes from a client) and hold SCAN until such a RESTORE is held
            let key = ctl.key.lock().clone();
            let chosen = {
                let mut pend = net.inner.pending.lock();
                let is_pull_restore = |p: &crate::simnet::Pending| -> bool {
                    String::from_utf8_lossy(&p.cmd[0]).to_uppercase() == "RESTORE" && p.via.starts_with("conn:") && p.cmd.get(1) == Some(&key)
                };
                if pend.iter().any(|p| is_pull_restore(p)) {
                    ctl.captured.store(true, Ordering::SeqCst);
                }
                let held = |p: &crate::simnet::Pending| -> bool {
                    if is_pull_restore(p) {
                        return !ctl.release.load(Ordering::SeqCst);
                    }
                    if String::from_utf8_lossy(&p.cmd[0]).to_uppercase() == "SCAN" {
                        return !ctl.captured.load(Ordering::SeqCst);
                    }
                    false
                };
                let free: Vec<usize> = (0..pend.len()).filter(|i| !held(&pend[*i])).collect();
                if free.is_empty() {
                    None
                } else {
                    Some(pend.remove(free[rng.gen_range(0..free.len())]))
                }
            };
            match chosen {
                Some(c) => {
                    let _ = c.release.send(());
                }
                None => tokio::time::sleep(Duration::from_micros(200)).await,
            }
            continue;
        }
        let chosen = {
            let mut pend = net.inner.pending.lock();
            if pend.is_empty() {
                continue;
            }
            let is_mig = |c: &Vec<Vec<u8>>| {
                let n = String::from_utf8_lossy(&c[0]).to_uppercase();
                matches!(n.as_str(), "SCAN" | "DUMP" | "RESTORE" | "PTTL" | "EXISTS")
            };
            let idx = match policy {
                1 => {
                    let c: Vec<usize> = (0..pend.len()).filter(|i| is_mig(&pend[*i].cmd)).collect();
                    if !c.is_empty() && rng.gen_bool(0.8) { c[rng.gen_range(0..c.len())] } else { rng.gen_range(0..pend.len()) }
                }
                2 => {
                    let c: Vec<usize> = (0..pend.len()).filter(|i| !is_mig(&pend[*i].cmd)).collect();
                    if !c.is_empty() && rng.gen_bool(0.8) { c[rng.gen_range(0..c.len())] } else { rng.gen_range(0..pend.len()) }
                }
                3 => if rng.gen_bool(0.6) { pend.len() - 1 } else { rng.gen_range(0..pend.len()) },
                _ => rng.gen_range(0..pend.len()),
            };
            pend.remove(idx)
        };
        let _ = chosen.release.send(());
    }
}

fn reply_val(r: &RespVec) -> Value {
    match r {
        Resp::Bulk(BulkStr::Str(s)) => json!({"t": "val", "v": String::from_utf8_lossy(s)}),
        Resp::Bulk(BulkStr::Nil) => json!({"t": "nil", "v": ""}),
        Resp::Simple(s) => json!({"t": "ok", "v": String::from_utf8_lossy(s)}),
        Resp::Integer(s) => json!({"t": "int", "v": String::from_utf8_lossy(s)}),
        Resp::Error(s) => json!({"t": "error", "v": String::from_utf8_lossy(s)}),
        other => json!({"t": "other", "v": resp_json(other).to_string()}),
    }
}

async fn client_op(net: &Net, proxies: &[String], start: usize, cmd: Vec<Vec<u8>>) -> (RespVec, usize) {
    let mut cur = proxies[start % proxies.len()].clone();
    let mut redirects = 0;
    loop {
        let r = net.proxy_exec(&cur, cmd.clone()).await;
        if let Some(addr) = parse_moved(&r) {
            redirects += 1;
            if redirects > 8 {
                return (r, redirects);
            }
            cur = addr;
            continue;
        }
        return (r, redirects);
    }
}

pub async fn run_one(cfg: &MigCfg) -> Vec<Value> {
    let mut rng = StdRng::seed_from_u64(cfg.seed);
    let w = match ClusterWorld::new(0, false, false, cfg.active, cfg.conn_num, false) {
        Ok(w) => w,
        Err(e) => return vec![json!({"kind": "harness_error", "e": e})],
    };
    let net = w.net.clone();
    let mut head = vec![json!({"kind": "reset", "seed": cfg.seed, "conn_num": cfg.conn_num, "scale_in": cfg.scale_in, "policy": cfg.policy, "active_redirection": cfg.active,
        "ttl_keys": cfg.ttl_keys, "directed_pttl": cfg.directed_pttl, "directed_stale": cfg.directed_stale})];
    let mut w = w;
    macro_rules! op {
        ($o:expr) => {{
            let (res, _a, _o) = w.broker.apply(&$o).await;
            w.refresh_broker_handle();
            w.ensure_proxies().await;
            res
        }};
    }
    for h in 1..=2u32 {
        for i in 0..2u32 {
            op!(Op::AddProxy { host: h, idx: i, explicit_host: true, index: None });
        }
    }
    let n0 = if cfg.scale_in { 8 } else { 4 };
    if op!(Op::AddCluster { name: "c1".into(), n: n0 }) != "OK" {
        head.push(json!({"kind": "harness_error", "e": "add_cluster"}));
        return head;
    }
    op!(Op::ChangeConfig { name: "c1".into(), key: "migration_max_blocking_time".into(), value: "2000000000".into() });
    op!(Op::ChangeConfig { name: "c1".into(), key: "migration_max_migration_time".into(), value: "2000000000".into() });
    op!(Op::ChangeConfig { name: "c1".into(), key: "migration_scan_count".into(), value: ["1", "2", "16"].choose(&mut rng).unwrap_or(&"2").to_string() });
    w.sync_round("coord1").await;
    // start the migration in the broker (not yet delivered) to learn the migrating ranges
    if !cfg.scale_in {
        op!(Op::AddNodes { name: "c1".into(), n: 4 });
        w.sync_round("coord1").await;
    }
    // keys: choose after the ranges are known
    let (_s0, _o0) = w.broker.observe().await;
    let slot_keys = keys_for_all_slots();
    let proxies: Vec<String> = {
        let raw = w.broker.raw_store().await;
        let mut v = vec![];
        for ch in raw["clusters"]["c1"]["chunks"].as_array().cloned().unwrap_or_default() {
            for p in ch["proxy_addresses"].as_array().cloned().unwrap_or_default() {
                v.push(p.as_str().unwrap_or("").to_string());
            }
        }
        v
    };
    let res = if cfg.scale_in { op!(Op::ScaleDown { name: "c1".into(), n: 4 }) } else { op!(Op::MigrateSlots { name: "c1".into() }) };
    if res != "OK" {
        head.push(json!({"kind": "harness_error", "e": format!("start migration: {}", res)}));
        return head;
    }
    // migrating ranges from the broker's view
    let (_s, obs) = w.broker.observe().await;
    let view = obs["svc"]["clusters"][0].clone();
    let mut mig_ranges: Vec<(usize, usize, String, String)> = vec![];
    for n in view["nodes"].as_array().cloned().unwrap_or_default() {
        for sr in n["slots"].as_array().cloned().unwrap_or_default() {
            if sr["tag"] == "migrating" {
                for r in sr["rl"].as_array().cloned().unwrap_or_default() {
                    mig_ranges.push((r[0].as_u64().unwrap_or(0) as usize, r[1].as_u64().unwrap_or(0) as usize,
                                     sr["meta"]["sn"].as_str().unwrap_or("").to_string(), sr["meta"]["dn"].as_str().unwrap_or("").to_string()));
                }
            }
        }
    }
    if mig_ranges.is_empty() {
        head.push(json!({"kind": "harness_error", "e": "no migrating range"}));
        return head;
    }
    let mut keys: Vec<(String, bool, String, String)> = vec![]; // key, in_range, src node, dst node
    for _ in 0..4 {
        let (lo, hi, sn, dn) = mig_ranges.choose(&mut rng).cloned().unwrap_or_default();
        let s = rng.gen_range(lo..=hi);
        keys.push((slot_keys[s].clone(), true, sn, dn));
    }
    // a key outside every migrating range
    loop {
        let s = rng.gen_range(0..16384);
        if !mig_ranges.iter().any(|(lo, hi, _, _)| *lo <= s && s <= *hi) {
            keys.push((slot_keys[s].clone(), false, String::new(), String::new()));
            break;
        }
    }
    // the same slot can be drawn twice: keep the first occurrence only (dedup_by only removes neighbours; duplicates in the
    // seeding list once made the trace spec start from the wrong initial value)
    let mut seen_keys: std::collections::HashSet<String> = std::collections::HashSet::new();
    keys.retain(|k| seen_keys.insert(k.0.clone()));
    head.push(json!({"kind": "keys", "keys": keys.iter().map(|k| json!({"k": k.0, "in": k.1, "src": k.2, "dst": k.3})).collect::<Vec<_>>(),
                     "ranges": mig_ranges.iter().map(|r| json!({"lo": r.0, "hi": r.1, "src": r.2, "dst": r.3})).collect::<Vec<_>>()}));
    // seed initial values through the proxies (old metadata still installed: everything at the sources)
    net.take_log();
    let mut init = vec![];
    for (i, (k, _, _, _)) in keys.iter().enumerate() {
        if i % 4 == 3 {
            init.push(json!({"k": k, "v": "", "present": false, "ttl": false}));
            continue; // starts absent
        }
        let v = format!("i{}", i);
        let with_ttl = cfg.ttl_keys && i % 2 == 0;
        let cmd: Vec<Vec<u8>> = if with_ttl {
            vec![b"SET".to_vec(), k.clone().into_bytes(), v.clone().into_bytes(), b"PX".to_vec(), b"500000".to_vec()]
        } else {
            vec![b"SET".to_vec(), k.clone().into_bytes(), v.clone().into_bytes()]
        };
        let (r, _) = client_op(&net, &proxies, 0, cmd).await;
        init.push(json!({"k": k, "v": v, "present": true, "ttl": with_ttl, "reply": reply_val(&r)}));
    }
    if cfg.directed_pttl {
        // scripted PTTL answers at the source stand-ins for the in-range keys
        let script: [&[u8]; 7] = [b"0", b"1", b"-1", b"2147483648", b"9223372036854775807", b"5", b"77"];
        let mut redis = net.inner.redis.lock();
        for (i, (k, inr, sn, _)) in keys.iter().enumerate() {
            if *inr {
                if let Some(r) = redis.get_mut(sn) {
                    r.pttl_override.insert(k.clone().into_bytes(), Resp::Integer(script[(cfg.seed as usize + i) % script.len()].to_vec()));
                }
            }
        }
    }
    net.take_log();
    net.event(json!({"kind": "init", "keys": init}));
    // from here on every stand-in command passes the gate
    let stop = Arc::new(AtomicBool::new(false));
    net.inner.gated.store(true, Ordering::SeqCst);
    let stale_ctl = if cfg.directed_stale {
        let k = keys.iter().enumerate().find(|(i, k)| k.1 && i % 4 != 3).map(|(_, k)| k.0.clone()).unwrap_or_default();
        Some(Arc::new(StaleCtl { key: parking_lot::Mutex::new(k.into_bytes()), captured: AtomicBool::new(false), release: AtomicBool::new(false) }))
    } else {
        None
    };
    let gate = tokio::spawn(gate_loop(net.clone(), cfg.seed ^ 0x5eed, cfg.policy, stop.clone(), stale_ctl.clone()));
    // deliver the migration metadata: tasks start
    w.sync_round("coord1").await;
    if let Some(ctl) = &stale_ctl {
        return run_stale(cfg, w, net, head, proxies, ctl.clone(), stop, gate).await;
    }
    // clients
    let done = Arc::new(AtomicUsize::new(0));
    let mut handles = vec![];
    for c in 0..cfg.clients {
        let net = net.clone();
        let proxies = proxies.clone();
        let keys = keys.clone();
        let done = done.clone();
        let mut crng = StdRng::seed_from_u64(cfg.seed.wrapping_mul(977).wrapping_add(c as u64));
        let nops = cfg.ops_per_client;
        let ttl_ops = cfg.ttl_keys && !cfg.directed_pttl;
        handles.push(tokio::spawn(async move {
            for j in 0..nops {
                let (k, _, _, _) = keys[crng.gen_range(0..keys.len())].clone();
                let start = crng.gen_range(0..proxies.len());
                let uniq = format!("c{}x{}", c, j);
                let (name, cmd): (&str, Vec<Vec<u8>>) = match crng.gen_range(0..if ttl_ops { 10 } else { 8 }) {
                    7 if !ttl_ops => ("GETDEL", vec![b"GETDEL".to_vec(), k.clone().into_bytes()]),
                    9 => ("GETDEL", vec![b"GETDEL".to_vec(), k.clone().into_bytes()]),
                    0 | 1 => ("GET", vec![b"GET".to_vec(), k.clone().into_bytes()]),
                    2 | 3 => ("SET", vec![b"SET".to_vec(), k.clone().into_bytes(), uniq.clone().into_bytes()]),
                    4 => ("DEL", vec![b"DEL".to_vec(), k.clone().into_bytes()]),
                    5 => ("APPEND", vec![b"APPEND".to_vec(), k.clone().into_bytes(), uniq.clone().into_bytes()]),
                    6 => ("SETNX", vec![b"SETNX".to_vec(), k.clone().into_bytes(), uniq.clone().into_bytes()]),
                    7 => ("PEXPIRE", vec![b"PEXPIRE".to_vec(), k.clone().into_bytes(), b"400000".to_vec()]),
                    _ => ("PERSIST", vec![b"PERSIST".to_vec(), k.clone().into_bytes()]),
                };
                net.event(json!({"kind": "inv", "client": c, "op": name, "key": k, "arg": uniq, "start": proxies[start]}));
                let (r, redirects) = client_op(&net, &proxies, start, cmd).await;
                net.event(json!({"kind": "resp", "client": c, "op": name, "key": k, "result": reply_val(&r), "redirects": redirects}));
                tokio::time::sleep(Duration::from_micros(crng.gen_range(0..300))).await;
            }
            done.fetch_add(1, Ordering::SeqCst);
        }));
    }
    // coordinator: migration rounds until everything is committed
    let mut committed = false;
    for _ in 0..400 {
        tokio::time::sleep(Duration::from_millis(20)).await;
        w.migration_round("coord1").await;
        w.sync_round("coord1").await;
        let raw = w.broker.raw_store().await;
        let migrating = raw["clusters"]["c1"]["chunks"].as_array().map(|chs| chs.iter().any(|ch| ch["migrating_slots"].as_array().map(|a| a.iter().any(|h| h.as_array().map(|x| !x.is_empty()).unwrap_or(false))).unwrap_or(false))).unwrap_or(false);
        if !migrating && done.load(Ordering::SeqCst) == cfg.clients {
            committed = true;
            break;
        }
    }
    for h in handles {
        let _ = tokio::time::timeout(Duration::from_secs(100), h).await;
    }
    w.sync_round("coord1").await;
    // let trailing deletes / unlocks finish
    for _ in 0..20 {
        tokio::time::sleep(Duration::from_millis(10)).await;
    }
    stop.store(true, Ordering::SeqCst);
    net.inner.gated.store(false, Ordering::SeqCst);
    net.inner.pending_notify.notify_one();
    let _ = tokio::time::timeout(Duration::from_secs(10), gate).await;
    // final contents
    let mut finals = vec![];
    let nodes: Vec<String> = net.inner.redis.lock().keys().cloned().collect();
    for n in nodes {
        finals.push(json!({"node": n, "data": net.redis_snapshot(&n)}));
    }
    net.event(json!({"kind": "final", "directed": cfg.directed_pttl, "committed": committed, "clients_done": done.load(Ordering::SeqCst), "nodes": finals}));
    let mut out = head;
    out.extend(net.take_log());
    annotate_restores(&mut out);
    out
}

#[allow(clippy::too_many_arguments)]
async fn run_stale(cfg: &MigCfg, mut w: ClusterWorld, net: Net, head: Vec<Value>, proxies: Vec<String>, ctl: Arc<StaleCtl>, stop: Arc<AtomicBool>,
                   gate: tokio::task::JoinHandle<()>) -> Vec<Value> {
    let key = ctl.key.lock().clone();
    let ks = String::from_utf8_lossy(&key).to_string();
    // readers: GET the key again and again (each in its own task) until one of them is inside the pull path
    // with its RESTORE held by the gate
    let mut readers = vec![];
    let mut n = 0;
    while !ctl.captured.load(Ordering::SeqCst) && n < 400 {
        let net2 = net.clone();
        let proxies2 = proxies.clone();
        let key2 = key.clone();
        let ks2 = ks.clone();
        let c = 100 + n;
        readers.push(tokio::spawn(async move {
            net2.event(json!({"kind": "inv", "client": c, "op": "GET", "key": ks2, "arg": "", "start": proxies2[c % proxies2.len()]}));
            let (r, redirects) = client_op(&net2, &proxies2, c, vec![b"GET".to_vec(), key2]).await;
            net2.event(json!({"kind": "resp", "client": c, "op": "GET", "key": ks2, "result": reply_val(&r), "redirects": redirects}));
        }));
        n += 1;
        tokio::time::sleep(Duration::from_millis(2)).await;
        if n % 5 == 0 {
            w.migration_round("coord1").await;
        }
    }
    let captured = ctl.captured.load(Ordering::SeqCst);
    // let the migration finish, be committed, and the new metadata be installed
    let mut committed = false;
    for _ in 0..400 {
        tokio::time::sleep(Duration::from_millis(20)).await;
        w.migration_round("coord1").await;
        w.sync_round("coord1").await;
        let raw = w.broker.raw_store().await;
        let migrating = raw["clusters"]["c1"]["chunks"].as_array().map(|chs| chs.iter().any(|ch| ch["migrating_slots"].as_array().map(|a| a.iter().any(|h| h.as_array().map(|x| !x.is_empty()).unwrap_or(false))).unwrap_or(false))).unwrap_or(false);
        if !migrating {
            committed = true;
            break;
        }
    }
    w.sync_round("coord1").await;
    net.event(json!({"kind": "note", "what": "stale", "captured": captured, "committed": committed}));
    // the key is deleted through the new owner, and read back
    for (c, name) in [(1usize, "DEL"), (1, "GET")] {
        net.event(json!({"kind": "inv", "client": c, "op": name, "key": ks, "arg": "", "start": proxies[0]}));
        let (r, redirects) = client_op(&net, &proxies, 0, vec![name.as_bytes().to_vec(), key.clone()]).await;
        net.event(json!({"kind": "resp", "client": c, "op": name, "key": ks, "result": reply_val(&r), "redirects": redirects}));
    }
    // now the delayed RESTORE arrives
    ctl.release.store(true, Ordering::SeqCst);
    for h in readers {
        let _ = tokio::time::timeout(Duration::from_secs(100), h).await;
    }
    for _ in 0..20 {
        tokio::time::sleep(Duration::from_millis(10)).await;
    }
    net.event(json!({"kind": "inv", "client": 1, "op": "GET", "key": ks, "arg": "", "start": proxies[0]}));
    let (r, redirects) = client_op(&net, &proxies, 0, vec![b"GET".to_vec(), key.clone()]).await;
    net.event(json!({"kind": "resp", "client": 1, "op": "GET", "key": ks, "result": reply_val(&r), "redirects": redirects}));
    stop.store(true, Ordering::SeqCst);
    net.inner.gated.store(false, Ordering::SeqCst);
    net.inner.pending_notify.notify_one();
    let _ = tokio::time::timeout(Duration::from_secs(10), gate).await;
    let mut finals = vec![];
    let nodes: Vec<String> = net.inner.redis.lock().keys().cloned().collect();
    for n in nodes {
        finals.push(json!({"node": n, "data": net.redis_snapshot(&n)}));
    }
    net.event(json!({"kind": "final", "directed": cfg.directed_pttl, "committed": committed, "clients_done": 1, "nodes": finals}));
    let mut out = head;
    out.extend(net.take_log());
    annotate_restores(&mut out);
    out
}

/// Attach to every RESTORE event the PTTL reply that the source gave for the key (exact integer
/// comparison is done here with i128 because TLC integers are 32-bit).
fn annotate_restores(log: &mut [Value]) {
    use std::collections::HashMap;
    let mut last_pttl: HashMap<String, (String, String)> = HashMap::new(); // key -> (node, raw reply)
    // PTTL replies seen for a key since its last RESTORE: the scan and a pull (or two transfer attempts) can interleave, and the
    // RESTORE of one may follow the PTTL of the other; the pairing is only trusted when all of them agree
    let mut since_restore: HashMap<String, Vec<String>> = HashMap::new();
    for e in log.iter_mut() {
        if e["kind"] != "redis" {
            continue;
        }
        let name = e["cmd"][0].as_str().unwrap_or("").to_uppercase();
        let key = e["cmd"][1].as_str().unwrap_or("").to_string();
        let node = e["node"].as_str().unwrap_or("").to_string();
        if name == "PTTL" {
            let raw = e["reply"]["s"].as_str().unwrap_or("?").to_string();
            since_restore.entry(key.clone()).or_default().push(raw.clone());
            last_pttl.insert(key, (node, raw));
        } else if name == "RESTORE" {
            let seen = since_restore.remove(&key).unwrap_or_default();
            let ambiguous = seen.iter().any(|r| Some(r) != seen.first());
            let ttl_raw = e["cmd"][2].as_str().unwrap_or("?").to_string();
            let kind = |s: &str| -> &'static str {
                match s.parse::<i128>() {
                    Ok(0) => "zero",
                    Ok(-1) => "neg1",
                    Ok(-2) => "neg2",
                    Ok(n) if n > 0 => "pos",
                    Ok(_) => "neg",
                    Err(_) => "nan",
                }
            };
            let (pnode, praw) = match last_pttl.get(&key) {
                Some((n, r)) if *n != node && !ambiguous => (n.clone(), r.clone()),
                _ => (String::new(), "none".to_string()),
            };
            let le = match (ttl_raw.parse::<i128>(), praw.parse::<i128>()) {
                (Ok(a), Ok(b)) => a <= b,
                _ => false,
            };
            e["ttlinfo"] = json!({"ttl_raw": ttl_raw, "ttl_kind": kind(&ttl_raw), "pttl_raw": praw, "pttl_kind": if praw == "none" { "none" } else { kind(&praw) },
                                   "pttl_node": pnode, "ttl_le_pttl": le, "replace": e["cmd"].as_array().map(|a| a.iter().any(|x| x.as_str().map(|s| s.eq_ignore_ascii_case("REPLACE")).unwrap_or(false))).unwrap_or(false)});
        }
    }
}

pub fn run_many<W: Write>(out: &mut W, count: u64, seed: u64, directed: bool, stale: bool) {
    // a fresh runtime every few runs: the background tasks of finished runs (proxies, migrations, replicators) die with their
    // runtime; with one runtime for hundreds of runs a thorough part grew to several GB and the OOM killer took it
    let mk = || tokio::runtime::Builder::new_current_thread().enable_all().start_paused(true).build().expect("rt");
    let mut rt = mk();
    let only: Option<u64> = std::env::var("UVERIF_ONLY").ok().and_then(|v| v.parse().ok());
    for i in 0..count {
        if only.map(|o| o != i).unwrap_or(false) {
            continue;
        }
        if i > 0 && i % 8 == 0 {
            rt = mk();
        }
        let s = seed.wrapping_mul(1_000_003).wrapping_add(i);
        let cfg = MigCfg {
            seed: s,
            conn_num: 1 + (i % 2) as usize,
            scale_in: i % 5 == 4 && !stale,
            ttl_keys: i % 3 == 1 || directed,
            directed_pttl: directed,
            directed_stale: stale,
            clients: if directed { 1 } else { 2 + (i % 2) as usize },
            ops_per_client: if directed { 3 } else { 5 },
            policy: (i % 4) as u8,
            active: std::env::var("UVERIF_ACTIVE").is_ok() || (i % 7 == 3 && !stale && !directed),
        };
        let log = rt.block_on(run_one(&cfg));
        for (n, mut e) in log.into_iter().enumerate() {
            e["seq"] = json!(n + 1);
            writeln!(out, "{}", e).ok();
        }
    }
}
