//! The full in-process stack: real broker + real coordinator components + real proxies + stand-ins.
use crate::brokerdrv;
use crate::simnet::{lossy, resp_json, Net, NetClientFactory};
use futures::{Future, Stream, StreamExt};
use parking_lot::Mutex;
use serde_json::{json, Value};
use std::collections::{HashMap, HashSet};
use std::pin::Pin;
use std::sync::Arc;
use undermoon::broker::MemBrokerService;
use undermoon::common::cluster::{Cluster, ClusterName, MigrationTaskMeta, Proxy};
use undermoon::coordinator::broker::{
    MetaDataBroker, MetaDataBrokerError, MetaManipulationBroker, MetaManipulationBrokerError,
};
use undermoon::coordinator::verif_export::{
    BrokerFailureReporter, BrokerMetaRetriever, BrokerMigrationCommitter, BrokerOrderedProxiesRetriever,
    BrokerProxiesRetriever, BrokerProxyFailureRetriever, CoordinateError, FailureDetector, FailureHandler,
    MigrationStateRespChecker, MigrationStateSynchronizer, ParFailureDetector, ParFailureHandler,
    ParMigrationStateSynchronizer, PingFailureDetector, ProxyMetaRespSender, ProxyMetaRespSynchronizer,
    ProxyMetaSynchronizer, ReplaceNodeHandler,
};
use undermoon::protocol::{Resp, RespVec};
use undermoon::proxy::service::ClusterNodesVersion;

/// What happens to one call crossing the coordinator <-> broker boundary.
#[derive(Clone, Debug, PartialEq)]
pub enum Fault {
    None,
    Drop,      // the call never reaches the callee
    DropReply, // the call is executed, the reply is lost
    Dup,       // the call is executed twice
}

#[derive(Default)]
pub struct FaultPlan {
    /// call index (global counter of coordinator calls) -> fault
    pub at: Mutex<HashMap<u64, Fault>>,
    pub counter: std::sync::atomic::AtomicU64,
    /// abort the current coordinator round when this call index is reached (coordinator crash)
    pub crash_at: Mutex<Option<u64>>,
    pub crashed: std::sync::atomic::AtomicBool,
}

impl FaultPlan {
    pub fn next(&self) -> (u64, Fault) {
        let i = self.counter.fetch_add(1, std::sync::atomic::Ordering::SeqCst) + 1;
        if let Some(c) = *self.crash_at.lock() {
            if i >= c {
                self.crashed.store(true, std::sync::atomic::Ordering::SeqCst);
                return (i, Fault::Drop);
            }
        }
        let f = self.at.lock().get(&i).cloned().unwrap_or(Fault::None);
        (i, f)
    }
}

/// The broker as the coordinator sees it (in-process instead of HTTP, same status mapping as
/// http_meta_broker / http_mani_broker).
pub struct LocalBroker {
    pub svc: Arc<Mutex<Arc<MemBrokerService>>>,
    pub net: Net,
    pub faults: Arc<FaultPlan>,
    pub who: String,
}

impl LocalBroker {
    fn svc(&self) -> Arc<MemBrokerService> {
        self.svc.lock().clone()
    }
    fn log(&self, idx: u64, fault: &Fault, call: &str, arg: Value, res: Value) {
        self.net.event(json!({"kind": "bcall", "who": self.who, "idx": idx, "fault": format!("{:?}", fault), "call": call, "arg": arg, "res": res}));
    }
}

type DStream<'s, T> = Pin<Box<dyn Stream<Item = Result<T, MetaDataBrokerError>> + Send + 's>>;
type DFut<'s, T> = Pin<Box<dyn Future<Output = Result<T, MetaDataBrokerError>> + Send + 's>>;

fn vec_stream<'s, T: Send + 's>(f: impl Future<Output = Result<Vec<T>, MetaDataBrokerError>> + Send + 's) -> DStream<'s, T> {
    Box::pin(
        futures::stream::once(f)
            .map(|r| match r {
                Ok(v) => futures::stream::iter(v.into_iter().map(Ok).collect::<Vec<_>>()),
                Err(e) => futures::stream::iter(vec![Err(e)]),
            })
            .flatten(),
    )
}

impl MetaDataBroker for LocalBroker {
    fn get_cluster_names<'s>(&'s self) -> DStream<'s, ClusterName> {
        vec_stream(async move {
            let (i, f) = self.faults.next();
            if f == Fault::Drop || f == Fault::DropReply {
                self.log(i, &f, "get_cluster_names", json!({}), json!("lost"));
                return Err(MetaDataBrokerError::RequestFailed);
            }
            let r = self.svc().get_cluster_names(None, None).await.map_err(|_| MetaDataBrokerError::InvalidReply);
            self.log(i, &f, "get_cluster_names", json!({}), json!(r.as_ref().map(|v| v.len()).unwrap_or(0)));
            r
        })
    }

    fn get_cluster<'s>(&'s self, name: ClusterName) -> DFut<'s, Option<Cluster>> {
        Box::pin(async move {
            let (i, f) = self.faults.next();
            if f == Fault::Drop || f == Fault::DropReply {
                self.log(i, &f, "get_cluster", json!(name.to_string()), json!("lost"));
                return Err(MetaDataBrokerError::RequestFailed);
            }
            let r = self.svc().get_cluster_by_name(name.as_str()).await.map_err(|_| MetaDataBrokerError::InvalidReply);
            self.log(i, &f, "get_cluster", json!(name.to_string()), json!(r.is_ok()));
            r
        })
    }

    fn get_proxy_addresses<'s>(&'s self) -> DStream<'s, String> {
        vec_stream(async move {
            let (i, f) = self.faults.next();
            if f == Fault::Drop || f == Fault::DropReply {
                self.log(i, &f, "get_proxy_addresses", json!({}), json!("lost"));
                return Err(MetaDataBrokerError::RequestFailed);
            }
            let r = self.svc().get_proxy_addresses(None, None).await.map_err(|_| MetaDataBrokerError::InvalidReply);
            self.log(i, &f, "get_proxy_addresses", json!({}), json!(r.as_ref().map(|v| v.len()).unwrap_or(0)));
            r
        })
    }

    fn get_proxy<'s>(&'s self, address: String) -> DFut<'s, Option<Proxy>> {
        Box::pin(async move {
            let (i, f) = self.faults.next();
            if f == Fault::Drop || f == Fault::DropReply {
                self.log(i, &f, "get_proxy", json!(address), json!({"epoch": -1}));
                return Err(MetaDataBrokerError::RequestFailed);
            }
            let r = self.svc().get_proxy_by_address(&address).await.map_err(|_| MetaDataBrokerError::InvalidReply);
            let ep = r.as_ref().ok().and_then(|p| p.as_ref().map(|p| p.get_epoch())).unwrap_or(0);
            self.log(i, &f, "get_proxy", json!(address), json!({"epoch": ep}));
            r
        })
    }

    fn add_failure<'s>(&'s self, address: String, reporter_id: String) -> DFut<'s, ()> {
        Box::pin(async move {
            let (i, f) = self.faults.next();
            if f == Fault::Drop {
                self.log(i, &f, "add_failure", json!(address), json!("lost"));
                return Err(MetaDataBrokerError::RequestFailed);
            }
            let mut r = self.svc().add_failure(address.clone(), reporter_id.clone()).await;
            if f == Fault::Dup {
                r = self.svc().add_failure(address.clone(), reporter_id).await;
            }
            self.log(i, &f, "add_failure", json!(address), json!(r.is_ok()));
            if f == Fault::DropReply {
                return Err(MetaDataBrokerError::RequestFailed);
            }
            r.map_err(|_| MetaDataBrokerError::InvalidReply)
        })
    }

    fn get_failures<'s>(&'s self) -> DStream<'s, String> {
        vec_stream(async move {
            let (i, f) = self.faults.next();
            if f == Fault::Drop || f == Fault::DropReply {
                self.log(i, &f, "get_failures", json!({}), json!("lost"));
                return Err(MetaDataBrokerError::RequestFailed);
            }
            let r = self.svc().get_failures().await.map_err(|_| MetaDataBrokerError::InvalidReply);
            self.log(i, &f, "get_failures", json!({}), json!(r.as_ref().ok()));
            r
        })
    }

    fn get_failed_proxies<'s>(&'s self) -> DStream<'s, String> {
        vec_stream(async move {
            let (i, f) = self.faults.next();
            if f == Fault::Drop || f == Fault::DropReply {
                self.log(i, &f, "get_failed_proxies", json!({}), json!("lost"));
                return Err(MetaDataBrokerError::RequestFailed);
            }
            let r = self.svc().get_failed_proxies().await.map_err(|_| MetaDataBrokerError::InvalidReply);
            self.log(i, &f, "get_failed_proxies", json!({}), json!(r.as_ref().ok()));
            r
        })
    }
}

impl MetaManipulationBroker for LocalBroker {
    fn replace_proxy<'s>(
        &'s self,
        failed_proxy_address: String,
    ) -> Pin<Box<dyn Future<Output = Result<Option<Proxy>, MetaManipulationBrokerError>> + Send + 's>> {
        Box::pin(async move {
            let (i, f) = self.faults.next();
            if f == Fault::Drop {
                self.log(i, &f, "replace_proxy", json!(failed_proxy_address), json!("lost"));
                return Err(MetaManipulationBrokerError::RequestFailed);
            }
            let mut r = self.svc().replace_failed_proxy(failed_proxy_address.clone()).await;
            if f == Fault::Dup {
                r = self.svc().replace_failed_proxy(failed_proxy_address.clone()).await;
            }
            self.log(i, &f, "replace_proxy", json!(failed_proxy_address),
                     json!(match &r { Ok(_) => "OK".to_string(), Err(e) => e.to_code().to_string() }));
            if f == Fault::DropReply {
                return Err(MetaManipulationBrokerError::RequestFailed);
            }
            match r {
                Ok(p) => Ok(p),
                Err(e) => {
                    // http_mani_broker: 409 -> ResourceNotAvailable, others InvalidReply
                    if e.to_code() == "NO_AVAILABLE_RESOURCE" {
                        Err(MetaManipulationBrokerError::ResourceNotAvailable)
                    } else {
                        Err(MetaManipulationBrokerError::InvalidReply)
                    }
                }
            }
        })
    }

    fn commit_migration<'s>(
        &'s self,
        meta: MigrationTaskMeta,
    ) -> Pin<Box<dyn Future<Output = Result<(), MetaManipulationBrokerError>> + Send + 's>> {
        Box::pin(async move {
            let (i, f) = self.faults.next();
            let desc = brokerdrv::slot_range_json(&meta.slot_range);
            if f == Fault::Drop {
                self.log(i, &f, "commit_migration", desc, json!({"first": "lost", "second": ""}));
                return Err(MetaManipulationBrokerError::RequestFailed);
            }
            let mut r = self.svc().commit_migration(meta.clone()).await;
            let first = match &r { Ok(_) => "OK".to_string(), Err(e) => e.to_code().to_string() };
            let mut second = String::new();
            if f == Fault::Dup {
                r = self.svc().commit_migration(meta.clone()).await;
                second = match &r { Ok(_) => "OK".to_string(), Err(e) => e.to_code().to_string() };
            }
            self.log(i, &f, "commit_migration", desc, json!({"first": first, "second": second}));
            if f == Fault::DropReply {
                return Err(MetaManipulationBrokerError::RequestFailed);
            }
            match r {
                Ok(()) => Ok(()),
                Err(e) => {
                    let code = e.to_code().to_string();
                    // http_mani_broker: success or 404 -> Ok, 409 -> Retry, else InvalidReply
                    if code == "MIGRATION_TASK_NOT_FOUND" || code == "CLUSTER_NOT_FOUND" {
                        Ok(())
                    } else if code == "RETRY" {
                        Err(MetaManipulationBrokerError::Retry)
                    } else {
                        Err(MetaManipulationBrokerError::InvalidReply)
                    }
                }
            }
        })
    }
}

pub struct ClusterWorld {
    pub net: Net,
    pub broker: brokerdrv::World,
    pub svc_cell: Arc<Mutex<Arc<MemBrokerService>>>,
    pub faults: Arc<FaultPlan>,
    pub compress: bool,
    pub active_redirection: bool,
    pub backend_conn_num: usize,
    pub nodes_version: ClusterNodesVersion,
}

async fn drain<'a>(mut s: Pin<Box<dyn Stream<Item = Result<(), CoordinateError>> + Send + 'a>>) -> Vec<String> {
    let mut errs = vec![];
    while let Some(r) = s.next().await {
        if let Err(e) = r {
            errs.push(format!("{:?}", e));
        }
    }
    errs
}

impl ClusterWorld {
    pub fn new(limit: u64, ordered: bool, compress: bool, active_redirection: bool, backend_conn_num: usize, v1: bool) -> Result<Self, String> {
        let broker = brokerdrv::World::new(limit, ordered, 60, 1)?;
        let svc_cell = Arc::new(Mutex::new(broker.svc.clone()));
        Ok(Self {
            net: Net::new(),
            broker,
            svc_cell,
            faults: Arc::new(FaultPlan::default()),
            compress,
            active_redirection,
            backend_conn_num,
            nodes_version: if v1 { ClusterNodesVersion::V1 } else { ClusterNodesVersion::V2 },
        })
    }

    /// keep the coordinator's handle in sync after a broker restart
    pub fn refresh_broker_handle(&self) {
        *self.svc_cell.lock() = self.broker.svc.clone();
    }

    pub fn local_broker(&self, who: &str) -> Arc<LocalBroker> {
        Arc::new(LocalBroker { svc: self.svc_cell.clone(), net: self.net.clone(), faults: self.faults.clone(), who: who.to_string() })
    }

    pub fn client_factory(&self, who: &str) -> Arc<NetClientFactory> {
        Arc::new(NetClientFactory { net: self.net.clone(), from: who.to_string() })
    }

    /// make sure every proxy registered at the broker runs in-process, with its two stand-ins
    pub async fn ensure_proxies(&self) {
        let raw = self.broker.raw_store().await;
        if let Some(m) = raw["all_proxies"].as_object() {
            for (addr, p) in m.iter() {
                for n in p["node_addresses"].as_array().cloned().unwrap_or_default() {
                    if let Some(n) = n.as_str() {
                        self.net.add_redis(n);
                    }
                }
                let exists = self.net.inner.proxies.lock().contains_key(addr);
                if !exists {
                    let cfg = Net::proxy_config(addr, self.active_redirection, self.backend_conn_num, self.nodes_version);
                    self.net.start_proxy(addr, cfg);
                }
            }
        }
    }

    pub fn restart_proxy(&self, addr: &str) {
        let cfg = Net::proxy_config(addr, self.active_redirection, self.backend_conn_num, self.nodes_version);
        self.net.start_proxy(addr, cfg);
        self.net.event(json!({"kind": "restart", "proxy": addr}));
    }

    pub async fn sync_round(&self, who: &str) -> Vec<String> {
        self.net.event(json!({"kind": "round_start", "who": who, "what": "sync"}));
        let db = self.local_broker(who);
        let cf = self.client_factory(who);
        let sync = ProxyMetaRespSynchronizer::new(
            BrokerOrderedProxiesRetriever::new(db.clone()),
            BrokerMetaRetriever::new(db),
            ProxyMetaRespSender::new(cf, self.compress),
        );
        let errs = drain(sync.run()).await;
        self.net.event(json!({"kind": "round", "who": who, "what": "sync", "errors": errs}));
        errs
    }

    pub async fn migration_round(&self, who: &str) -> Vec<String> {
        self.net.event(json!({"kind": "round_start", "who": who, "what": "migration"}));
        let db = self.local_broker(who);
        let cf = self.client_factory(who);
        let sync = ParMigrationStateSynchronizer::new(
            BrokerProxiesRetriever::new(db.clone()),
            MigrationStateRespChecker::new(cf.clone()),
            BrokerMigrationCommitter::new(db.clone()),
            BrokerMetaRetriever::new(db),
            ProxyMetaRespSender::new(cf, self.compress),
        );
        let errs = drain(sync.run()).await;
        self.net.event(json!({"kind": "round", "who": who, "what": "migration", "errors": errs}));
        errs
    }

    pub async fn detect_round(&self, who: &str) -> Vec<String> {
        self.net.event(json!({"kind": "round_start", "who": who, "what": "detect"}));
        let db = self.local_broker(who);
        let cf = self.client_factory(who);
        let det = ParFailureDetector::new(
            BrokerProxiesRetriever::new(db.clone()),
            PingFailureDetector::new(cf),
            BrokerFailureReporter::new(who.to_string(), db),
        );
        let errs = match det.run().await {
            Ok(()) => vec![],
            Err(e) => vec![format!("{:?}", e)],
        };
        self.net.event(json!({"kind": "round", "who": who, "what": "detect", "errors": errs}));
        errs
    }

    pub async fn failover_round(&self, who: &str) -> Vec<String> {
        self.net.event(json!({"kind": "round_start", "who": who, "what": "failover"}));
        let db = self.local_broker(who);
        let h = ParFailureHandler::new(BrokerProxyFailureRetriever::new(db.clone()), ReplaceNodeHandler::new(db));
        let errs = drain(h.run()).await;
        self.net.event(json!({"kind": "round", "who": who, "what": "failover", "errors": errs}));
        errs
    }

    /// UMCTL GETEPOCH of a proxy (0 when unreachable)
    pub async fn proxy_epoch(&self, addr: &str) -> i64 {
        match self.net.proxy_exec(addr, vec![b"UMCTL".to_vec(), b"GETEPOCH".to_vec()]).await {
            Resp::Integer(b) => String::from_utf8_lossy(&b).parse().unwrap_or(-1),
            _ => -1,
        }
    }

    pub async fn hold(&self, subcmds: &[&str]) {
        // make the named switch sub-commands answer "not ready" so that a migration phase is held
        let set: HashSet<String> = subcmds.iter().map(|s| s.to_string()).collect();
        if set.is_empty() {
            *self.net.inner.call_hook.lock() = None;
            return;
        }
        *self.net.inner.call_hook.lock() = Some(Arc::new(move |_to: &str, cmd: &[Vec<u8>]| -> Option<RespVec> {
            if cmd.len() >= 2 && cmd[0].eq_ignore_ascii_case(b"UMCTL") {
                let sub = String::from_utf8_lossy(&cmd[1]).to_uppercase();
                if set.contains(&sub) {
                    return Some(Resp::Error(undermoon::common::response::NOT_READY_FOR_SWITCHING_REPLY.as_bytes().to_vec()));
                }
            }
            None
        }));
    }
}

/// independent CRC16-XMODEM (bitwise), so that key -> slot used by the rigs does not depend on
/// the code under test
pub fn crc16_xmodem(data: &[u8]) -> u16 {
    let mut crc: u16 = 0;
    for b in data {
        crc ^= (*b as u16) << 8;
        for _ in 0..8 {
            if crc & 0x8000 != 0 {
                crc = (crc << 1) ^ 0x1021;
            } else {
                crc <<= 1;
            }
        }
    }
    crc
}

pub fn hash_tag(key: &[u8]) -> &[u8] {
    if let Some(s) = key.iter().position(|b| *b == b'{') {
        if let Some(e) = key[s + 1..].iter().position(|b| *b == b'}') {
            if e > 0 {
                return &key[s + 1..s + 1 + e];
            }
        }
    }
    key
}

pub fn slot_of(key: &[u8]) -> usize {
    (crc16_xmodem(hash_tag(key)) as usize) % 16384
}

/// one key per slot, found by brute force
pub fn keys_for_all_slots() -> Vec<String> {
    let mut out: Vec<Option<String>> = vec![None; 16384];
    let mut found = 0;
    let mut i = 0u64;
    while found < 16384 {
        let k = format!("k{}", i);
        let s = slot_of(k.as_bytes());
        if out[s].is_none() {
            out[s] = Some(k);
            found += 1;
        }
        i += 1;
    }
    out.into_iter().map(|x| x.unwrap_or_default()).collect()
}

pub fn _unused(_: &[Vec<u8>]) -> Vec<String> {
    lossy(&[])
}
pub fn _unused2(r: &RespVec) -> Value {
    resp_json(r)
}
