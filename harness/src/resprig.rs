//! C15 rig: the real RESP decoder / encoder driven over enumerated and sampled inputs.
//! Every line of output is one case: the input bytes and what the real code did with them.
use bytes::BytesMut;
use rand::rngs::StdRng;
use rand::{Rng, SeedableRng};
use serde_json::{json, Value};
use std::io::Write;
use tokio_util::codec::{Decoder, Encoder};
use undermoon::protocol::{
    new_optional_multi_packet_codec, new_simple_packet_codec, Array, BulkStr, OptionalMulti, Resp, RespCodec,
    RespPacket, RespVec,
};

pub fn val_json(r: &RespVec) -> Value {
    let b = |s: &Vec<u8>| Value::Array(s.iter().map(|x| json!(*x)).collect());
    match r {
        Resp::Simple(s) => json!({"t": "simple", "s": b(s)}),
        Resp::Error(s) => json!({"t": "error", "s": b(s)}),
        Resp::Integer(s) => json!({"t": "int", "s": b(s)}),
        Resp::Bulk(BulkStr::Str(s)) => json!({"t": "bulk", "s": b(s)}),
        Resp::Bulk(BulkStr::Nil) => json!({"t": "nilbulk"}),
        Resp::Arr(Array::Nil) => json!({"t": "nilarr"}),
        Resp::Arr(Array::Arr(a)) => json!({"t": "arr", "a": a.iter().map(val_json).collect::<Vec<_>>()}),
    }
}

#[derive(PartialEq, Clone, Debug)]
struct Outcome {
    pkts: Vec<RespVec>,
    fwd_ok: bool, // every packet's forwarded bytes equal the input slice it was decoded from
    end: &'static str,
    rest: usize,
}

/// feed `input` cut at `cuts` (sorted positions) into the real simple codec
fn decode_stream(input: &[u8], cuts: &[usize]) -> Outcome {
    let (enc, dec) = new_simple_packet_codec::<RespPacket, RespPacket>();
    let mut codec = RespCodec::new(enc, dec);
    let mut buf = BytesMut::new();
    let mut pkts = vec![];
    let mut fwd_ok = true;
    let mut consumed = 0usize;
    let mut pos = 0usize;
    let mut pieces: Vec<&[u8]> = vec![];
    for c in cuts.iter().chain(std::iter::once(&input.len())) {
        pieces.push(&input[pos..*c]);
        pos = *c;
    }
    let mut end = "incomplete";
    'outer: for piece in pieces {
        buf.extend_from_slice(piece);
        loop {
            match codec.decode(&mut buf) {
                Ok(Some(p)) => {
                    // the bytes a proxy would forward for this packet
                    let mut out = BytesMut::new();
                    let v = p.to_resp_vec();
                    let _ = codec.encode(p, &mut out);
                    let n = out.len();
                    if consumed + n > input.len() || out[..] != input[consumed..consumed + n] {
                        fwd_ok = false;
                    }
                    consumed = input.len().min(consumed + n);
                    pkts.push(v);
                }
                Ok(None) => break,
                Err(_) => {
                    end = "error";
                    break 'outer;
                }
            }
        }
    }
    Outcome { pkts, fwd_ok, end, rest: buf.len() }
}

fn all_splits_agree(input: &[u8], whole: &Outcome, max_exhaustive: usize, rng: &mut StdRng) -> (usize, Option<Vec<usize>>) {
    let n = input.len();
    let mut tried = 0;
    let mut bad = None;
    if n <= 1 {
        return (0, None);
    }
    let check = |cuts: &[usize]| -> bool {
        let o = decode_stream(input, cuts);
        // an error ends the stream: the unconsumed remainder depends on how much was delivered
        if whole.end == "error" {
            o.pkts == whole.pkts && o.end == whole.end && o.fwd_ok == whole.fwd_ok
        } else {
            o == *whole
        }
    };
    if n - 1 <= max_exhaustive {
        for mask in 1u32..(1u32 << (n - 1)) {
            let cuts: Vec<usize> = (1..n).filter(|i| mask & (1 << (i - 1)) != 0).collect();
            tried += 1;
            if !check(&cuts) && bad.is_none() {
                bad = Some(cuts);
            }
        }
    } else {
        for _ in 0..24 {
            let k = rng.gen_range(1..=3.min(n - 1));
            let mut cuts: Vec<usize> = (0..k).map(|_| rng.gen_range(1..n)).collect();
            cuts.sort();
            cuts.dedup();
            tried += 1;
            if !check(&cuts) && bad.is_none() {
                bad = Some(cuts);
            }
        }
        // byte-by-byte
        let cuts: Vec<usize> = (1..n).collect();
        tried += 1;
        if !check(&cuts) && bad.is_none() {
            bad = Some(cuts);
        }
    }
    (tried, bad)
}

fn case_line(kind: &str, input: &[u8], rng: &mut StdRng, extra: Value) -> Value {
    let r = std::panic::catch_unwind(std::panic::AssertUnwindSafe(|| {
        let whole = decode_stream(input, &[]);
        let mut rng2 = StdRng::seed_from_u64(rng.gen());
        let (tried, bad) = all_splits_agree(input, &whole, 9, &mut rng2);
        (whole, tried, bad)
    }));
    match r {
        Ok((whole, tried, bad)) => json!({
            "kind": kind, "in": input, "pkts": whole.pkts.iter().map(val_json).collect::<Vec<_>>(),
            "end": whole.end, "rest": whole.rest, "fwd": whole.fwd_ok, "splits": tried,
            "split_ok": bad.is_none(), "bad_split": bad.unwrap_or_default(), "panic": false, "x": extra,
        }),
        Err(_) => json!({"kind": kind, "in": input, "pkts": [], "end": "panic", "rest": 0, "fwd": true, "splits": 0,
                         "split_ok": true, "bad_split": [], "panic": true, "x": extra}),
    }
}

const ALPHABET: [u8; 10] = [b'*', b'$', b'+', b':', b'-', b'1', b'2', b'\r', b'\n', b'a'];

fn gen_leaf(rng: &mut StdRng) -> RespVec {
    let payloads: [&[u8]; 9] = [b"", b"a", b"\r", b"\n", b"\r\n", b"a\r\nb", b"$1", b"*2\r\n", b"-1"];
    let lines: [&[u8]; 6] = [b"", b"OK", b"a", b"12", b"-1", b"ERR x y"];
    match rng.gen_range(0..7) {
        0 => Resp::Simple(lines[rng.gen_range(0..lines.len())].to_vec()),
        1 => Resp::Error(lines[rng.gen_range(0..lines.len())].to_vec()),
        2 => Resp::Integer([b"0".as_ref(), b"-1", b"12", b"9223372036854775807"][rng.gen_range(0..4)].to_vec()),
        3 | 4 => {
            if rng.gen_bool(0.2) {
                let n = rng.gen_range(0..40);
                Resp::Bulk(BulkStr::Str((0..n).map(|_| rng.gen::<u8>()).collect()))
            } else {
                Resp::Bulk(BulkStr::Str(payloads[rng.gen_range(0..payloads.len())].to_vec()))
            }
        }
        5 => Resp::Bulk(BulkStr::Nil),
        _ => Resp::Arr(Array::Nil),
    }
}

fn gen_value(rng: &mut StdRng, depth: usize) -> RespVec {
    if depth == 0 || rng.gen_bool(0.45) {
        gen_leaf(rng)
    } else {
        let n = rng.gen_range(0..4);
        Resp::Arr(Array::Arr((0..n).map(|_| gen_value(rng, depth - 1)).collect()))
    }
}

fn enc_real(v: &RespVec) -> Vec<u8> {
    // the encoder path a proxy uses for packets it built itself
    let (enc, dec) = new_simple_packet_codec::<RespPacket, RespPacket>();
    let mut codec = RespCodec::new(enc, dec);
    let mut out = BytesMut::new();
    let _ = codec.encode(RespPacket::Data(v.clone()), &mut out);
    out.to_vec()
}

/// pipeline through the optional-multi codec: groups of packets announced by encoder-side hints
fn multi_case(vals: &[RespVec], groups: &[usize], cuts: &[usize]) -> Value {
    let (mut enc, mut dec) = new_optional_multi_packet_codec::<RespVec, RespVec>();
    use undermoon::protocol::{PacketDecoder, PacketEncoder};
    let mut wire: Vec<u8> = vec![];
    for v in vals {
        wire.extend(enc_real(v));
    }
    let mut buf = BytesMut::new();
    let mut got: Vec<Value> = vec![];
    let mut pos = 0;
    let mut gi = 0;
    let mut vi = 0;
    let mut status = "ok";
    let mut pieces: Vec<(usize, usize)> = vec![];
    for c in cuts.iter().chain(std::iter::once(&wire.len())) {
        pieces.push((pos, *c));
        pos = *c;
    }
    // announce the first group
    let mut announce = |enc: &mut undermoon::protocol::OptionalMultiPacketEncoder<RespVec>, gi: usize, vi: usize| -> bool {
        if gi >= groups.len() {
            return false;
        }
        let g = groups[gi];
        let pkt = if g == 0 {
            OptionalMulti::Single(vals[vi].clone())
        } else {
            OptionalMulti::Multi(vals[vi..vi + g].to_vec())
        };
        enc.encode(pkt, |_| {}).is_ok()
    };
    let mut announced = announce(&mut enc, gi, vi);
    for (a, b) in pieces {
        buf.extend_from_slice(&wire[a..b]);
        loop {
            if !announced {
                break;
            }
            match dec.decode(&mut buf) {
                Ok(Some(p)) => {
                    let g = groups[gi];
                    match p {
                        OptionalMulti::Single(v) => got.push(json!({"g": 0, "v": [val_json(&v)]})),
                        OptionalMulti::Multi(vs) => got.push(json!({"g": vs.len(), "v": vs.iter().map(val_json).collect::<Vec<_>>()})),
                    }
                    vi += if g == 0 { 1 } else { g };
                    gi += 1;
                    announced = announce(&mut enc, gi, vi);
                }
                Ok(None) => break,
                Err(_) => {
                    status = "error";
                    break;
                }
            }
        }
    }
    json!({"kind": "multi", "vals": vals.iter().map(val_json).collect::<Vec<_>>(), "groups": groups, "cuts": cuts,
           "wire": wire, "got": got, "status": status, "rest": buf.len(), "done": gi == groups.len()})
}

pub fn run<W: Write>(out: &mut W, mode: &str, maxlen: usize, count: u64, seed: u64, part: u64, parts: u64) {
    let mut rng = StdRng::seed_from_u64(seed);
    match mode {
        "bytes" => {
            // every byte string of length 1..=maxlen over the hostile alphabet (this part's share)
            let mut idx: u64 = 0;
            for len in 1..=maxlen {
                let total = (ALPHABET.len() as u64).pow(len as u32);
                for code in 0..total {
                    idx += 1;
                    if idx % parts != part {
                        continue;
                    }
                    let mut s = Vec::with_capacity(len);
                    let mut c = code;
                    for _ in 0..len {
                        s.push(ALPHABET[(c % ALPHABET.len() as u64) as usize]);
                        c /= ALPHABET.len() as u64;
                    }
                    writeln!(out, "{}", case_line("bytes", &s, &mut rng, json!({}))).ok();
                }
            }
        }
        "values" => {
            for i in 0..count {
                let v = gen_value(&mut rng, 3);
                let enc = enc_real(&v);
                let mut line = case_line("value", &enc, &mut rng, json!({}));
                line["val"] = val_json(&v);
                writeln!(out, "{}", line).ok();
                // a pipeline of several values
                if i % 3 == 0 {
                    let vs: Vec<RespVec> = (0..rng.gen_range(2..5)).map(|_| gen_value(&mut rng, 2)).collect();
                    let mut wire = vec![];
                    for v in vs.iter() {
                        wire.extend(enc_real(v));
                    }
                    let mut line = case_line("pipeline", &wire, &mut rng, json!({}));
                    line["vals"] = Value::Array(vs.iter().map(val_json).collect());
                    writeln!(out, "{}", line).ok();
                }
                // a corrupted encoding: truncation, byte deletion or byte replacement
                if i % 2 == 0 && !enc.is_empty() {
                    let mut m = enc.clone();
                    let p = rng.gen_range(0..m.len());
                    match rng.gen_range(0..3) {
                        0 => m.truncate(p),
                        1 => {
                            m.remove(p);
                        }
                        _ => m[p] = ALPHABET[rng.gen_range(0..ALPHABET.len())],
                    }
                    if m.len() <= 400 {
                        writeln!(out, "{}", case_line("mutated", &m, &mut rng, json!({}))).ok();
                    }
                }
                // optional-multi codec
                if i % 4 == 0 {
                    let n = rng.gen_range(1..6);
                    let vs: Vec<RespVec> = (0..n).map(|_| gen_value(&mut rng, 1)).collect();
                    let mut groups = vec![];
                    let mut left = n;
                    while left > 0 {
                        let g = if rng.gen_bool(0.4) { 0 } else { rng.gen_range(1..=left.min(3)) };
                        groups.push(g);
                        left -= if g == 0 { 1 } else { g };
                    }
                    let wl: usize = vs.iter().map(|v| enc_real(v).len()).sum();
                    let mut cuts: Vec<usize> = (0..rng.gen_range(0..4)).map(|_| rng.gen_range(0..=wl)).collect();
                    cuts.sort();
                    cuts.dedup();
                    let cuts: Vec<usize> = cuts.into_iter().filter(|c| *c > 0 && *c < wl).collect();
                    writeln!(out, "{}", multi_case(&vs, &groups, &cuts)).ok();
                }
            }
        }
        _ => {}
    }
}
