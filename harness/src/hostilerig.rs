//! C16 rig: hostile client input against a real proxy server running in a CHILD PROCESS (so that aborts,
//! stack overflows and runaway loops are observable from outside).
//!
//! `proxy-child` runs `ServerProxyService::run` exactly like src/bin/server_proxy.rs does, with a panic hook
//! that reports every panic on stderr.  `hostile-runs` spawns it, feeds one input per case on a fresh
//! connection, and records: what the connection did (reply / close / nothing), how long it took, whether a
//! second connection is still served, whether the process is alive, panics, and the peak resident memory
//! of the child around the case.
use std::io::Write;
use std::num::NonZeroUsize;
use std::process::{Child, Command, Stdio};
use std::sync::atomic::{AtomicI64, AtomicU64};
use std::sync::Arc;
use std::time::{Duration, Instant};

use arc_swap::ArcSwap;
use futures::channel::mpsc;
use rand::rngs::StdRng;
use rand::{Rng, SeedableRng};
use serde_json::{json, Value};

use undermoon::common::batch::BatchStrategy;
use undermoon::common::track::TrackedFutureRegistry;
use undermoon::protocol::SimpleRedisClientFactory;
use undermoon::proxy::backend::DefaultConnFactory;
use undermoon::proxy::executor::SharedForwardHandler;
use undermoon::proxy::manager::MetaMap;
use undermoon::proxy::service::{ClusterNodesVersion, ServerProxyConfig, ServerProxyService};
use undermoon::proxy::slowlog::SlowRequestLogger;

// ---------------------------------------------------------------------------------------------
// the child: a real proxy server
// ---------------------------------------------------------------------------------------------

pub fn proxy_child(port: u16, threads: usize) -> i32 {
    std::panic::set_hook(Box::new(|info| {
        let loc = info.location().map(|l| format!("{}:{}", l.file(), l.line())).unwrap_or_default();
        eprintln!("UVERIF-PANIC {}", loc);
    }));
    let addr = format!("127.0.0.1:{}", port);
    let config = Arc::new(ServerProxyConfig {
        address: addr.clone(),
        announce_address: addr.clone(),
        announce_host: "127.0.0.1".to_string(),
        slowlog_len: NonZeroUsize::new(16).expect("nz"),
        slowlog_log_slower_than: AtomicI64::new(-1),
        slowlog_sample_rate: AtomicU64::new(1),
        thread_number: NonZeroUsize::new(threads.max(1)).expect("nz"),
        backend_conn_num: NonZeroUsize::new(1).expect("nz"),
        active_redirection: false,
        max_redirections: None,
        default_redirection_address: None,
        backend_batch_strategy: BatchStrategy::Disabled,
        backend_flush_size: NonZeroUsize::new(1024).expect("nz"),
        backend_low_flush_interval: Duration::from_nanos(200_000),
        backend_high_flush_interval: Duration::from_nanos(800_000),
        session_timeout: None,
        backend_timeout: Duration::from_millis(500),
        password: None,
        command_cluster_nodes_version: ClusterNodesVersion::V1,
    });
    let client_factory = SimpleRedisClientFactory::new(Duration::from_secs(1));
    let slow = Arc::new(SlowRequestLogger::new(config.clone()));
    let meta_map = Arc::new(ArcSwap::new(Arc::new(MetaMap::empty())));
    let registry = Arc::new(TrackedFutureRegistry::default());
    let (stop_tx, stop_rx) = mpsc::unbounded();
    let handler = SharedForwardHandler::new(config.clone(), Arc::new(client_factory), slow.clone(), meta_map, Arc::new(DefaultConnFactory::default()), registry.clone(), stop_tx);
    let server = ServerProxyService::new(config.clone(), handler, slow, registry);
    let runtime = tokio::runtime::Builder::new_multi_thread().worker_threads(config.thread_number.get()).enable_all().build().expect("rt");
    match runtime.block_on(server.run(stop_rx)) {
        Ok(()) => 0,
        Err(e) => {
            eprintln!("UVERIF-SERVER-ERROR {}", e);
            3
        }
    }
}

// ---------------------------------------------------------------------------------------------
// the driver
// ---------------------------------------------------------------------------------------------

fn enc(parts: &[Vec<u8>]) -> Vec<u8> {
    let mut out = format!("*{}\r\n", parts.len()).into_bytes();
    for p in parts {
        out.extend_from_slice(format!("${}\r\n", p.len()).as_bytes());
        out.extend_from_slice(p);
        out.extend_from_slice(b"\r\n");
    }
    out
}

struct ChildProxy {
    child: Child,
    port: u16,
    errfile: String,
    err_off: u64,
}

/// user + system CPU time of the process so far, in ms (clock ticks are 10 ms on Linux)
fn proc_cpu_ms(pid: u32) -> i64 {
    let s = std::fs::read_to_string(format!("/proc/{}/stat", pid)).unwrap_or_default();
    // the command name (field 2) may contain spaces: count from the closing parenthesis
    let rest = match s.rfind(')') {
        Some(i) => s[i + 1..].to_string(),
        None => return -1,
    };
    let f: Vec<&str> = rest.split_whitespace().collect();
    // after ')' the fields start at #3 (state): utime is #14, stime #15
    let ut: i64 = f.get(11).and_then(|x| x.parse().ok()).unwrap_or(0);
    let st: i64 = f.get(12).and_then(|x| x.parse().ok()).unwrap_or(0);
    (ut + st) * 10
}

/// CPU time a request of `bytes` bytes may consume (generous: the monitor is about unbounded work)
fn cpu_budget_ms(bytes: usize) -> i64 {
    3000 + (bytes as i64 / 1024) * 30
}

fn proc_kb(pid: u32, field: &str) -> i64 {
    let s = std::fs::read_to_string(format!("/proc/{}/status", pid)).unwrap_or_default();
    for l in s.lines() {
        if let Some(rest) = l.strip_prefix(field) {
            return rest.trim_start_matches(':').trim().trim_end_matches("kB").trim().parse().unwrap_or(-1);
        }
    }
    -1
}

impl ChildProxy {
    fn spawn(port: u16, errfile: &str, threads: usize) -> Option<ChildProxy> {
        let exe = std::env::current_exe().ok()?;
        let f = std::fs::OpenOptions::new().create(true).append(true).open(errfile).ok()?;
        let child = Command::new(exe)
            .args(["proxy-child", "--port", &port.to_string(), "--threads", &threads.to_string()])
            .stdin(Stdio::null())
            .stdout(Stdio::null())
            .stderr(Stdio::from(f))
            .spawn()
            .ok()?;
        let off = std::fs::metadata(errfile).map(|m| m.len()).unwrap_or(0);
        let mut p = ChildProxy { child, port, errfile: errfile.to_string(), err_off: off };
        for _ in 0..600 {
            if std::net::TcpStream::connect(("127.0.0.1", port)).is_ok() {
                return Some(p);
            }
            if !p.alive() {
                return None;
            }
            std::thread::sleep(Duration::from_millis(10));
        }
        let _ = p.child.kill();
        None
    }

    fn alive(&mut self) -> bool {
        matches!(self.child.try_wait(), Ok(None))
    }

    fn exit_desc(&mut self) -> String {
        match self.child.try_wait() {
            Ok(Some(st)) => {
                use std::os::unix::process::ExitStatusExt;
                match st.signal() {
                    Some(sig) => format!("signal:{}", sig),
                    None => format!("exit:{}", st.code().unwrap_or(-1)),
                }
            }
            _ => "running".into(),
        }
    }

    fn new_panics(&mut self) -> Vec<String> {
        use std::io::{Read, Seek, SeekFrom};
        let mut out = vec![];
        if let Ok(mut f) = std::fs::File::open(&self.errfile) {
            if f.seek(SeekFrom::Start(self.err_off)).is_ok() {
                let mut s = String::new();
                let _ = f.read_to_string(&mut s);
                self.err_off += s.len() as u64;
                for l in s.lines() {
                    if let Some(r) = l.strip_prefix("UVERIF-PANIC ") {
                        out.push(r.to_string());
                    } else if l.contains("overflowed its stack") || l.contains("memory allocation of") || l.contains("SIGABRT") {
                        out.push(l.chars().take(120).collect());
                    }
                }
            }
        }
        out
    }

    fn reset_peak(&self) {
        let _ = std::fs::write(format!("/proc/{}/clear_refs", self.child.id()), "5");
    }

    fn kill(&mut self) {
        let _ = self.child.kill();
        let _ = self.child.wait();
    }
}

/// what the hostile connection did within the deadline
fn exchange(port: u16, input: &[u8], deadline: Duration, linger: Duration) -> (String, u128, usize) {
    exchange_grace(port, input, deadline, linger, Duration::from_millis(0), &|| true)
}

/// like `exchange`; when nothing arrived within `deadline` keep waiting up to `grace` longer (the machine may just be
/// busy), polling `give_up` twice a second (true = stop waiting: the verdict is already clear from the CPU time used)
fn exchange_grace(port: u16, input: &[u8], deadline: Duration, linger: Duration, grace: Duration, give_up: &dyn Fn() -> bool) -> (String, u128, usize) {
    use std::io::Read;
    let t0 = Instant::now();
    let mut sock = match std::net::TcpStream::connect(("127.0.0.1", port)) {
        Ok(s) => s,
        Err(_) => return ("refused".into(), 0, 0),
    };
    sock.set_nodelay(true).ok();
    sock.set_write_timeout(Some(deadline)).ok();
    // large inputs: the proxy may close while we are still writing
    let mut werr = false;
    for chunk in input.chunks(1 << 16) {
        if sock.write_all(chunk).is_err() {
            werr = true;
            break;
        }
    }
    let _ = sock.flush();
    let mut got = 0usize;
    let mut buf = [0u8; 4096];
    let mut outcome = "nothing".to_string();
    let mut first_ms = 0u128;
    let end = Instant::now() + deadline;
    let hard_end = end + grace;
    loop {
        let now = Instant::now();
        let wait = if got > 0 {
            linger
        } else if now < end {
            end - now
        } else if now < hard_end && !give_up() {
            (hard_end - now).min(Duration::from_millis(500))
        } else {
            break;
        };
        sock.set_read_timeout(Some(wait.max(Duration::from_millis(1)))).ok();
        match sock.read(&mut buf) {
            Ok(0) => {
                if got == 0 {
                    outcome = "closed".into();
                    first_ms = t0.elapsed().as_millis();
                }
                break;
            }
            Ok(k) => {
                if got == 0 {
                    outcome = "reply".into();
                    first_ms = t0.elapsed().as_millis();
                }
                got += k;
            }
            Err(e) => {
                use std::io::ErrorKind::*;
                match e.kind() {
                    WouldBlock | TimedOut => {
                        if got > 0 {
                            break;
                        }
                        continue; // the loop head decides whether the deadline / grace period is over
                    }
                    _ => {
                        if got == 0 {
                            outcome = "closed".into();
                            first_ms = t0.elapsed().as_millis();
                        }
                        break;
                    }
                }
            }
        }
    }
    if outcome == "nothing" {
        first_ms = t0.elapsed().as_millis();
        if werr {
            outcome = "closed".into();
        }
    }
    (outcome, first_ms, got)
}

fn probe(port: u16, deadline: Duration) -> (String, u128) {
    let t0 = Instant::now();
    let (o, _, _) = exchange(port, b"*1\r\n$4\r\nPING\r\n", deadline, Duration::from_millis(1));
    (o, t0.elapsed().as_millis())
}

pub struct Case {
    pub family: String,
    pub desc: String,
    pub input: Vec<u8>,
    /// the input contains at least one complete RESP request (so the proxy owes a reply or a close)
    pub complete: bool,
    /// the case may install metadata: the baseline metadata is forced back afterwards
    pub restore: bool,
}

const EXTREME: &[&[u8]] = &[
    b"", b"0", b"1", b"-1", b"2", b"255", b"65536", b"2147483647", b"2147483648", b"4294967295", b"4294967296", b"9223372036854775807", b"9223372036854775808",
    b"18446744073709551615", b"18446744073709551616", b"-9223372036854775808", b"-9223372036854775809", b"1e400", b"NaN", b"inf", b"0x10", b" 1", b"1 ",
    b"\xff\xfe\x00\x80", b"\r\n", b"*", b"$-1", b"a", b"{", b"{}", b"}{", b"0-16383", b"16384", b"127.0.0.1:1", b"localhost:99999", b"v2", b"FORCE", b"NOFLAG", b"PEER", b"CONFIG",
];

const COMMANDS: &[&str] = &[
    "PING", "INFO", "AUTH", "QUIT", "ECHO", "SELECT", "UMFORWARD", "UMSYNC", "CLUSTER", "CONFIG", "COMMAND", "ASKING", "HELLO", "GET", "SET", "MGET", "MSET", "MSETNX", "DEL", "EXISTS",
    "EVAL", "EVALSHA", "BLPOP", "BRPOP", "BRPOPLPUSH", "BZPOPMAX", "BZPOPMIN", "SETEX", "PSETEX", "SETNX", "GETSET", "APPEND", "SETRANGE", "GETRANGE", "SUBSTR", "INCRBYFLOAT", "EXPIRE",
    "UNLINK", "RENAME", "RPOPLPUSH", "SMOVE", "BITOP", "DUMP", "RESTORE", "KEYS", "SCAN", "SUBSCRIBE", "MULTI", "EXEC", "WATCH", "XYZZY", "",
];

const UMCTL_SUBS: &[&str] = &[
    "LISTCLUSTER", "SETCLUSTER", "SETREPL", "INFO", "INFOREPL", "INFOMGR", "SLOWLOG", "DEBUG", "STATS", "GETEPOCH", "READY", "TMPSWITCH", "PRECHECK", "PRESWITCH", "FINALSWITCH", "XYZZY", "",
];
const CLUSTER_SUBS: &[&str] = &["NODES", "SLOTS", "KEYSLOT", "INFO", "COUNTKEYSINSLOT", "XYZZY"];
const CONFIG_SUBS: &[&str] = &["GET", "SET", "XYZZY"];

fn b(s: &str) -> Vec<u8> {
    s.as_bytes().to_vec()
}

/// byte-level hostile inputs (not produced by the RESP encoder)
pub fn byte_cases() -> Vec<Case> {
    let mut v = vec![];
    let mut add = |desc: &str, input: Vec<u8>, complete: bool| v.push(Case { family: "bytes".into(), desc: desc.to_string(), input, complete, restore: false });
    for n in ["1000", "100000", "16777216", "1073741824", "4294967296", "99999999999", "1152921504606846976", "9223372036854775807", "9223372036854775808", "18446744073709551615", "-2", "-9223372036854775808"] {
        add(&format!("array header *{} then nothing", n), format!("*{}\r\n", n).into_bytes(), false);
        add(&format!("array header *{} then one element", n), format!("*{}\r\n$4\r\nPING\r\n", n).into_bytes(), false);
        add(&format!("bulk header ${} then few bytes", n), format!("*1\r\n${}\r\nabc", n).into_bytes(), false);
        add(&format!("nested array header *1 *{}", n), format!("*1\r\n*{}\r\n", n).into_bytes(), false);
        add(&format!("command with bulk ${} inside", n), format!("*2\r\n$3\r\nGET\r\n${}\r\nk\r\n", n).into_bytes(), false);
    }
    for depth in [10usize, 1000, 20000, 200000, 2000000] {
        let mut s = Vec::with_capacity(depth * 4 + 16);
        for _ in 0..depth {
            s.extend_from_slice(b"*1\r\n");
        }
        add(&format!("nesting depth {} unterminated", depth), s.clone(), false);
        s.extend_from_slice(b"$4\r\nPING\r\n");
        add(&format!("nesting depth {} terminated", depth), s, true);
    }
    for (d, bytes) in [
        ("empty array", b"*0\r\n".to_vec()),
        ("nil array", b"*-1\r\n".to_vec()),
        ("nil bulk as command", b"$-1\r\n".to_vec()),
        ("simple string as command", b"+PING\r\n".to_vec()),
        ("integer as command", b":1\r\n".to_vec()),
        ("error as command", b"-ERR\r\n".to_vec()),
        ("inline command", b"PING\r\n".to_vec()),
        ("array of nil", b"*1\r\n$-1\r\n".to_vec()),
        ("array of integer", b"*1\r\n:1\r\n".to_vec()),
        ("array of arrays", b"*2\r\n*1\r\n$3\r\nGET\r\n*1\r\n$1\r\nk\r\n".to_vec()),
        ("binary junk", vec![0u8, 255, 254, 1, 2, 3, 13, 10, 13, 10]),
        ("only CRLFs", b"\r\n\r\n\r\n\r\n".to_vec()),
        ("http request", b"GET / HTTP/1.1\r\nHost: x\r\n\r\n".to_vec()),
        ("empty command name", b"*1\r\n$0\r\n\r\n".to_vec()),
    ] {
        add(d, bytes, true);
    }
    for (d, bytes) in [
        ("truncated header", b"*2\r\n$3\r\nGE".to_vec()),
        ("truncated length", b"*2\r\n$".to_vec()),
        ("lone star", b"*".to_vec()),
        ("lone CR", b"*1\r".to_vec()),
        ("nothing", b"".to_vec()),
    ] {
        add(d, bytes, false);
    }
    // big well-formed payloads: memory must stay proportional
    for size in [1usize << 16, 1 << 20, 1 << 23] {
        add(&format!("ECHO of {} bytes", size), enc(&[b("ECHO"), vec![b'x'; size]]), true);
        add(&format!("GET with key of {} bytes", size), enc(&[b("GET"), vec![b'k'; size]]), true);
        let many: Vec<Vec<u8>> = std::iter::once(b("MGET")).chain((0..size / 16).map(|i| format!("k{}", i).into_bytes())).collect();
        add(&format!("MGET with {} keys", size / 16), enc(&many), true);
        let mut pipe = vec![];
        for _ in 0..size / 16 {
            pipe.extend_from_slice(b"*1\r\n$4\r\nPING\r\n");
        }
        add(&format!("pipeline of {} PINGs", size / 16), pipe, true);
    }
    v
}

/// well-formed commands with extreme arguments
pub fn cmd_cases(seed: u64, random_count: usize) -> Vec<Case> {
    let mut v = vec![];
    let mut add = |parts: Vec<Vec<u8>>| {
        let desc = parts.iter().map(|p| String::from_utf8_lossy(&p[..p.len().min(24)]).to_string()).collect::<Vec<_>>().join(" ");
        v.push(Case { family: "cmd".into(), desc, input: enc(&parts), complete: true, restore: false });
    };
    // every command x arity 0..3 with a fixed filler, then every (command, position, extreme value)
    for c in COMMANDS {
        for arity in 0..=4 {
            let mut parts = vec![b(c)];
            for i in 0..arity {
                parts.push(format!("a{}", i).into_bytes());
            }
            add(parts);
        }
        for pos in 1..=3 {
            for x in EXTREME {
                let mut parts = vec![b(c), b("k"), b("1"), b("k2")];
                parts[pos] = x.to_vec();
                add(parts);
            }
        }
    }
    for (name, subs) in [("UMCTL", UMCTL_SUBS), ("CLUSTER", CLUSTER_SUBS), ("CONFIG", CONFIG_SUBS)] {
        for s in subs {
            for arity in 0..=4 {
                let mut parts = vec![b(name), b(s)];
                for i in 0..arity {
                    parts.push(format!("a{}", i).into_bytes());
                }
                add(parts);
            }
            for pos in 2..=5 {
                for x in EXTREME {
                    let mut parts = vec![b(name), b(s), b("v2"), b("1"), b("NOFLAG"), b("db")];
                    parts[pos] = x.to_vec();
                    add(parts);
                }
            }
        }
    }
    // EVAL numkeys, blocking timeouts, UMFORWARD redirection counters
    for x in EXTREME {
        add(vec![b("EVAL"), b("return 1"), x.to_vec()]);
        add(vec![b("EVAL"), b("return 1"), x.to_vec(), b("k")]);
        add(vec![b("EVALSHA"), b("abc"), x.to_vec(), b("k"), b("k2")]);
        add(vec![b("BLPOP"), b("k"), x.to_vec()]);
        add(vec![b("BRPOPLPUSH"), b("k"), b("k2"), x.to_vec()]);
        add(vec![b("UMFORWARD"), x.to_vec(), b("GET"), b("k")]);
        add(vec![b("UMFORWARD"), x.to_vec()]);
        add(vec![b("UMFORWARD"), b("1"), b("UMFORWARD"), x.to_vec(), b("GET"), b("k")]);
        add(vec![b("UMSYNC"), x.to_vec(), b("k")]);
        add(vec![b("SELECT"), x.to_vec()]);
        add(vec![b("AUTH"), x.to_vec()]);
        add(vec![b("HELLO"), x.to_vec()]);
        add(vec![b("UMCTL"), b("SETCLUSTER"), b("v2"), x.to_vec(), b("NOFLAG"), b("db"), b("127.0.0.1:7001"), b("1"), b("0-16383")]);
        add(vec![b("UMCTL"), b("SETCLUSTER"), b("v2"), b("9"), b("NOFLAG"), b("db"), b("127.0.0.1:7001"), x.to_vec(), b("0-16383")]);
        add(vec![b("UMCTL"), b("SETCLUSTER"), b("v2"), b("9"), b("NOFLAG"), b("db"), b("127.0.0.1:7001"), b("1"), x.to_vec()]);
        add(vec![b("UMCTL"), b("SETCLUSTER"), b("v2"), b("9"), b("COMPRESS"), b("db"), x.to_vec()]);
        add(vec![b("UMCTL"), b("SETREPL"), x.to_vec(), b("NOFLAG"), b("master"), b("127.0.0.1:7001"), b("1"), b("127.0.0.1:7002"), b("127.0.0.1:6000")]);
        add(vec![b("UMCTL"), b("SETREPL"), b("9"), b("NOFLAG"), b("master"), b("127.0.0.1:7001"), x.to_vec(), b("127.0.0.1:7002"), b("127.0.0.1:6000")]);
        add(vec![b("UMCTL"), b("SLOWLOG"), b("GET"), x.to_vec()]);
        add(vec![b("UMCTL"), b("TMPSWITCH"), x.to_vec(), b("NOFLAG"), b("db"), b("0-100"), b("1"), b("127.0.0.1:1"), b("127.0.0.1:2"), b("127.0.0.1:3"), b("127.0.0.1:4")]);
        add(vec![b("CLUSTER"), b("KEYSLOT"), x.to_vec()]);
        add(vec![b("CONFIG"), b("SET"), b("slowlog_log_slower_than"), x.to_vec()]);
        add(vec![b("CONFIG"), b("SET"), b("slowlog_sample_rate"), x.to_vec()]);
    }
    // structured control-plane messages with extreme numbers INSIDE composite tokens (slot ranges, counts, addresses,
    // migration tags); FORCE so that the epoch gate does not stop them before the metadata is processed
    let mut vs: Vec<Case> = vec![];
    let mut adds = |parts: Vec<Vec<u8>>| {
        let desc = parts.iter().map(|p| String::from_utf8_lossy(&p[..p.len().min(24)]).to_string()).collect::<Vec<_>>().join(" ");
        vs.push(Case { family: "cmd".into(), desc, input: enc(&parts), complete: true, restore: true });
    };
    let nums: Vec<&[u8]> = EXTREME.iter().cloned().filter(|x| !x.is_empty() && x.iter().all(|c| c.is_ascii_digit() || *c == b'-')).collect();
    for x in nums.iter() {
        let xs = String::from_utf8_lossy(x).to_string();
        let ranges = [format!("0-{}", xs), format!("{}-{}", xs, xs), format!("{}-16383", xs), format!("{}-0", xs), format!("16383-{}", xs)];
        let addrs = ["127.0.0.1:7001", "127.0.0.1:6000", "127.0.0.1:7002", "127.0.0.1:6001"];
        for rg in ranges.iter() {
            adds(vec![b("UMCTL"), b("SETCLUSTER"), b("v2"), b("9"), b("FORCE"), b("db"), b("127.0.0.1:7001"), b("1"), b(rg)]);
            adds(vec![b("UMCTL"), b("SETCLUSTER"), b("v2"), b("9"), b("FORCE"), b("db"), b("127.0.0.1:7001"), b("1"), b("0-100"), b("PEER"), b("127.0.0.1:7002"), b("1"), b(rg)]);
            for tag in ["MIGRATING", "IMPORTING"] {
                let mut p = vec![b("UMCTL"), b("SETCLUSTER"), b("v2"), b("9"), b("FORCE"), b("db"), b("127.0.0.1:7001"), b(tag), b("1"), b(rg), b("5")];
                p.extend(addrs.iter().map(|a| b(a)));
                adds(p);
            }
            for sub in ["TMPSWITCH", "PRECHECK", "PRESWITCH", "FINALSWITCH"] {
                let mut p = vec![b("UMCTL"), b(sub), b("mgr-0.2"), b("db"), b("MIGRATING"), b("1"), b(rg), b("5")];
                p.extend(addrs.iter().map(|a| b(a)));
                adds(p);
            }
        }
        // the same ranges inside the COMPRESSED form (gzip + base64 of JSON), built by the real encoder from the plain message
        for rg in ranges.iter() {
            for tagged in [false, true] {
                let mut plain: Vec<String> = vec!["v2".into(), "9".into(), "FORCE".into(), "db".into(), "127.0.0.1:7001".into()];
                if tagged {
                    plain.extend(["MIGRATING".to_string(), "1".into(), rg.clone(), "5".into()]);
                    plain.extend(addrs.iter().map(|a| a.to_string()));
                } else {
                    plain.extend(["1".to_string(), rg.clone()]);
                }
                let mut it = plain.into_iter().peekable();
                if let Ok(Ok((m, _))) = std::panic::catch_unwind(std::panic::AssertUnwindSafe(|| undermoon::common::proto::ProxyClusterMeta::parse(&mut it))) {
                    let mc = undermoon::common::proto::ProxyClusterMeta::new(
                        m.get_epoch(),
                        undermoon::common::proto::ClusterMapFlags { force: true, compress: true },
                        m.get_cluster_name().clone(),
                        m.get_local().clone(),
                        m.get_peer().clone(),
                        m.get_config().clone(),
                    );
                    if let Ok(cargs) = mc.to_compressed_args() {
                        let mut p = vec![b("UMCTL"), b("SETCLUSTER")];
                        p.extend(cargs.iter().map(|a| b(a)));
                        adds(p);
                    }
                }
            }
        }
        // counts and epochs inside otherwise well-formed messages
        adds(vec![b("UMCTL"), b("SETCLUSTER"), b("v2"), b("9"), b("FORCE"), b("db"), b("127.0.0.1:7001"), x.to_vec(), b("0-100"), b("200-300")]);
        adds(vec![b("UMCTL"), b("SETCLUSTER"), b("v2"), b("9"), b("FORCE"), b("db"), b("127.0.0.1:7001"), b("MIGRATING"), b("1"), b("0-100"), x.to_vec(),
                  b("127.0.0.1:7001"), b("127.0.0.1:6000"), b("127.0.0.1:7002"), b("127.0.0.1:6001")]);
        adds(vec![b("UMCTL"), b("SETCLUSTER"), b("v2"), b("9"), b("FORCE"), b("db"), b(&format!("127.0.0.1:{}", xs)), b("1"), b("0-100")]);
        adds(vec![b("UMCTL"), b("SETCLUSTER"), b("v2"), b("9"), b("FORCE"), b("db"), b("127.0.0.1:7001"), b("1"), b("0-100"), b("CONFIG"), b("migration_scan_count"), x.to_vec()]);
        adds(vec![b("UMCTL"), b("SETCLUSTER"), b("v2"), b("9"), b("FORCE"), b("db"), b("127.0.0.1:7001"), b("1"), b("0-100"), b("CONFIG"), b("migration_max_migration_time"), x.to_vec()]);
        adds(vec![b("UMCTL"), b("SETREPL"), b("9"), b("FORCE"), b("master"), b("db"), b("127.0.0.1:6000"), x.to_vec(), b("127.0.0.1:6001"), b("127.0.0.1:7002")]);
        adds(vec![b("UMCTL"), b("SETREPL"), b("9"), b("FORCE"), b("replica"), b("db"), b("127.0.0.1:6000"), x.to_vec(), b("127.0.0.1:6001"), b("127.0.0.1:7002")]);
    }
    // random combinations
    let mut r = StdRng::seed_from_u64(seed);
    for _ in 0..random_count {
        let mut parts: Vec<Vec<u8>> = vec![];
        let c = COMMANDS[r.gen_range(0..COMMANDS.len())];
        parts.push(b(c));
        if r.gen_bool(0.3) {
            parts[0] = b(["UMCTL", "CLUSTER", "CONFIG"][r.gen_range(0..3)]);
            let subs = [UMCTL_SUBS, CLUSTER_SUBS, CONFIG_SUBS][r.gen_range(0..3)];
            parts.push(b(subs[r.gen_range(0..subs.len())]));
        }
        for _ in 0..r.gen_range(0..7) {
            parts.push(EXTREME[r.gen_range(0..EXTREME.len())].to_vec());
        }
        add(parts);
    }
    v.extend(vs);
    v
}

fn run_case(p: &mut ChildProxy, c: &Case, phase: &str, idx: usize) -> Value {
    let pid = p.child.id();
    p.reset_peak();
    let rss0 = proc_kb(pid, "VmRSS");
    let size = c.input.len();
    let deadline = Duration::from_millis(4000 + (size as u64 / (1 << 20)) * 1500);
    let cpu0 = proc_cpu_ms(pid);
    // wall-clock time depends on how busy the machine is: when nothing comes back in time, keep waiting (up to 40 s more)
    // unless the process has already burnt more CPU than any request of this size may
    let give_up = || proc_cpu_ms(pid) - cpu0 > 2 * cpu_budget_ms(size);
    let (outcome, ms, got) = if c.complete {
        exchange_grace(p.port, &c.input, deadline, Duration::from_millis(30), Duration::from_secs(40), &give_up)
    } else {
        exchange(p.port, &c.input, Duration::from_millis(250), Duration::from_millis(30))
    };
    let late = c.complete && ms > deadline.as_millis();
    let (mut pr, mut pr_ms) = probe(p.port, Duration::from_millis(6000));
    if pr != "reply" && p.alive() {
        // a busy machine is not a wedged proxy: ask again, patiently
        let (pr2, ms2) = probe(p.port, Duration::from_secs(30));
        pr = pr2;
        pr_ms += ms2;
    }
    let cpu_ms = proc_cpu_ms(pid) - cpu0;
    let hwm = proc_kb(pid, "VmHWM");
    let alive = p.alive();
    let exit = if alive { "running".to_string() } else { p.exit_desc() };
    let panics = p.new_panics();
    json!({"ev": "case", "idx": idx, "family": c.family, "phase": phase, "desc": c.desc, "bytes": size, "complete": c.complete,
           "outcome": outcome, "late": late, "cpu_ms": cpu_ms, "cpu_budget_ms": cpu_budget_ms(size), "ms": ms as u64, "reply_bytes": got, "probe": pr, "probe_ms": pr_ms as u64, "alive": alive, "exit": exit,
           "panics": panics.len(), "panic_at": panics.join(";"), "rss_before_kb": rss0, "hwm_after_kb": hwm,
           "head": String::from_utf8_lossy(&c.input[..size.min(48)]).to_string()})
}

pub fn run_many<W: Write>(w: &mut W, family: &str, seed: u64, random_count: usize, port: u16, errfile: &str, part: usize, parts: usize) -> i32 {
    let mut cases = match family {
        "bytes" => byte_cases(),
        _ => cmd_cases(seed, random_count),
    };
    // this process takes every `parts`-th case
    let mut k = 0usize;
    cases.retain(|_| {
        k += 1;
        (k - 1) % parts.max(1) == part
    });
    let mut proxy = match ChildProxy::spawn(port, errfile, 2) {
        Some(p) => p,
        None => {
            let _ = writeln!(w, "{}", json!({"ev": "rig_error", "why": "child proxy did not start"}));
            return 2;
        }
    };
    let mut idx = 0usize;
    let mut bad = 0usize;
    for phase in ["before_meta", "after_meta"] {
        if phase == "after_meta" {
            // metadata pointing at an address nobody listens on: forwarded commands fail fast with an error reply
            let set = enc(&[b("UMCTL"), b("SETCLUSTER"), b("v2"), b("1"), b("NOFLAG"), b("c16"), b("127.0.0.1:9"), b("1"), b("0-16383")]);
            let (o, _, _) = exchange(proxy.port, &set, Duration::from_secs(5), Duration::from_millis(20));
            let _ = writeln!(w, "{}", json!({"ev": "meta", "outcome": o}));
        }
        for c in &cases {
            idx += 1;
            let line = run_case(&mut proxy, c, phase, idx);
            if c.restore && line["alive"].as_bool().unwrap_or(false) {
                let base = if phase == "after_meta" {
                    enc(&[b("UMCTL"), b("SETCLUSTER"), b("v2"), b("1"), b("FORCE"), b("c16"), b("127.0.0.1:9"), b("1"), b("0-16383")])
                } else {
                    enc(&[b("UMCTL"), b("SETCLUSTER"), b("v2"), b("1"), b("FORCE"), b("c16")])
                };
                let _ = exchange(proxy.port, &base, Duration::from_secs(5), Duration::from_millis(5));
                let _ = exchange(proxy.port, &enc(&[b("UMCTL"), b("SETREPL"), b("1"), b("FORCE")]), Duration::from_secs(5), Duration::from_millis(5));
            }
            let dead = !line["alive"].as_bool().unwrap_or(true);
            // a thread that is still spinning would be charged to the next cases: start over
            let spinning = line["cpu_ms"].as_i64().unwrap_or(0) > line["cpu_budget_ms"].as_i64().unwrap_or(i64::MAX);
            let wedged = line["probe"] != "reply" || spinning;
            let _ = writeln!(w, "{}", line);
            if dead || wedged {
                bad += 1;
                if bad >= 6 {
                    // enough evidence; every further case of this kind costs a long wait
                    let _ = writeln!(w, "{}", json!({"ev": "aborted", "after": idx, "why": "six cases killed or wedged the proxy"}));
                    proxy.kill();
                    return 0;
                }
                proxy.kill();
                let _ = writeln!(w, "{}", json!({"ev": "restart", "after": idx, "why": if dead { "dead" } else { "wedged" }}));
                proxy = match ChildProxy::spawn(port, errfile, 2) {
                    Some(p) => p,
                    None => {
                        let _ = writeln!(w, "{}", json!({"ev": "rig_error", "why": "child proxy did not restart"}));
                        return 2;
                    }
                };
                if phase == "after_meta" {
                    let set = enc(&[b("UMCTL"), b("SETCLUSTER"), b("v2"), b("1"), b("NOFLAG"), b("c16"), b("127.0.0.1:9"), b("1"), b("0-16383")]);
                    let _ = exchange(proxy.port, &set, Duration::from_secs(5), Duration::from_millis(20));
                }
            }
        }
    }
    proxy.kill();
    0
}
