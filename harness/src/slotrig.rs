//! C09 rig: CLUSTER KEYSLOT and routing decisions of a real proxy with hand-built slot layouts.
use crate::cluster::keys_for_all_slots;
use crate::simnet::{resp_json, Net};
use rand::rngs::StdRng;
use rand::seq::SliceRandom;
use rand::{Rng, SeedableRng};
use serde_json::{json, Value};
use std::io::Write;
use undermoon::protocol::{Resp, RespVec};
use undermoon::proxy::service::ClusterNodesVersion;

const PROXY: &str = "127.0.0.1:7000";
const NODES: [&str; 2] = ["127.0.0.1:6000", "127.0.0.1:6001"];
const PEERS: [&str; 2] = ["127.0.0.2:7000", "127.0.0.3:7000"];

fn gen_layout(rng: &mut StdRng) -> (Value, Vec<String>) {
    // cut 0..16383 into segments, give each to a local node, a peer, or nobody
    let mut cuts: Vec<usize> = (0..rng.gen_range(2..9)).map(|_| rng.gen_range(1..16384)).collect();
    if rng.gen_bool(0.5) {
        // single-slot segments
        let c = rng.gen_range(1..16383);
        cuts.push(c);
        cuts.push(c + 1);
    }
    cuts.push(0);
    cuts.push(16384);
    cuts.sort();
    cuts.dedup();
    let mut local: Vec<(String, usize, usize)> = vec![];
    let mut peers: Vec<(String, usize, usize)> = vec![];
    for w in cuts.windows(2) {
        let (lo, hi) = (w[0], w[1] - 1);
        match rng.gen_range(0..6) {
            0 | 1 => local.push((NODES[rng.gen_range(0..2)].to_string(), lo, hi)),
            2 | 3 | 4 => peers.push((PEERS[rng.gen_range(0..2)].to_string(), lo, hi)),
            _ => {} // a gap: nobody covers it
        }
    }
    if local.is_empty() {
        local.push((NODES[0].to_string(), 0, cuts[1] - 1));
        peers.retain(|p| p.1 != 0);
    }
    // SETCLUSTER arguments: <node> <n> <lo-hi>... per entry; either one entry per range or grouped
    let mut args = vec![];
    let grouped = rng.gen_bool(0.5);
    let enc = |items: &Vec<(String, usize, usize)>, args: &mut Vec<String>| {
        if grouped {
            let mut names: Vec<String> = items.iter().map(|x| x.0.clone()).collect();
            names.sort();
            names.dedup();
            for n in names {
                let rs: Vec<&(String, usize, usize)> = items.iter().filter(|x| x.0 == n).collect();
                args.push(n.clone());
                args.push(rs.len().to_string());
                for r in rs {
                    args.push(format!("{}-{}", r.1, r.2));
                }
            }
        } else {
            for r in items {
                args.push(r.0.clone());
                args.push("1".to_string());
                args.push(format!("{}-{}", r.1, r.2));
            }
        }
    };
    enc(&local, &mut args);
    if !peers.is_empty() {
        args.push("PEER".to_string());
        enc(&peers, &mut args);
    }
    let layout = json!({
        "local": local.iter().map(|x| json!({"node": x.0, "lo": x.1, "hi": x.2})).collect::<Vec<_>>(),
        "peers": peers.iter().map(|x| json!({"proxy": x.0, "lo": x.1, "hi": x.2})).collect::<Vec<_>>(),
    });
    (layout, args)
}

fn classify(r: &RespVec) -> (String, Value) {
    match r {
        Resp::Error(b) => {
            let s = String::from_utf8_lossy(b).to_string();
            let mut it = s.split(' ');
            if it.next() == Some("MOVED") {
                let slot: i64 = it.next().and_then(|x| x.parse().ok()).unwrap_or(-1);
                let to = it.next().unwrap_or("").to_string();
                return ("moved".to_string(), json!({"slot": slot, "to": to}));
            }
            ("error".to_string(), json!({"slot": -1, "to": s}))
        }
        _ => ("ok".to_string(), json!({"slot": -1, "to": ""})),
    }
}

async fn run_cmd(net: &Net, cmd: Vec<Vec<u8>>, keys: &[Vec<u8>]) -> (String, Value, Vec<String>, Value) {
    net.take_log();
    let r = net.proxy_exec(PROXY, cmd).await;
    let mut execs = vec![];
    for e in net.take_log() {
        if e["kind"] == "redis" {
            // a data command that mentions one of the keys
            let mentions = e["cmd"].as_array().map(|a| a.iter().skip(1).any(|x| keys.iter().any(|k| x.as_str() == Some(&String::from_utf8_lossy(k))))).unwrap_or(false);
            if mentions {
                execs.push(e["node"].as_str().unwrap_or("").to_string());
            }
        }
    }
    let (kind, moved) = classify(&r);
    (kind, moved, execs, resp_json(&r))
}

pub async fn run(out: &mut dyn Write, seed: u64, layouts: usize, maxlen: usize, random_keys: usize) {
    let mut rng = StdRng::seed_from_u64(seed);
    let net = Net::new();
    for n in NODES.iter() {
        net.add_redis(n);
    }
    net.start_proxy(PROXY, Net::proxy_config(PROXY, false, 1, ClusterNodesVersion::V2));
    let slot_keys = keys_for_all_slots();
    // enumerated brace-heavy keys
    let alphabet = [b'a', b'b', b'{', b'}'];
    let mut brace_keys: Vec<Vec<u8>> = vec![];
    for len in 1..=maxlen {
        let total = 4usize.pow(len as u32);
        for code in 0..total {
            let mut c = code;
            let mut k = vec![];
            for _ in 0..len {
                k.push(alphabet[c % 4]);
                c /= 4;
            }
            brace_keys.push(k);
        }
    }
    let mut epoch = 1;
    for li in 0..layouts {
        let (layout, args) = gen_layout(&mut rng);
        epoch += 1;
        let mut cmd: Vec<Vec<u8>> = vec![b"UMCTL".to_vec(), b"SETCLUSTER".to_vec(), b"v2".to_vec(), epoch.to_string().into_bytes(), b"NOFLAG".to_vec(), b"slotrig".to_vec()];
        cmd.extend(args.iter().map(|s| s.clone().into_bytes()));
        let r = net.proxy_exec(PROXY, cmd).await;
        writeln!(out, "{}", json!({"kind": "layout", "idx": li, "layout": layout, "args": args, "reply": resp_json(&r)})).ok();
        // CLUSTER KEYSLOT on this layout's share of the enumerated keys + random binary keys
        let mut ks: Vec<Vec<u8>> = brace_keys.iter().enumerate().filter(|(i, _)| i % layouts == li).map(|(_, k)| k.clone()).collect();
        for _ in 0..(random_keys / layouts.max(1)) {
            let n = rng.gen_range(1..24);
            let mut k: Vec<u8> = (0..n).map(|_| rng.gen::<u8>()).collect();
            if rng.gen_bool(0.3) {
                let p = rng.gen_range(0..k.len());
                k[p] = b'{';
                if rng.gen_bool(0.7) {
                    let q = rng.gen_range(p..k.len());
                    k[q] = b'}';
                }
            }
            ks.push(k);
        }
        for k in ks.iter() {
            let r = net.proxy_exec(PROXY, vec![b"CLUSTER".to_vec(), b"KEYSLOT".to_vec(), k.clone()]).await;
            let slot: i64 = match &r {
                Resp::Integer(b) => String::from_utf8_lossy(b).parse().unwrap_or(-1),
                _ => -1,
            };
            writeln!(out, "{}", json!({"kind": "keyslot", "key": k, "slot": slot})).ok();
        }
        // single-key routing at the boundaries of this layout
        let mut slots: Vec<usize> = vec![0, 16383];
        for sec in ["local", "peers"] {
            for r in layout[sec].as_array().cloned().unwrap_or_default() {
                let lo = r["lo"].as_u64().unwrap_or(0) as usize;
                let hi = r["hi"].as_u64().unwrap_or(0) as usize;
                for x in [lo.saturating_sub(1), lo, hi, hi + 1, (lo + hi) / 2] {
                    if x < 16384 {
                        slots.push(x);
                    }
                }
            }
        }
        slots.sort();
        slots.dedup();
        for s in slots.iter() {
            let k = slot_keys[*s].as_bytes().to_vec();
            let cmdname: &[u8] = *[b"GET".as_ref(), b"SET".as_ref(), b"INCR".as_ref()].choose(&mut rng).unwrap_or(&b"GET".as_ref());
            let mut cmd = vec![cmdname.to_vec(), k.clone()];
            if cmdname == b"SET" {
                cmd.push(b"1".to_vec());
            }
            let (kind, moved, execs, reply) = run_cmd(&net, cmd, &[k.clone()]).await;
            writeln!(out, "{}", json!({"kind": "route", "layout": layout, "cmd": String::from_utf8_lossy(cmdname), "key": k, "reply_kind": kind, "moved": moved, "execs": execs, "reply": reply})).ok();
        }
        // brace keys through routing as well (the slot comes from the proxy's own hashing)
        for _ in 0..40 {
            let k = brace_keys.choose(&mut rng).cloned().unwrap_or_default();
            let (kind, moved, execs, reply) = run_cmd(&net, vec![b"GET".to_vec(), k.clone()], &[k.clone()]).await;
            writeln!(out, "{}", json!({"kind": "route", "layout": layout, "cmd": "GET", "key": k, "reply_kind": kind, "moved": moved, "execs": execs, "reply": reply})).ok();
        }
        // multi-key commands
        for _ in 0..30 {
            let s1 = *slots.choose(&mut rng).unwrap_or(&0);
            let same = rng.gen_bool(0.5);
            let k1 = slot_keys[s1].clone();
            let (k1b, k2b): (Vec<u8>, Vec<u8>) = if same {
                // two different keys with the same hash tag
                (format!("{{{}}}x", k1).into_bytes(), format!("y{{{}}}", k1).into_bytes())
            } else {
                let s2 = *slots.choose(&mut rng).unwrap_or(&1);
                (k1.clone().into_bytes(), slot_keys[s2].clone().into_bytes())
            };
            let which = rng.gen_range(0..7);
            let (name, cmd): (&str, Vec<Vec<u8>>) = match which {
                0 => ("MGET", vec![b"MGET".to_vec(), k1b.clone(), k2b.clone()]),
                1 => ("MSET", vec![b"MSET".to_vec(), k1b.clone(), b"1".to_vec(), k2b.clone(), b"2".to_vec()]),
                2 => ("MSETNX", vec![b"MSETNX".to_vec(), k1b.clone(), b"1".to_vec(), k2b.clone(), b"2".to_vec()]),
                3 => ("DEL", vec![b"DEL".to_vec(), k1b.clone(), k2b.clone()]),
                4 => ("EXISTS", vec![b"EXISTS".to_vec(), k1b.clone(), k2b.clone()]),
                5 => ("EVAL", vec![b"EVAL".to_vec(), b"return 1".to_vec(), b"2".to_vec(), k1b.clone(), k2b.clone()]),
                _ => ("UNLINK", vec![b"UNLINK".to_vec(), k1b.clone(), k2b.clone()]),
            };
            let (kind, moved, execs, reply) = run_cmd(&net, cmd, &[k1b.clone(), k2b.clone()]).await;
            writeln!(out, "{}", json!({"kind": "multi", "layout": layout, "cmd": name, "keys": [k1b, k2b], "reply_kind": kind, "moved": moved, "execs": execs, "reply": reply})).ok();
        }
    }
}
