//! C07 / C13 rig: the control plane under message faults, coordinator crashes, proxy restarts and broker
//! state loss.  Real broker, real coordinator rounds (two coordinators), real proxies.
use crate::brokerdrv::Op;
use crate::cluster::{keys_for_all_slots, ClusterWorld, Fault};
use crate::routerig::Rig;
use rand::rngs::StdRng;
use rand::seq::SliceRandom;
use rand::{Rng, SeedableRng};
use serde_json::{json, Value};
use std::io::Write;
use undermoon::protocol::{Array, BulkStr, Resp};

async fn members(rig: &Rig) -> Vec<String> {
    let raw = rig.w.broker.raw_store().await;
    let mut v = vec![];
    for ch in raw["clusters"]["c1"]["chunks"].as_array().cloned().unwrap_or_default() {
        for p in ch["proxy_addresses"].as_array().cloned().unwrap_or_default() {
            v.push(p.as_str().unwrap_or("").to_string());
        }
    }
    v.sort();
    v
}

async fn roles_of(rig: &Rig, proxy: &str) -> Value {
    let r = rig.w.net.proxy_exec(proxy, vec![b"UMCTL".to_vec(), b"INFOREPL".to_vec()]).await;
    let mut out = vec![];
    if let Resp::Arr(Array::Arr(items)) = r {
        for it in items {
            if let Resp::Arr(Array::Arr(lines)) = it {
                let mut role = String::new();
                let mut node = String::new();
                let mut peers: Vec<String> = vec![];
                for l in lines {
                    if let Resp::Bulk(BulkStr::Str(b)) = l {
                        let s = String::from_utf8_lossy(&b).trim().to_string();
                        if let Some(x) = s.strip_prefix("role:") {
                            role = x.to_string();
                        } else if let Some(x) = s.strip_prefix("node_address:") {
                            node = x.to_string();
                        } else if let Some(x) = s.strip_prefix("replica:").or_else(|| s.strip_prefix("master:")) {
                            // <peer node>@<peer proxy>
                            peers.push(x.to_string());
                        }
                    }
                }
                peers.sort();
                out.push(json!({"node": node, "role": role, "peers": peers}));
            }
        }
    }
    out.sort_by(|a, b| a["node"].as_str().cmp(&b["node"].as_str()));
    Value::Array(out)
}

async fn emit_roles(rig: &mut Rig) {
    let ms = members(rig).await;
    let down: Vec<String> = rig.w.net.inner.down.lock().iter().cloned().collect();
    let mut v = vec![];
    for p in ms {
        if down.contains(&p) {
            continue;
        }
        v.push(json!({"proxy": p, "roles": roles_of(rig, &p).await}));
    }
    rig.emit(json!({"kind": "roles", "cluster": "c1", "proxies": v}));
}

fn drain_net_log(rig: &mut Rig) {
    // control-plane calls and broker calls recorded by the fake network
    for e in rig.w.net.take_log() {
        if e["kind"] == "call" || e["kind"] == "bcall" || e["kind"] == "restart" || e["kind"] == "round" || e["kind"] == "round_start" || e["kind"] == "connect_failed" {
            rig.out.push(e);
        }
    }
}

pub async fn run_one(seed: u64, recover_mode: bool) -> Vec<Value> {
    let mut rng = StdRng::seed_from_u64(seed);
    let compress = rng.gen_bool(0.5);
    let limit = *[0u64, 1, 2].choose(&mut rng).unwrap_or(&1);
    let w = match ClusterWorld::new(limit, false, compress, false, 1, false) {
        Ok(w) => w,
        Err(e) => return vec![json!({"kind": "harness_error", "e": e})],
    };
    w.net.inner.log_redis.store(true, std::sync::atomic::Ordering::SeqCst);
    let mut rig = Rig { w, keys: keys_for_all_slots(), out: vec![], uniq: 0, rng: StdRng::seed_from_u64(seed ^ 77), all_slots: false, check_free: true };
    rig.emit(json!({"kind": "reset", "seed": seed, "mode": if recover_mode { "recover" } else { "ctl" }, "compress": compress, "limit": limit}));
    for h in 1..=3u32 {
        for i in 0..2u32 {
            rig.op(Op::AddProxy { host: h, idx: i, explicit_host: true, index: None }).await;
        }
    }
    if rig.op(Op::AddCluster { name: "c1".into(), n: 4 }).await != "OK" {
        return rig.out;
    }
    rig.op(Op::ChangeConfig { name: "c1".into(), key: "migration_max_blocking_time".into(), value: "2000000000".into() }).await;
    rig.sync().await;
    rig.w.net.take_log();
    rig.emit(json!({"kind": "faults_start"}));
    // fault plans for the next calls
    let base_p = rig.w.net.inner.call_counter.load(std::sync::atomic::Ordering::SeqCst);
    let base_b = rig.w.faults.counter.load(std::sync::atomic::Ordering::SeqCst);
    if !recover_mode || rng.gen_bool(0.5) {
        let n = rng.gen_range(2..8);
        let mut cf = rig.w.net.inner.call_faults.lock();
        for _ in 0..n {
            let idx = base_p + rng.gen_range(1..120);
            let f = match rng.gen_range(0..5) {
                0 => "drop".to_string(),
                1 => "dropreply".to_string(),
                2 => "dup".to_string(),
                _ => format!("delay:{}", rng.gen_range(2..40)),
            };
            cf.insert(idx, f);
        }
        let mut bf = rig.w.faults.at.lock();
        for _ in 0..rng.gen_range(1..6) {
            let idx = base_b + rng.gen_range(1..150);
            bf.insert(idx, [Fault::Drop, Fault::DropReply, Fault::Dup][rng.gen_range(0..3)].clone());
        }
    }
    let steps = rng.gen_range(5..10);
    let mut scaled = false;
    for _ in 0..steps {
        let who = if rng.gen_bool(0.5) { "coord1" } else { "coord2" };
        match rng.gen_range(0..10) {
            0 if !recover_mode => {
                let ms = members(&rig).await;
                let down: Vec<String> = rig.w.net.inner.down.lock().iter().cloned().collect();
                // only a proxy whose chunk partner is reachable may fail (C06 / C07 are about that case: with both proxies of a
                // chunk gone the chunk's data is gone and nothing can converge), and at most two proxies are ever down
                let raw = rig.w.broker.raw_store().await;
                let mut partner_ok: Vec<String> = vec![];
                for ch in raw["clusters"]["c1"]["chunks"].as_array().cloned().unwrap_or_default() {
                    let ps: Vec<String> = ch["proxy_addresses"].as_array().cloned().unwrap_or_default().iter().map(|p| p.as_str().unwrap_or("").to_string()).collect();
                    if ps.len() == 2 && !down.contains(&ps[0]) && !down.contains(&ps[1]) {
                        partner_ok.extend(ps);
                    }
                }
                let up: Vec<String> = ms.into_iter().filter(|m| !down.contains(m) && partner_ok.contains(m)).collect();
                if up.len() > 2 && down.len() < 2 {
                    if let Some(a) = up.choose(&mut rng).cloned() {
                        rig.w.net.inner.down.lock().insert(a.clone());
                        if rng.gen_bool(0.5) {
                            // through the coordinators' own loops: PING detection (detector.rs), failure report, quorum, failure
                            // handler (recover.rs) - Coord.tla DPing / DReport / FReplace
                            rig.w.detect_round("coord1").await;
                            rig.w.detect_round("coord2").await;
                            rig.w.failover_round(who).await;
                            let listed = rig.w.broker.svc.get_failed_proxies().await.unwrap_or_default();
                            let still_member = members(&rig).await.contains(&a);
                            rig.after_external_change("FailoverByCoordinator", json!({"addr": a, "failed_list": listed, "still_member": still_member})).await;
                        } else {
                            rig.op(Op::Failover { addr: a }).await;
                        }
                    }
                }
            }
            1 => {
                rig.op(Op::Balance { name: "c1".into() }).await;
            }
            2 => {
                let v = ["disabled", "allow_all", "set_get_only"].choose(&mut rng).unwrap_or(&"disabled").to_string();
                rig.op(Op::ChangeConfig { name: "c1".into(), key: "compression_strategy".into(), value: v }).await;
            }
            3 if !scaled => {
                if rig.op(Op::AddNodes { name: "c1".into(), n: 4 }).await == "OK" {
                    rig.w.sync_round(who).await;
                    rig.op(Op::MigrateSlots { name: "c1".into() }).await;
                    scaled = true;
                }
            }
            4 => {
                // a proxy restarts with empty state
                let ms = members(&rig).await;
                let down: Vec<String> = rig.w.net.inner.down.lock().iter().cloned().collect();
                if let Some(a) = ms.into_iter().filter(|m| !down.contains(m)).collect::<Vec<_>>().choose(&mut rng).cloned() {
                    rig.w.restart_proxy(&a);
                }
            }
            5 => {
                // coordinator crash in the middle of a round: every later call of that round fails
                let c = rig.w.faults.counter.load(std::sync::atomic::Ordering::SeqCst) + rng.gen_range(1..12);
                *rig.w.faults.crash_at.lock() = Some(c);
                if rng.gen_bool(0.5) {
                    rig.w.sync_round(who).await;
                } else {
                    rig.w.migration_round(who).await;
                }
                *rig.w.faults.crash_at.lock() = None;
                rig.w.faults.crashed.store(false, std::sync::atomic::Ordering::SeqCst);
                rig.emit(json!({"kind": "crash", "who": who}));
            }
            6 => {
                // two coordinators at the same time
                let (a, b) = futures::future::join(rig.w.sync_round("coord1"), rig.w.migration_round("coord2")).await;
                let _ = (a, b);
            }
            7 => {
                rig.w.migration_round(who).await;
            }
            _ => {
                rig.w.sync_round(who).await;
            }
        }
        rig.settle().await;
        drain_net_log(&mut rig);
    }
    if recover_mode {
        // the broker loses its state: restart from an earlier snapshot, then epoch recovery
        // any snapshot taken after the cluster existed (index 8 = after AddCluster)
        let n = rig.w.broker.snapshots.len();
        // snapshots[i] = store after the (i+1)-th op; the cluster exists from op 7 (6 registrations + create)
        // ... or, one time in three, a snapshot from BEFORE the cluster existed (registrations only) or the empty store
        let early = rng.gen_range(0..3) == 0;
        let at = if early {
            if rng.gen_bool(0.3) { usize::MAX } else { rng.gen_range(0..6.min(n.max(1))) }
        } else if n > 9 {
            rng.gen_range(7..n)
        } else {
            n.saturating_sub(1)
        };
        rig.op(Op::RestartFrom { at }).await;
        let ms = members(&rig).await;
        let mut proxy_epochs = vec![];
        let mut maxe = 0i64;
        let all: Vec<String> = rig.w.net.inner.proxies.lock().keys().cloned().collect();
        for p in all {
            let e = rig.w.proxy_epoch(&p).await;
            proxy_epochs.push(json!({"proxy": p, "epoch": e, "member": ms.contains(&p)}));
            maxe = maxe.max(e);
        }
        // variant: the newest proxy is unreachable during recovery (its epoch is not seen)
        let hidden = rng.gen_bool(0.2);
        let seen_max = if hidden {
            let mut es: Vec<i64> = proxy_epochs.iter().map(|x| x["epoch"].as_i64().unwrap_or(0)).collect();
            es.sort();
            es.pop();
            es.last().cloned().unwrap_or(0)
        } else {
            maxe
        };
        rig.op(Op::RecoverEpoch { max_proxy_epoch: seen_max.max(0) as u64 }).await;
        let gepoch_after_recovery = rig.w.broker.observe().await.0["gepoch"].clone();
        if members(&rig).await.is_empty() {
            // the recovered store has no cluster: the administrator registers the proxies and creates it again
            for h in 1..=3u32 {
                for i in 0..2u32 {
                    rig.op(Op::AddProxy { host: h, idx: i, explicit_host: true, index: None }).await;
                }
            }
            rig.op(Op::AddCluster { name: "c1".into(), n: 4 }).await;
            rig.op(Op::ChangeConfig { name: "c1".into(), key: "migration_max_blocking_time".into(), value: "2000000000".into() }).await;
        }
        let (s, obs) = rig.w.broker.observe().await;
        let served: Vec<Value> = obs["svc"]["proxies"].as_array().cloned().unwrap_or_default().iter().map(|p| json!({"proxy": p["addr"], "epoch": p["epoch"]})).collect();
        rig.emit(json!({"kind": "recover", "proxy_epochs": proxy_epochs, "served": served, "gepoch": s["gepoch"], "gepoch_rec": gepoch_after_recovery, "all_seen": !hidden}));
    }
    // faults stop
    rig.w.net.inner.call_faults.lock().clear();
    rig.w.faults.at.lock().clear();
    rig.emit(json!({"kind": "faults_stop"}));
    let mut rounds = 0;
    for _ in 0..60 {
        rig.settle().await;
        // all four loops of a live coordinator: detection, failure handling, migration state, metadata
        let before = members(&rig).await;
        rig.w.detect_round("coord1").await;
        rig.w.failover_round("coord1").await;
        if members(&rig).await != before {
            rig.after_external_change("FailoverByCoordinator", json!({"phase": "convergence"})).await;
        }
        rig.w.migration_round("coord1").await;
        rig.w.sync_round("coord1").await;
        rounds += 1;
        if !rig.is_migrating("c1").await && rounds >= 2 {
            break;
        }
    }
    rig.w.sync_round("coord1").await;
    drain_net_log(&mut rig);
    let still = rig.is_migrating("c1").await;
    rig.emit(json!({"kind": "converged_check", "rounds": rounds, "still_migrating": still}));
    rig.observe("stable", true).await;
    emit_roles(&mut rig).await;
    // down to the Redis nodes (spec/Repl.tla): a replicator re-asserts its role every 5 s, so one more period of virtual time
    // after convergence every node must be what the broker's view says (L2 observation, not a listed property)
    tokio::time::sleep(std::time::Duration::from_secs(6)).await;
    {
        let (_, obs) = rig.w.broker.observe().await;
        let down: Vec<String> = rig.w.net.inner.down.lock().iter().cloned().collect();
        let mut v = vec![];
        for cv in obs["svc"]["clusters"].as_array().cloned().unwrap_or_default() {
            for n in cv["nodes"].as_array().cloned().unwrap_or_default() {
                let addr = n["addr"].as_str().unwrap_or("").to_string();
                if down.iter().any(|d| d == n["proxy"].as_str().unwrap_or("")) {
                    continue;
                }
                let m = rig.w.net.inner.redis.lock().get(&addr).map(|r| r.master_of.clone().unwrap_or_default());
                if let Some(m) = m {
                    v.push(json!({"node": addr, "master_of": m}));
                }
            }
        }
        rig.emit(json!({"kind": "redis_roles", "cluster": "c1", "nodes": v}));
    }
    rig.emit(json!({"kind": "ctl_end"}));
    rig.out
}

pub fn run_many<W: Write>(out: &mut W, count: u64, seed: u64) {
    // a fresh runtime every few runs: the background tasks of finished runs (proxies, migrations, replicators) die with their
    // runtime; with one runtime for hundreds of runs a thorough part grew to several GB and the OOM killer took it
    let mk = || tokio::runtime::Builder::new_current_thread().enable_all().start_paused(true).build().expect("rt");
    let mut rt = mk();
    for i in 0..count {
        if i > 0 && i % 8 == 0 {
            rt = mk();
        }
        let s = seed.wrapping_mul(1_000_003).wrapping_add(i);
        let log = rt.block_on(run_one(s, i % 3 == 2));
        for e in log {
            writeln!(out, "{}", e).ok();
        }
    }
}
