//! Broker driver: replays abstract operation lists on a real `MemBrokerService`
//! and records, after every operation, the full store projection and every served view.
//! See DESIGN.md §2.2 and Appendix B/D.
use futures::FutureExt;
use rand::rngs::StdRng;
use rand::seq::SliceRandom;
use rand::{Rng, SeedableRng};
use serde_json::{json, Value};
use std::collections::HashMap;
use std::io::Write;
use std::panic::AssertUnwindSafe;
use std::sync::Arc;
use undermoon::broker::{
    JsonFileStorage, JsonMetaReplicator, MemBrokerConfig, MemBrokerService, StorageConfig,
};
use undermoon::common::cluster::{
    Cluster, MigrationMeta, MigrationTaskMeta, Node, Proxy, Role, SlotRange, SlotRangeTag,
};
use undermoon::common::config::ClusterConfig;

pub const LIMITS: [u64; 3] = [0, 1, 2];

pub fn proxy_addr(host: u32, idx: u32) -> String {
    format!("127.0.0.{}:{}", host, 7000 + idx)
}
pub fn node_addrs(host: u32, idx: u32) -> [String; 2] {
    [
        format!("127.0.0.{}:{}", host, 6000 + 2 * idx),
        format!("127.0.0.{}:{}", host, 6000 + 2 * idx + 1),
    ]
}
pub fn host_name(host: u32) -> String {
    format!("127.0.0.{}", host)
}

pub fn mk_service(
    limit: u64,
    ordered: bool,
    failure_ttl: u64,
    failure_quorum: u64,
    last: Option<Value>,
) -> Result<MemBrokerService, String> {
    let replica_addresses = Arc::new(arc_swap::ArcSwap::new(Arc::new(vec![])));
    let config = MemBrokerConfig {
        address: "127.0.0.1:7799".to_string(),
        failure_ttl,
        failure_quorum,
        migration_limit: limit,
        recover_from_meta_file: false,
        meta_filename: "/nonexistent/metadata".to_string(),
        auto_update_meta_file: false,
        update_meta_file_interval: None,
        replica_addresses: replica_addresses.clone(),
        sync_meta_interval: None,
        enable_ordered_proxy: ordered,
        storage: StorageConfig::Memory,
        debug: false,
    };
    let persistence = Arc::new(JsonFileStorage::new("/nonexistent/metadata".to_string()));
    let replicator = Arc::new(JsonMetaReplicator::new(
        replica_addresses,
        reqwest::Client::new(),
    ));
    let last_store = match last {
        None => None,
        Some(v) => Some(serde_json::from_value(v).map_err(|e| format!("bad snapshot: {}", e))?),
    };
    MemBrokerService::new(
        config,
        ClusterConfig::default(),
        persistence,
        replicator,
        last_store,
    )
    .map_err(|e| e.to_string())
}

// ---------------------------------------------------------------------------------------------
// projection of the implementation state into the trace schema (Appendix B)
// ---------------------------------------------------------------------------------------------

fn rl_json(v: &Value) -> Value {
    // RangeList serialises as [[lo,hi],...]
    v.clone()
}

fn role_pos(v: &Value) -> &'static str {
    match v.as_str().unwrap_or("") {
        "Normal" => "N",
        "FirstChunkMaster" => "F",
        "SecondChunkMaster" => "S",
        _ => "?",
    }
}

pub fn config_json(c: &Value) -> Value {
    // flatten to a record of strings/ints; TLC compares it for equality only
    json!({
        "compression": c["compression_strategy"].as_str().unwrap_or("?"),
        "mmt": c["migration_config"]["max_migration_time"].as_u64().unwrap_or(0).min(2_000_000_000),
        "mbt": c["migration_config"]["max_blocking_time"].as_u64().unwrap_or(0).min(2_000_000_000),
        "si": c["migration_config"]["scan_interval"].as_u64().unwrap_or(0).min(2_000_000_000),
        "sc": c["migration_config"]["scan_count"].as_u64().unwrap_or(0).min(2_000_000_000),
    })
}

/// Project the serde form of MetaStore to the trace record `S`. `now` is the wall clock in seconds;
/// report times are recorded as ages (now - t) so that TLC's 32-bit ints suffice.
pub fn project_store(raw: &Value, now: i64) -> Value {
    let mut proxies: Vec<Value> = raw["all_proxies"]
        .as_object()
        .map(|m| {
            m.iter()
                .map(|(addr, p)| {
                    json!({
                        "addr": addr,
                        "paddr": p["proxy_address"],
                        "host": p["host"],
                        "index": p["index"],
                        "cluster": p["cluster"].as_str().unwrap_or(""),
                        "nodes": p["node_addresses"],
                    })
                })
                .collect()
        })
        .unwrap_or_default();
    proxies.sort_by(|a, b| a["addr"].as_str().cmp(&b["addr"].as_str()));

    let mut failed: Vec<String> = raw["failed_proxies"]
        .as_array()
        .map(|a| a.iter().filter_map(|x| x.as_str().map(String::from)).collect())
        .unwrap_or_default();
    failed.sort();

    let mut failures: Vec<Value> = raw["failures"]
        .as_object()
        .map(|m| {
            m.iter()
                .map(|(addr, reps)| {
                    let mut rs: Vec<Value> = reps
                        .as_object()
                        .map(|r| {
                            r.iter()
                                .map(|(rep, t)| json!({"rep": rep, "age": now - t.as_i64().unwrap_or(0)}))
                                .collect()
                        })
                        .unwrap_or_default();
                    rs.sort_by(|a, b| a["rep"].as_str().cmp(&b["rep"].as_str()));
                    json!({"addr": addr, "reports": rs})
                })
                .collect()
        })
        .unwrap_or_default();
    failures.sort_by(|a, b| a["addr"].as_str().cmp(&b["addr"].as_str()));

    let mut clusters: Vec<Value> = raw["clusters"]
        .as_object()
        .map(|m| {
            m.iter()
                .map(|(name, c)| {
                    let chunks: Vec<Value> = c["chunks"]
                        .as_array()
                        .map(|chs| {
                            chs.iter()
                                .map(|ch| {
                                    let stable: Vec<Value> = ch["stable_slots"]
                                        .as_array()
                                        .map(|ss| {
                                            ss.iter()
                                                .map(|s| {
                                                    if s.is_null() {
                                                        json!({"some": false, "rl": []})
                                                    } else {
                                                        json!({"some": true, "rl": rl_json(&s["range_list"])})
                                                    }
                                                })
                                                .collect()
                                        })
                                        .unwrap_or_default();
                                    let mig: Vec<Value> = ch["migrating_slots"]
                                        .as_array()
                                        .map(|ms| {
                                            ms.iter()
                                                .map(|half| {
                                                    Value::Array(
                                                        half.as_array()
                                                            .map(|es| {
                                                                es.iter()
                                                                    .map(|e| {
                                                                        json!({
                                                                            "rl": rl_json(&e["range_list"]),
                                                                            "out": e["is_migrating"],
                                                                            "epoch": e["meta"]["epoch"],
                                                                            "sc": e["meta"]["src_chunk_index"],
                                                                            "sp": e["meta"]["src_chunk_part"],
                                                                            "dc": e["meta"]["dst_chunk_index"],
                                                                            "dp": e["meta"]["dst_chunk_part"],
                                                                        })
                                                                    })
                                                                    .collect()
                                                            })
                                                            .unwrap_or_default(),
                                                    )
                                                })
                                                .collect()
                                        })
                                        .unwrap_or_default();
                                    json!({
                                        "role": role_pos(&ch["role_position"]),
                                        "px": ch["proxy_addresses"],
                                        "hosts": ch["hosts"],
                                        "nodes": ch["node_addresses"],
                                        "stable": stable,
                                        "mig": mig,
                                    })
                                })
                                .collect()
                        })
                        .unwrap_or_default();
                    json!({
                        "name": name,
                        "epoch": c["epoch"],
                        "config": config_json(&c["config"]),
                        "chunks": chunks,
                    })
                })
                .collect()
        })
        .unwrap_or_default();
    clusters.sort_by(|a, b| a["name"].as_str().cmp(&b["name"].as_str()));

    json!({
        "gepoch": raw["global_epoch"],
        "ordered": raw["enable_ordered_proxy"],
        "proxies": proxies,
        "failed": failed,
        "failures": failures,
        "clusters": clusters,
    })
}

pub fn slot_range_json(sr: &SlotRange) -> Value {
    let rl: Vec<Value> = sr
        .get_range_list()
        .get_ranges()
        .iter()
        .map(|r| json!([r.start(), r.end()]))
        .collect();
    let (tag, meta) = match &sr.tag {
        SlotRangeTag::None => ("none", None),
        SlotRangeTag::Migrating(m) => ("migrating", Some(m)),
        SlotRangeTag::Importing(m) => ("importing", Some(m)),
    };
    let meta = match meta {
        None => json!({"epoch": 0, "sp": "", "sn": "", "dp": "", "dn": ""}),
        Some(m) => json!({
            "epoch": m.epoch, "sp": m.src_proxy_address, "sn": m.src_node_address,
            "dp": m.dst_proxy_address, "dn": m.dst_node_address,
        }),
    };
    json!({"rl": rl, "tag": tag, "meta": meta})
}

pub fn node_json(n: &Node) -> Value {
    let peers: Vec<Value> = n
        .get_repl_meta()
        .get_peers()
        .iter()
        .map(|p| json!({"node": p.node_address, "proxy": p.proxy_address}))
        .collect();
    json!({
        "addr": n.get_address(),
        "proxy": n.get_proxy_address(),
        "role": match n.get_role() { Role::Master => "master", Role::Replica => "replica" },
        "peers": peers,
        "slots": n.get_slots().iter().map(slot_range_json).collect::<Vec<_>>(),
    })
}

pub fn cluster_view_json(c: &Cluster) -> Value {
    let cfg = serde_json::to_value(c.get_config()).unwrap_or(Value::Null);
    json!({
        "name": c.get_name().to_string(),
        "epoch": c.get_epoch(),
        "config": config_json(&cfg),
        "nodes": c.get_nodes().iter().map(node_json).collect::<Vec<_>>(),
    })
}

pub fn proxy_view_json(p: &Proxy) -> Value {
    // `Proxy::get_nodes` hides nodes of free proxies; use the serde form to see everything served.
    let raw = serde_json::to_value(p).unwrap_or(Value::Null);
    let nodes: Vec<Node> = serde_json::from_value(raw["nodes"].clone()).unwrap_or_default();
    let cfg = match p.get_cluster_config() {
        Some(c) => config_json(&serde_json::to_value(c).unwrap_or(Value::Null)),
        None => json!({"compression": "-", "mmt": 0, "mbt": 0, "si": 0, "sc": 0}),
    };
    json!({
        "addr": p.get_address(),
        "cluster": p.get_cluster_name().map(|c| c.to_string()).unwrap_or_default(),
        "epoch": p.get_epoch(),
        "config": cfg,
        "nodes": nodes.iter().map(node_json).collect::<Vec<_>>(),
        "peers": p.get_peers().iter().map(|pp| json!({
            "proxy": pp.proxy_address,
            "slots": pp.slots.iter().map(slot_range_json).collect::<Vec<_>>(),
        })).collect::<Vec<_>>(),
    })
}

// ---------------------------------------------------------------------------------------------
// operations
// ---------------------------------------------------------------------------------------------

#[derive(Debug, Clone, Serialize, Deserialize)]
#[serde(tag = "op")]
pub enum Op {
    AddProxy { host: u32, idx: u32, explicit_host: bool, index: Option<usize> },
    /// symbolic variant: register again the k-th (sorted) proxy of the failed list
    ReAddFailed { k: usize },
    RemoveProxy { addr: String },
    AddCluster { name: String, n: usize },
    RemoveCluster { name: String },
    AddNodes { name: String, n: usize },
    ScaleUpTo { name: String, n: usize },
    MigrateSlots { name: String },
    ScaleDown { name: String, n: usize },
    AutoScale { name: String, n: usize },
    DeleteFree { name: String },
    /// commit the k-th migrating(out) entry of the cluster view (limit 0) in one of several forms
    Commit { name: String, k: usize, form: String },
    Failover { addr: String },
    /// symbolic variant: the proxy at (chunk, half) of the cluster
    FailoverAt { name: String, chunk: usize, half: usize },
    Balance { name: String },
    ChangeConfig { name: String, key: String, value: String },
    AddFailure { addr: String, reporter: String },
    /// shift every stored report into the past by `secs`
    AgeFailures { secs: i64 },
    GetFailures,
    ForceBump { delta: i64 },
    RecoverEpoch { max_proxy_epoch: u64 },
    /// restart the broker from the snapshot taken after event `at` (0 = empty)
    RestartFrom { at: usize },
    CheckResource,
}

pub struct World {
    pub svc: Arc<MemBrokerService>,
    pub limit: u64,
    pub ordered: bool,
    pub ttl: u64,
    pub quorum: u64,
    pub snapshots: Vec<Value>, // raw serde store after each event (index = event number)
}

fn err_code(e: &undermoon::broker::MetaStoreError) -> String {
    e.to_code().to_string()
}

pub fn now_secs() -> i64 {
    chrono::Utc::now().timestamp()
}

impl World {
    pub fn new(limit: u64, ordered: bool, ttl: u64, quorum: u64) -> Result<Self, String> {
        Ok(Self {
            svc: Arc::new(mk_service(limit, ordered, ttl, quorum, None)?),
            limit,
            ordered,
            ttl,
            quorum,
            snapshots: vec![],
        })
    }

    pub async fn raw_store(&self) -> Value {
        match self.svc.get_all_data().await {
            Ok(ms) => serde_json::to_value(&ms).unwrap_or(Value::Null),
            Err(_) => Value::Null,
        }
    }

    /// Everything observable after an operation.
    pub async fn observe(&self) -> (Value, Value) {
        let now = now_secs();
        let ms = match self.svc.get_all_data().await {
            Ok(ms) => ms,
            Err(e) => return (json!({"error": e.to_string()}), Value::Null),
        };
        let raw = serde_json::to_value(&ms).unwrap_or(Value::Null);
        let s = project_store(&raw, now);
        let mut cluster_names: Vec<String> = ms.get_cluster_names().iter().map(|c| c.to_string()).collect();
        cluster_names.sort();
        let mut addrs: Vec<String> = ms.get_proxies();
        addrs.sort();
        let mut views = vec![];
        for lim in LIMITS.iter() {
            let cs: Vec<Value> = cluster_names
                .iter()
                .filter_map(|n| ms.get_cluster_by_name(n, *lim))
                .map(|c| cluster_view_json(&c))
                .collect();
            let ps: Vec<Value> = addrs
                .iter()
                .filter_map(|a| ms.get_proxy_by_address(a, *lim))
                .map(|p| proxy_view_json(&p))
                .collect();
            let infos: Vec<Value> = cluster_names
                .iter()
                .filter_map(|n| ms.get_cluster_info_by_name(n, *lim))
                .map(|i| json!({"name": i.name.to_string(), "nn": i.node_number, "nws": i.node_number_with_slots, "mig": i.is_migrating}))
                .collect();
            views.push(json!({"limit": lim, "clusters": cs, "proxies": ps, "infos": infos}));
        }
        // the same queries through the service API (its configured limit)
        let mut svc_clusters = vec![];
        for n in cluster_names.iter() {
            if let Ok(Some(c)) = self.svc.get_cluster_by_name(n).await {
                svc_clusters.push(cluster_view_json(&c));
            }
        }
        let mut svc_proxies = vec![];
        for a in addrs.iter() {
            if let Ok(Some(p)) = self.svc.get_proxy_by_address(a).await {
                svc_proxies.push(proxy_view_json(&p));
            }
        }
        let check = ms.check().is_ok();
        let mut failed = self.svc.get_failed_proxies().await.unwrap_or_default();
        failed.sort();
        let gepoch = self.svc.get_epoch().await.unwrap_or(0);
        let obs = json!({
            "views": views,
            "svc": {"limit": self.limit, "clusters": svc_clusters, "proxies": svc_proxies,
                    "failed": failed, "gepoch": gepoch},
            "check": check,
        });
        (s, obs)
    }

    fn cluster_of<'a>(raw: &'a Value, name: &str) -> Option<&'a Value> {
        raw["clusters"].get(name)
    }

    /// Resolve a symbolic op against the current implementation state and execute it.
    /// Returns (result code, resolved arguments, extra outputs).
    pub async fn apply(&mut self, op: &Op) -> (String, Value, Value) {
        let fut = self.apply_inner(op);
        match AssertUnwindSafe(fut).catch_unwind().await {
            Ok(r) => r,
            Err(p) => {
                let msg = if let Some(s) = p.downcast_ref::<String>() {
                    s.clone()
                } else if let Some(s) = p.downcast_ref::<&str>() {
                    s.to_string()
                } else {
                    "?".to_string()
                };
                // the arguments could not be resolved against the state: record the symbolic operation itself
                ("panic".to_string(), json!({ "symbolic": serde_json::to_value(op).unwrap_or(Value::Null) }), json!({ "panic": msg }))
            }
        }
    }

    async fn apply_inner(&mut self, op: &Op) -> (String, Value, Value) {
        let r = |x: Result<(), undermoon::broker::MetaStoreError>| match x {
            Ok(()) => "OK".to_string(),
            Err(e) => err_code(&e),
        };
        match op {
            Op::AddProxy { host, idx, explicit_host, index } => {
                let addr = proxy_addr(*host, *idx);
                let nodes = node_addrs(*host, *idx);
                let payload = json!({
                    "proxy_address": addr, "nodes": nodes,
                    "host": if *explicit_host { Value::String(host_name(*host)) } else { Value::Null },
                    "index": index,
                });
                let p = match serde_json::from_value(payload) {
                    Ok(p) => p,
                    Err(e) => return ("harness_error".into(), json!({}), json!({"e": e.to_string()})),
                };
                let res = r(self.svc.add_proxy(p).await);
                (res, json!({"addr": addr, "host": host_name(*host), "nodes": nodes,
                             "index": index.map(|i| i as i64).unwrap_or(-1)}), json!({}))
            }
            Op::ReAddFailed { k } => {
                let mut failed: Vec<String> = self.raw_store().await["failed_proxies"].as_array().map(|a| a.iter().filter_map(|x| x.as_str().map(String::from)).collect()).unwrap_or_default();
                failed.sort();
                let (host, idx) = failed.get(if failed.is_empty() { 0 } else { *k % failed.len() }).and_then(|a| parse_addr(a)).unwrap_or((1, 0));
                let addr = proxy_addr(host, idx);
                let nodes = node_addrs(host, idx);
                let payload = json!({"proxy_address": addr, "nodes": nodes, "host": host_name(host), "index": Value::Null});
                let p = match serde_json::from_value(payload) {
                    Ok(p) => p,
                    Err(e) => return ("harness_error".into(), json!({}), json!({"e": e.to_string()})),
                };
                let res = r(self.svc.add_proxy(p).await);
                (res, json!({"addr": addr, "host": host_name(host), "nodes": nodes, "index": -1}), json!({}))
            }
            Op::RemoveProxy { addr } => {
                let res = r(self.svc.remove_proxy(addr.clone()).await);
                (res, json!({"addr": addr}), json!({}))
            }
            Op::AddCluster { name, n } => {
                let res = r(self.svc.add_cluster(name.clone(), *n).await);
                (res, json!({"name": name, "n": n}), json!({}))
            }
            Op::RemoveCluster { name } => {
                let res = r(self.svc.remove_cluster(name.clone()).await);
                (res, json!({"name": name}), json!({}))
            }
            Op::AddNodes { name, n } => {
                let x = self.svc.auto_add_nodes(name.clone(), *n).await;
                let (res, out) = match x {
                    Ok(nodes) => ("OK".to_string(), json!({"new_nodes": nodes.iter().map(node_json).collect::<Vec<_>>()})),
                    Err(e) => (err_code(&e), json!({})),
                };
                (res, json!({"name": name, "n": n}), out)
            }
            Op::ScaleUpTo { name, n } => {
                let x = self.svc.auto_scale_up_nodes(name.clone(), *n).await;
                let (res, out) = match x {
                    Ok(nodes) => ("OK".to_string(), json!({"new_nodes": nodes.iter().map(node_json).collect::<Vec<_>>()})),
                    Err(e) => (err_code(&e), json!({})),
                };
                (res, json!({"name": name, "n": n}), out)
            }
            Op::MigrateSlots { name } => {
                let res = r(self.svc.migrate_slots(name.clone()).await);
                (res, json!({"name": name}), json!({}))
            }
            Op::ScaleDown { name, n } => {
                let res = r(self.svc.migrate_slots_to_scale_down(name.clone(), *n).await);
                (res, json!({"name": name, "n": n}), json!({}))
            }
            Op::AutoScale { name, n } => {
                let res = r(self.svc.auto_scale_node_number(name.clone(), *n).await);
                (res, json!({"name": name, "n": n}), json!({}))
            }
            Op::DeleteFree { name } => {
                let res = r(self.svc.auto_delete_free_nodes(name.clone()).await);
                (res, json!({"name": name}), json!({}))
            }
            Op::Commit { name, k, form } => {
                // find the k-th migrating(out) slot range in the unlimited cluster view
                let ms = match self.svc.get_all_data().await {
                    Ok(ms) => ms,
                    Err(e) => return (err_code(&e), json!({}), json!({})),
                };
                let mut outs: Vec<SlotRange> = vec![];
                if let Some(c) = ms.get_cluster_by_name(name, 0) {
                    for n in c.get_nodes() {
                        for sr in n.get_slots() {
                            if sr.tag.is_migrating() {
                                outs.push(sr.clone());
                            }
                        }
                    }
                }
                let cname = match std::convert::TryFrom::try_from(name.as_str()) {
                    Ok(c) => c,
                    Err(_) => return ("harness_error".into(), json!({}), json!({})),
                };
                let mut sr = if outs.is_empty() {
                    // no migration: fabricate a descriptor
                    SlotRange {
                        range_list: undermoon::common::cluster::RangeList::from_single_range(
                            undermoon::common::cluster::Range(0, 100),
                        ),
                        tag: SlotRangeTag::Migrating(MigrationMeta {
                            epoch: 1,
                            src_proxy_address: "127.0.0.1:7000".into(),
                            src_node_address: "127.0.0.1:6000".into(),
                            dst_proxy_address: "127.0.0.2:7000".into(),
                            dst_node_address: "127.0.0.2:6000".into(),
                        }),
                    }
                } else {
                    outs[*k % outs.len()].clone()
                };
                let meta = sr.tag.get_migration_meta().cloned();
                match (form.as_str(), meta) {
                    ("imp", Some(m)) => sr.tag = SlotRangeTag::Importing(m),
                    ("stale", Some(mut m)) => {
                        m.epoch = m.epoch.saturating_sub(1);
                        sr.tag = SlotRangeTag::Migrating(m)
                    }
                    ("future", Some(mut m)) => {
                        m.epoch += 1;
                        sr.tag = SlotRangeTag::Migrating(m)
                    }
                    ("badrange", Some(_)) => {
                        let rs = sr.range_list.get_mut_ranges();
                        if let Some(last) = rs.last_mut() {
                            if last.end() > last.start() {
                                *last.end_mut() -= 1;
                            } else {
                                *last.end_mut() += 1;
                            }
                        }
                    }
                    ("none", _) => sr.tag = SlotRangeTag::None,
                    _ => {}
                }
                let task = MigrationTaskMeta { cluster_name: cname, slot_range: sr.clone() };
                let res = r(self.svc.commit_migration(task).await);
                (res, json!({"name": name, "form": form, "task": slot_range_json(&sr), "pending": outs.len()}), json!({}))
            }
            Op::Failover { addr } => self.failover(addr.clone()).await,
            Op::FailoverAt { name, chunk, half } => {
                let raw = self.raw_store().await;
                let addr = Self::cluster_of(&raw, name)
                    .and_then(|c| c["chunks"].as_array())
                    .and_then(|chs| if chs.is_empty() { None } else { chs.get(*chunk % chs.len()) })
                    .and_then(|ch| ch["proxy_addresses"][*half % 2].as_str())
                    .map(String::from)
                    .unwrap_or_else(|| "127.0.0.99:7000".to_string());
                self.failover(addr).await
            }
            Op::Balance { name } => {
                let res = r(self.svc.balance_masters(name.clone()).await);
                (res, json!({"name": name}), json!({}))
            }
            Op::ChangeConfig { name, key, value } => {
                let mut m = HashMap::new();
                m.insert(key.clone(), value.clone());
                let res = r(self.svc.change_config(name.clone(), m).await);
                (res, json!({"name": name, "key": key, "value": value}), json!({}))
            }
            Op::AddFailure { addr, reporter } => {
                let res = r(self.svc.add_failure(addr.clone(), reporter.clone()).await);
                (res, json!({"addr": addr, "reporter": reporter}), json!({}))
            }
            Op::AgeFailures { secs } => {
                // rewrite the stored report times and load the store back through the restore path
                let mut ms = match self.svc.get_all_data().await {
                    Ok(ms) => ms,
                    Err(e) => return (err_code(&e), json!({}), json!({})),
                };
                for reps in ms.failures.values_mut() {
                    for t in reps.values_mut() {
                        *t -= *secs;
                    }
                }
                let res = r(self.svc.restore_metadata(ms).await);
                (res, json!({"secs": secs}), json!({}))
            }
            Op::GetFailures => {
                let x = self.svc.get_failures().await;
                match x {
                    Ok(mut v) => {
                        v.sort();
                        ("OK".into(), json!({"ttl": self.ttl, "quorum": self.quorum}), json!({"failures": v}))
                    }
                    Err(e) => (err_code(&e), json!({}), json!({})),
                }
            }
            Op::ForceBump { delta } => {
                let g = self.svc.get_epoch().await.unwrap_or(0) as i64;
                let e = (g + *delta).max(0) as u64;
                let res = r(self.svc.force_bump_all_epoch(e).await);
                (res, json!({"epoch": e}), json!({}))
            }
            Op::RecoverEpoch { max_proxy_epoch } => {
                undermoon::verif_hooks::set_epoch_override(Some((*max_proxy_epoch, vec![])));
                let x = self.svc.recover_epoch().await;
                undermoon::verif_hooks::set_epoch_override(None);
                let res = match x {
                    Ok(_) => "OK".to_string(),
                    Err(e) => err_code(&e),
                };
                (res, json!({"max_proxy_epoch": max_proxy_epoch}), json!({}))
            }
            Op::RestartFrom { at } => {
                let snap = if self.snapshots.is_empty() || *at == usize::MAX {
                    None
                } else {
                    Some(self.snapshots[*at % self.snapshots.len()].clone())
                };
                let at_res = if self.snapshots.is_empty() || *at == usize::MAX { 0 } else { *at % self.snapshots.len() + 1 };
                match mk_service(self.limit, self.ordered, self.ttl, self.quorum, snap) {
                    Ok(svc) => {
                        self.svc = Arc::new(svc);
                        ("OK".into(), json!({"at": at_res}), json!({}))
                    }
                    Err(e) => ("harness_error".into(), json!({"at": at_res}), json!({ "e": e })),
                }
            }
            Op::CheckResource => {
                let x = self.svc.check_resource_for_failures().await;
                match x {
                    Ok(mut v) => {
                        v.sort();
                        ("OK".into(), json!({}), json!({"hosts_cannot_fail": v}))
                    }
                    Err(e) => (err_code(&e), json!({}), json!({})),
                }
            }
        }
    }

    async fn failover(&mut self, addr: String) -> (String, Value, Value) {
        let x = self.svc.replace_failed_proxy(addr.clone()).await;
        match x {
            Ok(Some(p)) => ("OK".into(), json!({"addr": addr}), json!({"replaced": true, "new": proxy_view_json(&p)})),
            Ok(None) => ("OK".into(), json!({"addr": addr}), json!({"replaced": false})),
            Err(e) => (err_code(&e), json!({"addr": addr}), json!({"replaced": false})),
        }
    }
}

// ---------------------------------------------------------------------------------------------
// state-aware random generation of operations
// ---------------------------------------------------------------------------------------------

pub struct Gen {
    pub rng: StdRng,
    pub hosts: Vec<u32>,          // host ids in play
    pub per_host: HashMap<u32, u32>, // proxies registered so far per host (next idx)
    pub ordered: bool,
    pub next_index: usize,
    pub profile: String,
}

impl Gen {
    pub fn new(seed: u64, ordered: bool, profile: &str) -> Self {
        Self {
            rng: StdRng::seed_from_u64(seed),
            hosts: vec![],
            per_host: HashMap::new(),
            ordered,
            next_index: 0,
            profile: profile.to_string(),
        }
    }

    /// initial registrations: a host/proxy layout, possibly skewed / odd
    pub fn layout(&mut self) -> Vec<Op> {
        // "scalein": enough proxies for 12-16 node clusters, so that scale-in removes two or more chunks
        let scalein = self.profile == "scalein";
        let nh = if scalein { self.rng.gen_range(3..=5) } else { self.rng.gen_range(2..=5) };
        self.hosts = (1..=nh).collect();
        let shape = if scalein { 3 } else { self.rng.gen_range(0..4) };
        let mut ops = vec![];
        let mut counts = vec![];
        for h in 0..nh {
            let c = match shape {
                0 => 2,                                   // uniform
                1 => self.rng.gen_range(1..=4),           // random
                2 => if h == 0 { 4 } else { self.rng.gen_range(1..=2) }, // skewed
                _ => 3,
            };
            counts.push(c);
        }
        // interleave registration order
        let mut todo: Vec<(u32, u32)> = vec![];
        for (h, c) in counts.iter().enumerate() {
            for i in 0..*c {
                todo.push((h as u32 + 1, i));
            }
            self.per_host.insert(h as u32 + 1, *c);
        }
        todo.shuffle(&mut self.rng);
        if self.ordered {
            // ordered mode pairs by index: keep (host) alternating so that chunks span hosts mostly
            todo.sort_by_key(|(h, i)| (*i, *h));
        }
        for (h, i) in todo {
            let index = if self.ordered {
                let x = self.next_index;
                self.next_index += 1;
                Some(x)
            } else if self.rng.gen_bool(0.2) {
                Some(self.rng.gen_range(0..5))
            } else {
                None
            };
            ops.push(Op::AddProxy { host: h, idx: i, explicit_host: self.rng.gen_bool(0.5), index });
        }
        ops
    }

    fn pick_cluster(&mut self, raw: &Value) -> String {
        let names: Vec<String> = raw["clusters"].as_object().map(|m| m.keys().cloned().collect()).unwrap_or_default();
        if names.is_empty() || self.rng.gen_bool(0.03) {
            ["c1", "c2", "nope"].choose(&mut self.rng).unwrap().to_string()
        } else {
            names.choose(&mut self.rng).unwrap().clone()
        }
    }

    fn pick_proxy(&mut self, raw: &Value, want_in_cluster: Option<bool>) -> String {
        let mut v: Vec<String> = vec![];
        if let Some(m) = raw["all_proxies"].as_object() {
            for (a, p) in m.iter() {
                let inc = !p["cluster"].is_null();
                if want_in_cluster.map(|w| w == inc).unwrap_or(true) {
                    v.push(a.clone());
                }
            }
        }
        v.sort();
        if v.is_empty() || self.rng.gen_bool(0.03) {
            "127.0.0.99:7000".to_string()
        } else {
            v.choose(&mut self.rng).unwrap().clone()
        }
    }

    /// choose the next operation given the raw serde store
    pub fn next(&mut self, raw: &Value, step: usize) -> Op {
        let clusters = raw["clusters"].as_object();
        let ncl = clusters.map(|m| m.len()).unwrap_or(0);
        let mut migrating = false;
        let mut has_empty = false;
        let mut nchunks = 0;
        if let Some(m) = clusters {
            for c in m.values() {
                if let Some(chs) = c["chunks"].as_array() {
                    nchunks = nchunks.max(chs.len());
                    for ch in chs {
                        if ch["migrating_slots"].as_array().map(|a| a.iter().any(|h| h.as_array().map(|x| !x.is_empty()).unwrap_or(false))).unwrap_or(false) {
                            migrating = true;
                        }
                        if ch["stable_slots"].as_array().map(|a| a.iter().any(|s| s.is_null())).unwrap_or(false) {
                            has_empty = true;
                        }
                    }
                }
            }
        }
        let fail_heavy = self.profile == "failover";
        let quorum_heavy = self.profile == "quorum";
        let scalein = self.profile == "scalein";
        // weights
        let mut w: Vec<(&str, u32)> = vec![];
        if ncl == 0 { w.push(("add_cluster", 40)); } else if ncl < 2 && !self.ordered { w.push(("add_cluster", 3)); }
        if ncl > 0 {
            if migrating {
                w.push(("commit", 40));
                w.push(("commit_bad", 4));
                w.push(("refused", 6));
                if scalein { w.push(("delete_free", 45)); }
                w.push(("failover", if fail_heavy { 25 } else { 10 }));
            } else {
                w.push(("commit_bad", 2));
                w.push(("add_nodes", 12));
                if has_empty { w.push(("migrate", 25)); w.push(("delete_free", 6)); } else { w.push(("migrate", 2)); w.push(("delete_free", 2)); }
                if nchunks > 1 && !has_empty { w.push(("scale_down", if scalein { 60 } else { 12 })); } else { w.push(("scale_down", 2)); }
                w.push(("auto_scale", 5));
                w.push(("failover", if fail_heavy { 20 } else { 7 }));
                w.push(("config", 4));
                w.push(("remove_cluster", 1));
            }
            w.push(("balance", if fail_heavy { 8 } else { 4 }));
        }
        w.push(("add_proxy", if fail_heavy { 8 } else { 5 }));
        w.push(("remove_proxy", 3));
        w.push(("fail_free", 2));
        w.push(("add_failure", if quorum_heavy { 30 } else { 5 }));
        w.push(("age", if quorum_heavy { 12 } else { 2 }));
        w.push(("get_failures", if quorum_heavy { 20 } else { 3 }));
        w.push(("epoch", 1));
        w.push(("restart", 1));
        w.push(("check_resource", 1));
        let total: u32 = w.iter().map(|x| x.1).sum();
        let mut t = self.rng.gen_range(0..total);
        let mut kind = "add_proxy";
        for (k, wt) in w.iter() {
            if t < *wt { kind = k; break; }
            t -= wt;
        }
        let _ = step;
        match kind {
            "add_cluster" => {
                let name = if clusters.map(|m| m.contains_key("c1")).unwrap_or(false) { "c2" } else { "c1" };
                let n = if self.profile == "scalein" { *[12usize, 16, 12, 8].choose(&mut self.rng).unwrap() } else { *[4usize, 4, 8, 8, 12, 0, 6, 16].choose(&mut self.rng).unwrap() };
                Op::AddCluster { name: name.to_string(), n }
            }
            "commit" => {
                let name = self.pick_cluster(raw);
                let form = if self.rng.gen_bool(0.3) { "imp" } else { "mig" };
                Op::Commit { name, k: self.rng.gen_range(0..8), form: form.to_string() }
            }
            "commit_bad" => {
                let name = self.pick_cluster(raw);
                let form = *["stale", "future", "badrange", "none"].choose(&mut self.rng).unwrap();
                Op::Commit { name, k: self.rng.gen_range(0..8), form: form.to_string() }
            }
            "refused" => {
                let name = self.pick_cluster(raw);
                match self.rng.gen_range(0..6) {
                    0 => Op::AddNodes { name, n: 4 },
                    1 => Op::MigrateSlots { name },
                    2 => Op::ScaleDown { name, n: 4 },
                    3 => Op::ChangeConfig { name, key: "compression_strategy".into(), value: "allow_all".into() },
                    4 => Op::DeleteFree { name },
                    _ => Op::AutoScale { name, n: 8 },
                }
            }
            "add_nodes" => {
                let name = self.pick_cluster(raw);
                if self.rng.gen_bool(0.5) {
                    Op::AddNodes { name, n: *[4usize, 4, 8, 2, 0].choose(&mut self.rng).unwrap() }
                } else {
                    Op::ScaleUpTo { name, n: *[8usize, 12, 16, 4].choose(&mut self.rng).unwrap() }
                }
            }
            "migrate" => Op::MigrateSlots { name: self.pick_cluster(raw) },
            "delete_free" => Op::DeleteFree { name: self.pick_cluster(raw) },
            "scale_down" => Op::ScaleDown { name: self.pick_cluster(raw), n: *[4usize, 4, 8, 0, 6, 12].choose(&mut self.rng).unwrap() },
            "auto_scale" => Op::AutoScale { name: self.pick_cluster(raw), n: *[4usize, 8, 12, 6].choose(&mut self.rng).unwrap() },
            "failover" => {
                if self.rng.gen_bool(0.5) {
                    Op::Failover { addr: self.pick_proxy(raw, Some(true)) }
                } else {
                    Op::FailoverAt { name: self.pick_cluster(raw), chunk: self.rng.gen_range(0..4), half: self.rng.gen_range(0..2) }
                }
            }
            "fail_free" => Op::Failover { addr: self.pick_proxy(raw, Some(false)) },
            "config" => {
                let name = self.pick_cluster(raw);
                let (k, v) = *[
                    ("compression_strategy", "allow_all"), ("compression_strategy", "set_get_only"),
                    ("compression_strategy", "disabled"), ("compression_strategy", "bogus"),
                    ("migration_scan_count", "32"), ("migration_scan_count", "0"),
                    ("migration_max_blocking_time", "5000"), ("nofield", "1"),
                ].choose(&mut self.rng).unwrap();
                Op::ChangeConfig { name, key: k.into(), value: v.into() }
            }
            "remove_cluster" => Op::RemoveCluster { name: self.pick_cluster(raw) },
            "balance" => Op::Balance { name: self.pick_cluster(raw) },
            "add_proxy" => {
                // a new proxy on some host, or a re-registration of an existing one
                if self.rng.gen_bool(0.4) {
                    let a = self.pick_proxy(raw, None);
                    // parse back host/idx
                    let (h, i) = parse_addr(&a).unwrap_or((1, 0));
                    let index = if self.ordered { Some(self.rng.gen_range(0..8)) } else { None };
                    Op::AddProxy { host: h, idx: i, explicit_host: self.rng.gen_bool(0.5), index }
                } else {
                    let nh = self.hosts.len() as u32;
                    let h = self.rng.gen_range(1..=(nh + 1).min(6));
                    if !self.hosts.contains(&h) { self.hosts.push(h); }
                    let i = *self.per_host.get(&h).unwrap_or(&0);
                    self.per_host.insert(h, i + 1);
                    let index = if self.ordered { let x = self.next_index; self.next_index += 1; Some(x) } else { None };
                    Op::AddProxy { host: h, idx: i, explicit_host: self.rng.gen_bool(0.5), index }
                }
            }
            "remove_proxy" => { let want = if self.rng.gen_bool(0.7) { Some(false) } else { None }; Op::RemoveProxy { addr: self.pick_proxy(raw, want) } }
            "add_failure" => {
                let addr = self.pick_proxy(raw, None);
                let reporter = format!("r{}", self.rng.gen_range(1..=4));
                Op::AddFailure { addr, reporter }
            }
            "age" => Op::AgeFailures { secs: *[20i64, 50, 100, 1000, 5000].choose(&mut self.rng).unwrap() },
            "get_failures" => Op::GetFailures,
            "epoch" => {
                if self.rng.gen_bool(0.5) {
                    Op::ForceBump { delta: *[-1i64, 0, 1, 5, 100].choose(&mut self.rng).unwrap() }
                } else {
                    let g = raw["global_epoch"].as_u64().unwrap_or(0);
                    Op::RecoverEpoch { max_proxy_epoch: (g as i64 + *[-3i64, 0, 1, 7].choose(&mut self.rng).unwrap()).max(0) as u64 }
                }
            }
            "restart" => Op::RestartFrom { at: self.rng.gen_range(0..1000) },
            _ => Op::CheckResource,
        }
    }
}

pub fn parse_addr(a: &str) -> Option<(u32, u32)> {
    let mut it = a.split(':');
    let ip = it.next()?;
    let port: u32 = it.next()?.parse().ok()?;
    let h: u32 = ip.rsplit('.').next()?.parse().ok()?;
    Some((h, port.checked_sub(7000)?))
}

// ---------------------------------------------------------------------------------------------
// trace production
// ---------------------------------------------------------------------------------------------

pub struct TraceCfg {
    pub seed: u64,
    pub steps: usize,
    pub limit: u64,
    pub ordered: bool,
    pub ttl: u64,
    pub quorum: u64,
    pub profile: String,
    pub ops: Option<Vec<Op>>, // replay a fixed list instead of generating
}

/// Run one trace; every line is one event. Returns the executed ops.
pub async fn run_trace<W: Write>(cfg: &TraceCfg, out: &mut W) -> Result<Vec<Op>, String> {
    let mut world = World::new(cfg.limit, cfg.ordered, cfg.ttl, cfg.quorum)?;
    let mut gen = Gen::new(cfg.seed, cfg.ordered, &cfg.profile);
    let mut executed = vec![];
    let (s0, obs0) = world.observe().await;
    let line = json!({"seq": 0, "op": "Init", "args": {"limit": cfg.limit, "ordered": cfg.ordered, "ttl": cfg.ttl, "quorum": cfg.quorum},
        "res": "OK", "out": {}, "S": s0, "obs": obs0});
    writeln!(out, "{}", line).map_err(|e| e.to_string())?;
    world.snapshots.push(world.raw_store().await);

    let mut queue: Vec<Op> = match &cfg.ops {
        Some(ops) => ops.clone(),
        None => gen.layout(),
    };
    queue.reverse();
    let mut seq = 0;
    loop {
        let op = match queue.pop() {
            Some(op) => op,
            None => {
                if cfg.ops.is_some() || seq >= cfg.steps {
                    break;
                }
                let raw = world.raw_store().await;
                gen.next(&raw, seq)
            }
        };
        seq += 1;
        let (res, args, outv) = world.apply(&op).await;
        let (s, obs) = world.observe().await;
        let opname = serde_json::to_value(&op).ok().and_then(|v| v["op"].as_str().map(String::from)).unwrap_or_default();
        let opname = if opname == "FailoverAt" { "Failover".to_string() } else if opname == "ReAddFailed" { "AddProxy".to_string() } else { opname };
        let line = json!({"seq": seq, "op": opname, "args": args, "res": res, "out": outv, "S": s, "obs": obs});
        writeln!(out, "{}", line).map_err(|e| e.to_string())?;
        world.snapshots.push(world.raw_store().await);
        executed.push(op);
    }
    Ok(executed)
}
