//! C11 rig: the real BlockingMap / TaskBlockingQueue / BlockingHandle on real threads under `sched`.
use crate::sched::Sched;
use crossbeam_channel as cbc;
use parking_lot::Mutex;
use serde_json::{json, Value};
use std::io::Write;
use std::sync::atomic::{AtomicU8, Ordering};
use std::sync::Arc;
use undermoon::protocol::{RespPacket, RespVec};
use undermoon::proxy::backend::{CmdTask, SenderBackendError};
use undermoon::proxy::blocking::{
    BlockingCmdTaskSender, BlockingHint, BlockingHintTask, BlockingMap, BlockingState, CounterTask,
    TaskBlockingController, TaskBlockingQueueSenderFactory,
};
use undermoon::proxy::command::{CommandError, CommandResult};
use undermoon::proxy::sender::{CmdTaskSender, CmdTaskSenderFactory};
use undermoon::proxy::slowlog::TaskEvent;

pub struct RigTask {
    pub id: String,
}

impl CmdTask for RigTask {
    type Pkt = RespPacket;
    type TaskType = ();
    type Context = ();
    fn get_key(&self) -> Option<&[u8]> {
        Some(self.id.as_bytes())
    }
    fn get_slot(&self) -> Option<usize> {
        None
    }
    fn set_result(self, _result: CommandResult<Self::Pkt>) {}
    fn get_packet(&self) -> Self::Pkt {
        RespPacket::Data(undermoon::protocol::Resp::Simple(b"x".to_vec()))
    }
    fn get_type(&self) -> Self::TaskType {}
    fn get_context(&self) -> Self::Context {}
    fn set_resp_result(self, _result: Result<RespVec, CommandError>) {}
    fn log_event(&mut self, _event: TaskEvent) {}
}

/// the inner (backend) sender: records and forwards the CounterTask to the completer
pub struct InnerSender {
    sched: Sched,
    tx: cbc::Sender<CounterTask<RigTask>>,
}
impl CmdTaskSender for InnerSender {
    type Task = CounterTask<RigTask>;
    fn send(&self, t: Self::Task) -> Result<(), SenderBackendError<Self::Task>> {
        let id = t.get_key().map(|k| String::from_utf8_lossy(k).to_string()).unwrap_or_default();
        self.sched.event(json!({"ev": "inner", "task": id}));
        let _ = self.tx.send(t);
        Ok(())
    }
}
pub struct InnerFactory {
    sched: Sched,
    tx: cbc::Sender<CounterTask<RigTask>>,
}
impl CmdTaskSenderFactory for InnerFactory {
    type Sender = InnerSender;
    fn create(&self, _address: String) -> Self::Sender {
        InnerSender { sched: self.sched.clone(), tx: self.tx.clone() }
    }
}

/// the re-dispatch sender
pub struct Redispatch {
    sched: Sched,
    got: Mutex<Vec<String>>,
}
impl CmdTaskSender for Redispatch {
    type Task = RigTask;
    fn send(&self, t: Self::Task) -> Result<(), SenderBackendError<Self::Task>> {
        self.sched.event(json!({"ev": "redispatch", "task": t.id}));
        self.got.lock().push(t.id);
        Ok(())
    }
}
impl BlockingCmdTaskSender for Redispatch {}

const PRE_CHECK: u8 = 0;
const PRE_BLOCKING: u8 = 1;
const PRE_SWITCH: u8 = 2;
const SCANNING: u8 = 3;

pub struct RunCfg {
    pub senders: Vec<(String, String)>, // (name, target blocker or "none")
    pub blockers: Vec<String>,
    pub hints: Vec<String>,
    pub seed: u64,
}

/// RedisScanMigratingTask::send's hint computation (replicated; see DESIGN C11 assumptions)
fn hint_of(m: u8, st: &BlockingState) -> Option<BlockingHint> {
    match m {
        PRE_CHECK => Some(BlockingHint::NotBlockingInMigration(st.term)),
        PRE_BLOCKING | PRE_SWITCH => Some(if st.blocking {
            BlockingHint::Blocking
        } else {
            BlockingHint::NotBlockingInMigration(st.term)
        }),
        _ => None,
    }
}

pub fn run_one(cfg: &RunCfg) -> Vec<Value> {
    let sched = Sched::new();
    let (tx, rx) = cbc::unbounded::<CounterTask<RigTask>>();
    let rx_probe = rx.clone();
    let redis = Arc::new(Redispatch { sched: sched.clone(), got: Mutex::new(vec![]) });
    let map = Arc::new(BlockingMap::new(InnerFactory { sched: sched.clone(), tx }, redis.clone()));
    let addr = "127.0.0.1:6000".to_string();
    let ctrl = map.get_blocking_queue(addr.clone());
    let factory = TaskBlockingQueueSenderFactory::new(map.clone());
    let migs: Arc<Vec<(String, AtomicU8)>> =
        Arc::new(cfg.blockers.iter().map(|b| (b.clone(), AtomicU8::new(PRE_CHECK))).collect());

    let mut handles = vec![];
    for (name, _) in cfg.senders.iter() {
        sched.register(name);
    }
    for b in cfg.blockers.iter() {
        sched.register(b);
    }
    sched.register("redis");

    for (name, target) in cfg.senders.iter() {
        let s = sched.clone();
        let name2 = name.clone();
        let target = target.clone();
        let migs = migs.clone();
        let ctrl = ctrl.clone();
        let sender = factory.create(addr.clone());
        handles.push(sched.spawn(name, move || {
            let mut tries = 0;
            loop {
                s.point("s_mig", 0);
                let m = migs.iter().find(|(b, _)| *b == target).map(|(_, a)| a.load(Ordering::SeqCst));
                s.point("s_hint", 0);
                let hint = match m {
                    None => Some(BlockingHint::NotBlocking),
                    Some(m) => hint_of(m, &ctrl.get_blocking_state()),
                };
                let hint = match hint {
                    None => {
                        s.event(json!({"ev": "moved", "task": name2}));
                        break;
                    }
                    Some(h) => h,
                };
                let task = BlockingHintTask::new(RigTask { id: name2.clone() }, hint);
                match sender.send(task) {
                    Ok(()) => break,
                    Err(SenderBackendError::Retry(_)) => {
                        tries += 1;
                        s.event(json!({"ev": "retry", "task": name2, "tries": tries}));
                        if tries >= 3 {
                            break;
                        }
                    }
                    Err(_) => {
                        s.event(json!({"ev": "send_error", "task": name2}));
                        break;
                    }
                }
            }
        }));
    }
    for b in cfg.blockers.iter() {
        let s = sched.clone();
        let b2 = b.clone();
        let migs = migs.clone();
        let ctrl = ctrl.clone();
        handles.push(sched.spawn(b, move || {
            let mig = &migs.iter().find(|(x, _)| *x == b2).expect("mig").1;
            s.point("b_pb", 0);
            mig.store(PRE_BLOCKING, Ordering::SeqCst);
            let handle = ctrl.start_blocking();
            while !ctrl.blocking_done() {}
            s.point("b_bar", 0);
            s.event(json!({"ev": "barrier_on", "t": b2}));
            mig.store(PRE_SWITCH, Ordering::SeqCst);
            s.point("b_sw", 0);
            mig.store(SCANNING, Ordering::SeqCst);
            s.event(json!({"ev": "drop_begin", "t": b2}));
            handle.stop();
            s.event(json!({"ev": "drop_end", "t": b2}));
        }));
    }
    {
        let s = sched.clone();
        handles.push(sched.spawn("redis", move || loop {
            // parked here while nothing is outstanding (the controller enables it when a task waits)
            s.point("c_wait", 0);
            match rx.try_recv() {
                Ok(t) => drop(t), // AutoCounter::drop -> hook "c_done"
                Err(_) => {
                    if s.stopping() {
                        break;
                    }
                }
            }
        }));
    }
    drop(factory);
    let log = sched.run(
        &cfg.hints,
        cfg.seed,
        5000,
        &|w: &str, label: &str| !(w == "redis" && label == "c_wait" && rx_probe.is_empty()),
        &["redis"],
    );
    let final_state = ctrl.get_blocking_state();
    drop(ctrl);
    drop(map);
    for h in handles {
        let _ = h.join();
    }
    let mut log = log;
    log.push(json!({"ev": "final", "blocking": final_state.blocking, "redispatched": redis.got.lock().clone()}));
    log
}

/// Produce `count` runs with a fixed configuration; each run starts with a "reset" line.
pub fn run_many<W: Write>(out: &mut W, count: u64, seed: u64, targets: &[String], nb: usize, hints_file: Option<&str>, hint_offset: usize, exact_seed: bool) {
    crate::sched::install_hooks();
    let hint_lists: Vec<Vec<String>> = match hints_file {
        Some(p) => std::fs::read_to_string(p)
            .map(|s| s.lines().filter_map(|l| serde_json::from_str(l).ok()).collect())
            .unwrap_or_default(),
        None => vec![],
    };
    let blockers: Vec<String> = (1..=nb).map(|j| format!("b{}", j)).collect();
    let senders: Vec<(String, String)> =
        targets.iter().enumerate().map(|(j, t)| (format!("s{}", j + 1), t.clone())).collect();
    for i in 0..count {
        let hints = if !hint_lists.is_empty() && i % 2 == 0 {
            hint_lists[(hint_offset + i as usize / 2) % hint_lists.len()].clone()
        } else {
            vec![]
        };
        let run_seed = if exact_seed { seed } else { seed.wrapping_mul(7919).wrapping_add(i) };
        let cfg = RunCfg { senders: senders.clone(), blockers: blockers.clone(), hints, seed: run_seed };
        let log = run_one(&cfg);
        let reset = json!({"ev": "reset", "run": i, "seed": cfg.seed,
            "senders": senders.iter().map(|s| s.0.clone()).collect::<Vec<_>>(),
            "targets": senders.iter().map(|s| s.1.clone()).collect::<Vec<_>>(),
            "blockers": blockers});
        writeln!(out, "{}", reset).ok();
        for e in log {
            writeln!(out, "{}", e).ok();
        }
    }
}
