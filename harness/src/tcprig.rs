//! C08 rig: a REAL proxy server (`ServerProxyService::run`, `handle_session`, real `DefaultConnFactory`
//! backend connections, real codecs) on loopback TCP between scripted clients and scripted backends.
//!
//! Clients write pipelines of requests with unique keys in scripted fragments; backends answer with payloads
//! that name the request that elicited them, fragment their replies, stall, close before / in the middle of a
//! reply, refuse connections, or go down for a while.  Everything observable is recorded as ndjson for
//! `Backend_Trace.tla`.
use std::io::Write;
use std::num::NonZeroUsize;
use std::sync::atomic::{AtomicI64, AtomicU64, Ordering};
use std::sync::Arc;
use std::time::Duration;

use arc_swap::ArcSwap;
use futures::channel::mpsc;
use parking_lot::Mutex;
use rand::rngs::StdRng;
use rand::{Rng, SeedableRng};
use serde_json::{json, Value};
use tokio::io::{AsyncReadExt, AsyncWriteExt};
use tokio::net::{TcpListener, TcpStream};

use undermoon::common::batch::BatchStrategy;
use undermoon::common::track::TrackedFutureRegistry;
use undermoon::protocol::SimpleRedisClientFactory;
use undermoon::proxy::backend::DefaultConnFactory;
use undermoon::proxy::executor::SharedForwardHandler;
use undermoon::proxy::manager::MetaMap;
use undermoon::proxy::service::{ClusterNodesVersion, ServerProxyConfig, ServerProxyService};
use undermoon::proxy::slowlog::SlowRequestLogger;

use crate::cluster::slot_of;

// ---------------------------------------------------------------------------------------------
// scripts
// ---------------------------------------------------------------------------------------------

#[derive(Clone, Debug, Serialize)]
pub struct Req {
    pub kind: String, // GET SET MGET MSET DEL EXISTS PING
    pub keys: Vec<String>,
    pub vals: Vec<String>,
}

#[derive(Clone, Debug, Serialize)]
pub struct ClientScript {
    pub reqs: Vec<Req>,
    pub frags: Vec<usize>,
    pub gap_us: u64,
    pub start_ms: u64,
}

#[derive(Clone, Debug, Serialize)]
pub struct ConnScript {
    /// good | close_on_accept | close_before_reply | close_mid_reply | stall_from | garbage
    pub mode: String,
    pub n: usize,
    pub bytes: usize,
    pub frags: Vec<usize>,
    pub gap_us: u64,
    /// after this connection ends the listener goes away for that long
    pub down_ms: u64,
}

impl ConnScript {
    fn good() -> Self {
        ConnScript { mode: "good".into(), n: 0, bytes: 0, frags: vec![1 << 20], gap_us: 0, down_ms: 0 }
    }
}

#[derive(Clone, Debug, Serialize)]
pub struct Scenario {
    pub id: u64,
    pub strategy: String,
    pub conn_num: usize,
    pub backends: usize,
    pub active_redirection: bool,
    pub backend_timeout_ms: u64,
    pub clients: Vec<ClientScript>,
    pub scripts: Vec<Vec<ConnScript>>,
}

fn weight_of(key: &str) -> i64 {
    // an integer that identifies the key inside one scenario: sums identify sets of keys (keys are few)
    let mut h: u32 = 2166136261;
    for b in key.as_bytes() {
        h ^= *b as u32;
        h = h.wrapping_mul(16777619);
    }
    1 + (h % 1000) as i64
}

pub fn gen_scenario(id: u64, seed: u64) -> Scenario {
    let mut r = StdRng::seed_from_u64(seed.wrapping_mul(0x9E37_79B9_7F4A_7C15) ^ id);
    let strategy = ["disabled", "fixed", "dynamic"][r.gen_range(0..3)].to_string();
    let conn_num = r.gen_range(1..=2);
    let backends = r.gen_range(1..=2);
    let active_redirection = r.gen_bool(0.4);
    let nclients = r.gen_range(1..=3);
    let mut clients = vec![];
    for c in 0..nclients {
        let n = r.gen_range(1..=16);
        let mut reqs = vec![];
        for i in 0..n {
            let base = format!("c{}r{}", c, i);
            let x = r.gen_range(0..100);
            let multi_keys = |r: &mut StdRng| -> Vec<String> {
                let m = r.gen_range(2..=4);
                (0..m)
                    .map(|j| if active_redirection && r.gen_bool(0.7) { format!("{}k{}", base, j) } else { format!("{{{}}}k{}", base, j) })
                    .collect()
            };
            let req = if x < 40 {
                Req { kind: "GET".into(), keys: vec![base.clone()], vals: vec![] }
            } else if x < 60 {
                Req { kind: "SET".into(), keys: vec![base.clone()], vals: vec![format!("v{}", r.gen_range(0..1000))] }
            } else if x < 72 {
                Req { kind: "MGET".into(), keys: multi_keys(&mut r), vals: vec![] }
            } else if x < 80 {
                let keys = multi_keys(&mut r);
                let vals = keys.iter().map(|_| format!("v{}", r.gen_range(0..1000))).collect();
                Req { kind: "MSET".into(), keys, vals }
            } else if x < 88 {
                Req { kind: if r.gen_bool(0.5) { "DEL".into() } else { "EXISTS".into() }, keys: multi_keys(&mut r), vals: vec![] }
            } else if x < 94 {
                Req { kind: "DEL".into(), keys: vec![base.clone()], vals: vec![] }
            } else if x < 97 {
                Req { kind: "KEYSLOT".into(), keys: vec![base.clone()], vals: vec![] }
            } else {
                Req { kind: "PING".into(), keys: vec![], vals: vec![] }
            };
            reqs.push(req);
        }
        let frags = match r.gen_range(0..4) {
            0 => vec![1 << 20],
            1 => vec![1],
            2 => (0..4).map(|_| r.gen_range(1..8)).collect(),
            _ => (0..3).map(|_| r.gen_range(5..60)).collect(),
        };
        clients.push(ClientScript { reqs, frags, gap_us: [0, 0, 200, 1500][r.gen_range(0..4)], start_ms: [0, 0, 5, 30, 300][r.gen_range(0..5)] });
    }
    let mut scripts = vec![];
    for _ in 0..backends {
        let mut v = vec![];
        let faulty = r.gen_range(0..=4);
        for _ in 0..faulty {
            let mode = ["good", "close_on_accept", "close_before_reply", "close_mid_reply", "close_mid_reply", "stall_from", "garbage", "close_before_reply"]
                [r.gen_range(0..8)]
            .to_string();
            let frags = match r.gen_range(0..3) {
                0 => vec![1 << 20],
                1 => vec![1, 2, 1, 3],
                _ => (0..3).map(|_| r.gen_range(3..40)).collect(),
            };
            v.push(ConnScript {
                mode,
                n: r.gen_range(1..=6),
                bytes: r.gen_range(1..30),
                frags,
                gap_us: [0, 0, 300, 2000][r.gen_range(0..4)],
                down_ms: if r.gen_bool(0.15) { r.gen_range(20..200) } else { 0 },
            });
        }
        scripts.push(v);
    }
    Scenario { id, strategy, conn_num, backends, active_redirection, backend_timeout_ms: 400, clients, scripts }
}

// ---------------------------------------------------------------------------------------------
// RESP helpers (harness-side, independent of the code under test)
// ---------------------------------------------------------------------------------------------

fn enc_cmd(parts: &[&[u8]]) -> Vec<u8> {
    let mut out = format!("*{}\r\n", parts.len()).into_bytes();
    for p in parts {
        out.extend_from_slice(format!("${}\r\n", p.len()).as_bytes());
        out.extend_from_slice(p);
        out.extend_from_slice(b"\r\n");
    }
    out
}

#[derive(Debug, Clone)]
enum R {
    Status(String),
    Err(String),
    Int(i64),
    Bulk(Option<Vec<u8>>),
    Arr(Option<Vec<R>>),
}

fn find_crlf(b: &[u8], from: usize) -> Option<usize> {
    let mut i = from;
    while i + 1 < b.len() {
        if b[i] == b'\r' && b[i + 1] == b'\n' {
            return Some(i);
        }
        i += 1;
    }
    None
}

/// Ok(Some((value, consumed))) | Ok(None) incomplete | Err(()) garbage
fn parse_resp(b: &[u8]) -> Result<Option<(R, usize)>, ()> {
    if b.is_empty() {
        return Ok(None);
    }
    let e = match find_crlf(b, 1) {
        Some(e) => e,
        None => return Ok(None),
    };
    let line = String::from_utf8_lossy(&b[1..e]).to_string();
    match b[0] {
        b'+' => Ok(Some((R::Status(line), e + 2))),
        b'-' => Ok(Some((R::Err(line), e + 2))),
        b':' => line.parse::<i64>().map(|n| Some((R::Int(n), e + 2))).map_err(|_| ()),
        b'$' => {
            let n: i64 = line.parse().map_err(|_| ())?;
            if n < 0 {
                return Ok(Some((R::Bulk(None), e + 2)));
            }
            let n = n as usize;
            if b.len() < e + 2 + n + 2 {
                return Ok(None);
            }
            Ok(Some((R::Bulk(Some(b[e + 2..e + 2 + n].to_vec())), e + 2 + n + 2)))
        }
        b'*' => {
            let n: i64 = line.parse().map_err(|_| ())?;
            if n < 0 {
                return Ok(Some((R::Arr(None), e + 2)));
            }
            let mut off = e + 2;
            let mut items = vec![];
            for _ in 0..n {
                match parse_resp(&b[off..])? {
                    Some((v, c)) => {
                        items.push(v);
                        off += c;
                    }
                    None => return Ok(None),
                }
            }
            Ok(Some((R::Arr(Some(items)), off)))
        }
        _ => Err(()),
    }
}

/// uniformly typed projection of a reply: kind + list of strings + integer
fn reply_json(r: &R) -> Value {
    match r {
        R::Status(s) => json!({"kind": "status", "items": [s], "int": 0}),
        R::Err(s) => json!({"kind": "err", "items": [s], "int": 0}),
        R::Int(n) => json!({"kind": "int", "items": [], "int": n}),
        R::Bulk(None) => json!({"kind": "nil", "items": [], "int": 0}),
        R::Bulk(Some(b)) => json!({"kind": "bulk", "items": [String::from_utf8_lossy(b)], "int": 0}),
        R::Arr(None) => json!({"kind": "nilarr", "items": [], "int": 0}),
        R::Arr(Some(v)) => {
            let flat = v.iter().all(|x| matches!(x, R::Bulk(Some(_))));
            if flat {
                let items: Vec<String> = v.iter().map(|x| if let R::Bulk(Some(b)) = x { String::from_utf8_lossy(b).to_string() } else { String::new() }).collect();
                json!({"kind": "arr", "items": items, "int": 0})
            } else {
                json!({"kind": "arrmixed", "items": [format!("{:?}", v)], "int": 0})
            }
        }
    }
}

// ---------------------------------------------------------------------------------------------
// scripted backend
// ---------------------------------------------------------------------------------------------

struct Log {
    seq: AtomicU64,
    lines: Mutex<Vec<Value>>,
}

impl Log {
    fn push(&self, mut v: Value) {
        let s = self.seq.fetch_add(1, Ordering::SeqCst);
        v["seq"] = json!(s);
        self.lines.lock().push(v);
    }
}

async fn write_frag(sock: &mut TcpStream, data: &[u8], frags: &[usize], gap_us: u64) -> std::io::Result<()> {
    let mut off = 0;
    let mut i = 0;
    while off < data.len() {
        let n = frags[i % frags.len()].max(1).min(data.len() - off);
        sock.write_all(&data[off..off + n]).await?;
        sock.flush().await?;
        off += n;
        i += 1;
        if gap_us > 0 && off < data.len() {
            tokio::time::sleep(Duration::from_micros(gap_us)).await;
        } else {
            tokio::task::yield_now().await;
        }
    }
    Ok(())
}

async fn backend_conn(mut sock: TcpStream, bk: usize, gen: usize, script: ConnScript, log: Arc<Log>) {
    sock.set_nodelay(true).ok();
    if script.mode == "close_on_accept" {
        log.push(json!({"ev": "bk_conn", "bk": bk, "gen": gen, "mode": script.mode}));
        return;
    }
    log.push(json!({"ev": "bk_conn", "bk": bk, "gen": gen, "mode": script.mode}));
    let mut buf: Vec<u8> = vec![];
    let mut n = 0usize;
    let mut tmp = [0u8; 4096];
    loop {
        let got = match sock.read(&mut tmp).await {
            Ok(0) | Err(_) => return,
            Ok(k) => k,
        };
        buf.extend_from_slice(&tmp[..got]);
        let mut out: Vec<u8> = vec![];
        let mut close_after: Option<usize> = None; // bytes of `out` to write before closing
        loop {
            let (req, used) = match parse_resp(&buf) {
                Ok(Some((R::Arr(Some(items)), used))) => (items, used),
                Ok(None) => break,
                _ => return, // the proxy sent something that is not a command: give up this connection
            };
            buf.drain(..used);
            n += 1;
            let args: Vec<String> = req.iter().map(|x| if let R::Bulk(Some(b)) = x { String::from_utf8_lossy(b).to_string() } else { String::new() }).collect();
            let cmd = args.first().cloned().unwrap_or_default().to_uppercase();
            let key = args.get(1).cloned().unwrap_or_default();
            if script.mode == "stall_from" && n >= script.n {
                log.push(json!({"ev": "bk_req", "bk": bk, "gen": gen, "n": n, "cmd": cmd, "key": key, "val": "", "produced": false, "payload": "", "int": 0}));
                continue;
            }
            if script.mode == "close_before_reply" && n >= script.n {
                log.push(json!({"ev": "bk_req", "bk": bk, "gen": gen, "n": n, "cmd": cmd, "key": key, "val": "", "produced": false, "payload": "", "int": 0}));
                close_after = Some(out.len());
                break;
            }
            let (bytes, payload, int) = if script.mode == "garbage" && n == script.n {
                (b"!garbage\r\n".to_vec(), String::new(), 0i64)
            } else {
                match cmd.as_str() {
                    "GET" | "SET" => {
                        let p = if cmd == "GET" { format!("R|GET|{}|b{}g{}n{}", key, bk, gen, n) } else { format!("R|SET|{}|{}|b{}g{}n{}", key, args.get(2).cloned().unwrap_or_default(), bk, gen, n) };
                        (format!("${}\r\n{}\r\n", p.len(), p).into_bytes(), p, 0)
                    }
                    "DEL" | "EXISTS" => {
                        let w = weight_of(&key);
                        (format!(":{}\r\n", w).into_bytes(), String::new(), w)
                    }
                    _ => (format!("-ERR scripted backend does not know {}\r\n", cmd).into_bytes(), String::new(), 0),
                }
            };
            let is_garbage = script.mode == "garbage" && n == script.n;
            let val = if cmd == "SET" { args.get(2).cloned().unwrap_or_default() } else { String::new() };
            log.push(json!({"ev": "bk_req", "bk": bk, "gen": gen, "n": n, "cmd": cmd, "key": key, "val": val, "produced": !is_garbage, "payload": payload, "int": int}));
            if script.mode == "close_mid_reply" && n == script.n {
                let cut = script.bytes.min(bytes.len().saturating_sub(1));
                out.extend_from_slice(&bytes);
                close_after = Some(out.len() - bytes.len() + cut);
                break;
            }
            out.extend_from_slice(&bytes);
        }
        match close_after {
            Some(k) => {
                let _ = write_frag(&mut sock, &out[..k], &script.frags, script.gap_us).await;
                return;
            }
            None => {
                if !out.is_empty() && write_frag(&mut sock, &out, &script.frags, script.gap_us).await.is_err() {
                    return;
                }
            }
        }
    }
}

async fn backend_listener(port: u16, bk: usize, scripts: Vec<ConnScript>, log: Arc<Log>, first: TcpListener) {
    let mut listener = Some(first);
    let mut gen = 0usize;
    let mut conns: Vec<tokio::task::JoinHandle<()>> = vec![];
    loop {
        let l = match listener.take() {
            Some(l) => l,
            None => loop {
                match TcpListener::bind(("127.0.0.1", port)).await {
                    Ok(l) => break l,
                    Err(_) => tokio::time::sleep(Duration::from_millis(5)).await,
                }
            },
        };
        let (sock, _) = match l.accept().await {
            Ok(x) => x,
            Err(_) => {
                listener = Some(l);
                continue;
            }
        };
        gen += 1;
        let script = scripts.get(gen - 1).cloned().unwrap_or_else(ConnScript::good);
        let down = script.down_ms;
        let h = tokio::spawn(backend_conn(sock, bk, gen, script, log.clone()));
        if down > 0 {
            // the listener disappears as soon as this connection ends; connection attempts are refused meanwhile
            drop(l);
            let _ = h.await;
            log.push(json!({"ev": "bk_down", "bk": bk, "ms": down}));
            tokio::time::sleep(Duration::from_millis(down)).await;
        } else {
            conns.push(h);
            listener = Some(l);
        }
    }
}

// ---------------------------------------------------------------------------------------------
// one scenario
// ---------------------------------------------------------------------------------------------

fn proxy_port(id: u64) -> u16 {
    let base: u64 = std::env::var("UVERIF_PORT_BASE").ok().and_then(|v| v.parse().ok()).unwrap_or(10000);
    (base + id % 20000) as u16
}

fn req_bytes(r: &Req) -> Vec<u8> {
    let mut parts: Vec<Vec<u8>> = if r.kind == "KEYSLOT" { vec![b"CLUSTER".to_vec(), b"KEYSLOT".to_vec()] } else { vec![r.kind.clone().into_bytes()] };
    match r.kind.as_str() {
        "SET" | "MSET" => {
            for (k, v) in r.keys.iter().zip(r.vals.iter()) {
                parts.push(k.clone().into_bytes());
                parts.push(v.clone().into_bytes());
            }
        }
        _ => {
            for k in &r.keys {
                parts.push(k.clone().into_bytes());
            }
        }
    }
    let refs: Vec<&[u8]> = parts.iter().map(|p| p.as_slice()).collect();
    enc_cmd(&refs)
}

async fn read_reply(sock: &mut TcpStream, buf: &mut Vec<u8>, deadline: Duration) -> Result<Option<R>, String> {
    let mut tmp = [0u8; 4096];
    loop {
        match parse_resp(buf) {
            Ok(Some((r, used))) => {
                buf.drain(..used);
                return Ok(Some(r));
            }
            Ok(None) => {}
            Err(()) => return Err("garbage".into()),
        }
        match tokio::time::timeout(deadline, sock.read(&mut tmp)).await {
            Err(_) => return Err("timeout".into()),
            Ok(Ok(0)) => return Ok(None),
            Ok(Err(e)) => return Err(format!("io:{:?}", e.kind())),
            Ok(Ok(k)) => buf.extend_from_slice(&tmp[..k]),
        }
    }
}

async fn client_run(proxy: String, c: usize, script: ClientScript, log: Arc<Log>) {
    tokio::time::sleep(Duration::from_millis(script.start_ms)).await;
    let sock = match TcpStream::connect(&proxy).await {
        Ok(s) => s,
        Err(e) => {
            log.push(json!({"ev": "client_end", "conn": c, "got": 0, "want": script.reqs.len(), "extra": 0, "why": format!("connect:{:?}", e.kind())}));
            return;
        }
    };
    sock.set_nodelay(true).ok();
    let (mut rd, mut wr) = sock.into_split();
    let mut all = vec![];
    for r in &script.reqs {
        all.extend_from_slice(&req_bytes(r));
    }
    let frags = script.frags.clone();
    let gap = script.gap_us;
    let writer = tokio::spawn(async move {
        let mut off = 0;
        let mut i = 0;
        while off < all.len() {
            let n = frags[i % frags.len()].max(1).min(all.len() - off);
            if wr.write_all(&all[off..off + n]).await.is_err() {
                break;
            }
            let _ = wr.flush().await;
            off += n;
            i += 1;
            if gap > 0 {
                tokio::time::sleep(Duration::from_micros(gap)).await;
            } else {
                tokio::task::yield_now().await;
            }
        }
        wr // keep the write half open until the reader is done
    });
    let want = script.reqs.len();
    let mut got = 0usize;
    let mut buf: Vec<u8> = vec![];
    let mut tmp = [0u8; 4096];
    let mut why = "complete".to_string();
    'outer: while got < want {
        loop {
            match parse_resp(&buf) {
                Ok(Some((r, used))) => {
                    buf.drain(..used);
                    got += 1;
                    let mut v = reply_json(&r);
                    v["ev"] = json!("reply");
                    v["conn"] = json!(c);
                    v["idx"] = json!(got);
                    log.push(v);
                    if got >= want {
                        break 'outer;
                    }
                }
                Ok(None) => break,
                Err(()) => {
                    why = "garbage".into();
                    break 'outer;
                }
            }
        }
        match tokio::time::timeout(Duration::from_secs(40), rd.read(&mut tmp)).await {
            Err(_) => {
                why = "timeout".into();
                break;
            }
            Ok(Ok(0)) => {
                why = "eof".into();
                break;
            }
            Ok(Err(e)) => {
                why = format!("io:{:?}", e.kind());
                break;
            }
            Ok(Ok(k)) => buf.extend_from_slice(&tmp[..k]),
        }
    }
    // anything beyond the expected number of replies?
    let mut extra = buf.len();
    if got >= want {
        if let Ok(Ok(k)) = tokio::time::timeout(Duration::from_millis(60), rd.read(&mut tmp)).await {
            extra += k;
        }
    }
    let _ = writer.await;
    log.push(json!({"ev": "client_end", "conn": c, "got": got, "want": want, "extra": extra, "why": why}));
}

async fn admin(proxy: &str, parts: &[&[u8]]) -> Result<R, String> {
    let mut sock = TcpStream::connect(proxy).await.map_err(|e| format!("{:?}", e))?;
    sock.write_all(&enc_cmd(parts)).await.map_err(|e| format!("{:?}", e))?;
    let mut buf = vec![];
    match read_reply(&mut sock, &mut buf, Duration::from_secs(40)).await {
        Ok(Some(r)) => Ok(r),
        Ok(None) => Err("eof".into()),
        Err(e) => Err(e),
    }
}

pub async fn run_scenario(sc: Scenario) -> Vec<Value> {
    let log = Arc::new(Log { seq: AtomicU64::new(0), lines: Mutex::new(vec![]) });
    // backends
    let mut bk_addrs = vec![];
    let mut tasks = vec![];
    for b in 0..sc.backends {
        let l = TcpListener::bind("127.0.0.1:0").await.expect("bind backend");
        let port = l.local_addr().expect("addr").port();
        bk_addrs.push(format!("127.0.0.1:{}", port));
        tasks.push(tokio::spawn(backend_listener(port, b, sc.scripts[b].clone(), log.clone(), l)));
    }
    // proxy
    // proxy ports come from a range below the OS's ephemeral range, one per scenario id: no two concurrent
    // scenarios (in this or a sibling process) can end up talking to each other's listeners
    let port = proxy_port(sc.id);
    let addr = format!("127.0.0.1:{}", port);
    let config = Arc::new(ServerProxyConfig {
        address: addr.clone(),
        announce_address: addr.clone(),
        announce_host: "127.0.0.1".to_string(),
        slowlog_len: NonZeroUsize::new(16).expect("nz"),
        slowlog_log_slower_than: AtomicI64::new(-1),
        slowlog_sample_rate: AtomicU64::new(1),
        thread_number: NonZeroUsize::new(1).expect("nz"),
        backend_conn_num: NonZeroUsize::new(sc.conn_num).expect("nz"),
        active_redirection: sc.active_redirection,
        max_redirections: None,
        default_redirection_address: None,
        backend_batch_strategy: match sc.strategy.as_str() {
            "fixed" => BatchStrategy::Fixed,
            "dynamic" => BatchStrategy::Dynamic,
            _ => BatchStrategy::Disabled,
        },
        backend_flush_size: NonZeroUsize::new(4).expect("nz"),
        backend_low_flush_interval: Duration::from_nanos(200_000),
        backend_high_flush_interval: Duration::from_nanos(800_000),
        session_timeout: None,
        backend_timeout: Duration::from_millis(sc.backend_timeout_ms),
        password: None,
        command_cluster_nodes_version: ClusterNodesVersion::V1,
    });
    let client_factory = SimpleRedisClientFactory::new(Duration::from_secs(1));
    let slow = Arc::new(SlowRequestLogger::new(config.clone()));
    let meta_map = Arc::new(ArcSwap::new(Arc::new(MetaMap::empty())));
    let registry = Arc::new(TrackedFutureRegistry::default());
    let (stop_tx, stop_rx) = mpsc::unbounded();
    let handler = SharedForwardHandler::new(
        config.clone(),
        Arc::new(client_factory),
        slow.clone(),
        meta_map,
        Arc::new(DefaultConnFactory::default()),
        registry.clone(),
        stop_tx.clone(),
    );
    let server = ServerProxyService::new(config.clone(), handler, slow, registry);
    let server_task = tokio::spawn(async move {
        let _ = server.run(stop_rx).await.map_err(|e| e.to_string());
    });
    // wait for the listener
    let mut up = false;
    for _ in 0..400 {
        if TcpStream::connect(&addr).await.is_ok() {
            up = true;
            break;
        }
        tokio::time::sleep(Duration::from_millis(5)).await;
    }
    if server_task.is_finished() {
        up = false; // bind failed: whatever answered on that port is not our proxy
    }
    let mut head = json!({"ev": "cfg", "scenario": sc.id, "strategy": sc.strategy, "conn_num": sc.conn_num, "backends": sc.backends,
        "active_redirection": sc.active_redirection, "up": up, "meta": "", "seq": -1,
        "faults": sc.scripts.iter().map(|v| v.iter().map(|s| s.mode.clone()).collect::<Vec<_>>()).collect::<Vec<_>>() });
    if !up {
        head["meta"] = json!("proxy did not start");
        return vec![head];
    }
    // metadata: all slots on the scripted backends
    let mut parts: Vec<Vec<u8>> = vec![b"UMCTL".to_vec(), b"SETCLUSTER".to_vec(), b"v2".to_vec(), b"1".to_vec(), b"NOFLAG".to_vec(), b"c8".to_vec()];
    if sc.backends == 1 {
        parts.extend(vec![bk_addrs[0].clone().into_bytes(), b"1".to_vec(), b"0-16383".to_vec()]);
    } else {
        parts.extend(vec![bk_addrs[0].clone().into_bytes(), b"1".to_vec(), b"0-8191".to_vec()]);
        parts.extend(vec![bk_addrs[1].clone().into_bytes(), b"1".to_vec(), b"8192-16383".to_vec()]);
    }
    let refs: Vec<&[u8]> = parts.iter().map(|p| p.as_slice()).collect();
    let meta = admin(&addr, &refs).await;
    head["meta"] = json!(format!("{:?}", meta));
    let mut lines = vec![head];
    // static request table
    for (c, cs) in sc.clients.iter().enumerate() {
        for (i, r) in cs.reqs.iter().enumerate() {
            let bks: Vec<usize> = r.keys.iter().map(|k| if sc.backends == 1 || slot_of(k.as_bytes()) <= 8191 { 0 } else { 1 }).collect();
            let ws: Vec<i64> = r.keys.iter().map(|k| if r.kind == "KEYSLOT" { slot_of(k.as_bytes()) as i64 } else { weight_of(k) }).collect();
            lines.push(json!({"ev": "req", "conn": c, "idx": i + 1, "kind": r.kind, "keys": r.keys, "vals": r.vals, "bks": bks, "ws": ws, "seq": -1}));
        }
    }
    let mut hs = vec![];
    for (c, cs) in sc.clients.iter().enumerate() {
        hs.push(tokio::spawn(client_run(addr.clone(), c, cs.clone(), log.clone())));
    }
    for h in hs {
        let _ = h.await;
    }
    let _ = stop_tx.unbounded_send(());
    server_task.abort();
    for t in tasks {
        t.abort();
    }
    let mut recorded = log.lines.lock().clone();
    recorded.sort_by_key(|v| v["seq"].as_u64().unwrap_or(0));
    lines.extend(recorded);
    lines.push(json!({"ev": "end", "scenario": sc.id, "seq": -1}));
    lines
}

pub fn run_many<W: Write>(w: &mut W, count: u64, seed: u64, first: u64, par: usize) {
    let rt = tokio::runtime::Builder::new_multi_thread().worker_threads(8).enable_all().build().expect("rt");
    rt.block_on(async {
        let sem = Arc::new(tokio::sync::Semaphore::new(par.max(1)));
        let mut hs = vec![];
        for i in 0..count {
            let sem = sem.clone();
            let sc = gen_scenario(first + i, seed);
            hs.push(tokio::spawn(async move {
                let _p = sem.acquire_owned().await;
                run_scenario(sc).await
            }));
        }
        for h in hs {
            match h.await {
                Ok(lines) => {
                    for l in lines {
                        let _ = writeln!(w, "{}", l);
                    }
                }
                Err(e) => {
                    let _ = writeln!(w, "{}", json!({"ev": "rig_error", "why": format!("{:?}", e), "seq": -1}));
                }
            }
        }
    });
    rt.shutdown_timeout(Duration::from_millis(200));
}
