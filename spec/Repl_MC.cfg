SPECIFICATION Spec
CONSTANTS
  Nodes = {n1}
  MaxInstalls = 2
  Variant = "asbuilt"
CONSTRAINT Bound
INVARIANT RolesOfInstalled
PROPERTY Converges
CHECK_DEADLOCK FALSE
