CONSTANTS
 Scenario = 1
 InitTtl = "none"
 Variant = "code"
 GetdelBlocking = TRUE
 OwnerSwitch = "sync"
 Ops <- MCOps
 Kind <- MCKind
SPECIFICATION FairSpec
PROPERTY Terminates
INVARIANT NoStaleRead
INVARIANT FinalPlacement
INVARIANT TtlKept
CHECK_DEADLOCK FALSE
