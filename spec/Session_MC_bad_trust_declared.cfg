CONSTANTS
 Huge = 1000
 MaxTokens = 7
 DepthLimit = 3
 StackLimit = 5
 MemLimit = 900
 Variant = "trust_declared"
SPECIFICATION Spec
INVARIANT Alive
INVARIANT MemBounded
INVARIANT WorkBounded
INVARIANT DepthBounded
CHECK_DEADLOCK FALSE
