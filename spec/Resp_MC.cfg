SPECIFICATION Spec
INVARIANTS RoundTrip PrefixIncomplete ConcatFirst StreamAll
CHECK_DEADLOCK FALSE
