-------------------------------- MODULE Coord --------------------------------
(***************************************************************************)
(* The control plane at call granularity.                                  *)
(*                                                                         *)
(* ControlPlane.tla abstracts a coordinator into "send the current view";  *)
(* this module models what src/coordinator/core.rs really does, one call   *)
(* per action:                                                             *)
(*                                                                         *)
(*   loop_proxy_sync      ProxyMetaRespSynchronizer::retrieve_and_send_meta*)
(*       per proxy, the chains of one round run in parallel (join_all):    *)
(*         SGet   get_proxy_meta (broker)                                  *)
(*         SRepl  UMCTL SETREPL    (OLD_EPOCH counts as success, sync.rs)  *)
(*         SClu   UMCTL SETCLUSTER                                         *)
(*   loop_migration_sync  ParMigrationStateSynchronizer::check_and_sync    *)
(*         MInfo  UMCTL INFOMGR   (tasks in SwitchCommitted)               *)
(*         MCommit commit_migration (broker; matched by range+epoch)       *)
(*         MGet/MRepl/MClu for the DESTINATION, then for the SOURCE        *)
(*   loop_detect / loop_failure_handler                                    *)
(*         DPing  PING a proxy;  DReport  add_failure (broker)             *)
(*         FGet   get_failed_proxies (quorum);  FReplace replace_proxy     *)
(*                                                                         *)
(* plus the things they act on: a broker with one cluster whose view is    *)
(* versioned by an epoch and may carry one migration (started, committed), *)
(* proxies that install metadata through the epoch gate of C05 (separately *)
(* for the replication and the cluster message), the migration tasks that  *)
(* start when tagged metadata is installed and finish through the          *)
(* FINALSWITCH handshake (destination first), an unreliable call layer     *)
(* (a call is lost with or without its effect; a duplicate may arrive at   *)
(* any later time), coordinator crashes (every chain of that coordinator   *)
(* stops where it is), and proxies restarting empty.                       *)
(***************************************************************************)
EXTENDS Naturals, FiniteSets, TLC

CONSTANTS Coords,      \* coordinator identities (each runs all loops)
          MaxEpoch,    \* bound on broker epochs (model checking)
          MaxFaults,   \* bound on fault events
          Variant,     \* "asbuilt" or a named design error (see the *_Bad disjuncts)
          Features     \* subset of {"migration", "failover", "dup", "restart", "crash", "lostreply"}: what the environment may do

Proxies == {"src", "dst", "by"}       \* migration source, destination, a bystander
Parts == {"src", "dst"}

VARIABLES bE,       \* epoch the broker serves (one cluster: same for every member)
          bMig,     \* "none" | "pending" | "committed"   the one migration in the broker's view
          commits,  \* number of successful commit_migration calls
          failedP,  \* proxies the broker has failed over (removed from the cluster view)
          reports,  \* set of coordinators that reported the bystander
          cE, rE,   \* installed cluster / replication epoch per proxy
          cTag,     \* [Parts -> "none" | "tag" | "post"] migration content of the installed cluster metadata
          task,     \* [Parts -> "none" | "run" | "fin"]  migration task on the source / destination proxy
          up,       \* [proxy -> BOOLEAN] reachable
          rst,      \* proxies that restarted empty at some time (history, used by Owned)
          sync,     \* [coord -> [proxy -> [pc, e, t]]]   pc \in {"idle","got","repl"}: sync chains
          mig,      \* [coord -> [Parts -> [pc, e, t]]]   migration chains (check_and_sync per reporting proxy)
          det,      \* [coord -> "idle" | "failed"]        detector chain for the bystander (PING failed, report pending)
          stale,    \* duplicated SET messages that may still arrive: [to, k, e, t]
          faults, stopped
broker == <<bE, bMig, commits, failedP, reports>>
prox == <<cE, rE, cTag, task, up, rst>>
chains == <<sync, mig, det>>
env == <<stale, faults, stopped>>
vars == <<broker, prox, chains, env>>

Idle == [pc |-> "idle", e |-> 0, t |-> "none"]
BTag == IF bMig = "pending" THEN "tag" ELSE IF bMig = "committed" THEN "post" ELSE "none"

Init == /\ bE = 1 /\ bMig = "none" /\ commits = 0 /\ failedP = {} /\ reports = {}
        /\ cE = [p \in Proxies |-> 0] /\ rE = [p \in Proxies |-> 0] /\ cTag = [p \in Parts |-> "none"]
        /\ task = [p \in Parts |-> "none"] /\ up = [p \in Proxies |-> TRUE] /\ rst = {}
        /\ sync = [c \in Coords |-> [p \in Proxies |-> Idle]] /\ mig = [c \in Coords |-> [p \in Parts |-> Idle]]
        /\ det = [c \in Coords |-> "idle"]
        /\ stale = {} /\ faults = 0 /\ stopped = FALSE

----------------------------------------------------------------------------
(* the broker's own transitions.  Bounded model: an epoch is kept in reserve for the commit of a pending     *)
(* migration and for the failover of an unreachable member, so that the bound never blocks the protocol       *)
Member(p) == p \notin failedP
Suspected == Member("by") /\ (~up["by"] \/ reports # {} \/ \E c \in Coords : det[c] = "failed")
Reserve == (IF bMig = "pending" THEN 1 ELSE 0) + (IF Suspected THEN 1 ELSE 0)
AdminChange == /\ bE + Reserve < MaxEpoch /\ bE' = bE + 1
               /\ UNCHANGED <<bMig, commits, failedP, reports, prox, chains, env>>
StartMigration == /\ "migration" \in Features /\ bMig = "none" /\ bE + Reserve + 1 < MaxEpoch
                  /\ bE' = bE + 1 /\ bMig' = "pending"
                  /\ UNCHANGED <<commits, failedP, reports, prox, chains, env>>

----------------------------------------------------------------------------
(* a proxy receives a metadata message: the epoch gate of C05, per kind; tagged cluster metadata starts the  *)
(* migration task, untagged metadata drops it (MigrationManager::update)                                      *)
InstallR(p, e) == rE' = [rE EXCEPT ![p] = IF e > @ THEN e ELSE @]
InstallC(p, e, t) ==
    IF e > cE[p]
    THEN /\ cE' = [cE EXCEPT ![p] = e]
         /\ IF p \in Parts
            THEN /\ cTag' = [cTag EXCEPT ![p] = t]
                 /\ task' = [task EXCEPT ![p] = IF t = "tag" THEN (IF @ = "none" THEN "run" ELSE @) ELSE "none"]
            ELSE UNCHANGED <<cTag, task>>
    ELSE UNCHANGED <<cE, cTag, task>>

(* the migration itself, abstracted to its switch handshake: the destination commits the switch when it     *)
(* receives FINALSWITCH, the source when it receives the reply                                               *)
DstSwitch == /\ task["src"] = "run" /\ task["dst"] = "run"
             /\ task' = [task EXCEPT !["dst"] = "fin"]
             /\ UNCHANGED <<broker, cE, rE, cTag, up, rst, chains, env>>
SrcSwitch == /\ task["src"] = "run" /\ task["dst"] = "fin"
             /\ task' = [task EXCEPT !["src"] = "fin"]
             /\ UNCHANGED <<broker, cE, rE, cTag, up, rst, chains, env>>

----------------------------------------------------------------------------
(* the call layer: a call either works, or is lost before it takes effect, or takes effect and its reply is  *)
(* lost; both losses make the caller's chain stop (the `?` after every await in core.rs).  A SET call may    *)
(* additionally leave a duplicate behind that arrives at any later time.                                      *)
CanFault == ~stopped /\ faults < MaxFaults

(* ---- sync chains ---- *)
SGet(c, p) == /\ sync[c][p].pc = "idle" /\ Member(p)
              /\ sync' = [sync EXCEPT ![c][p] = [pc |-> "got", e |-> bE, t |-> IF p \in Parts THEN BTag ELSE "none"]]
              /\ UNCHANGED <<broker, prox, mig, det, env>>
\* design error "skip_cluster_on_old_repl": SETCLUSTER is skipped when SETREPL found nothing new
SkipClu(c, p) == Variant = "skip_cluster_on_old_repl" /\ sync[c][p].e <= rE[p]
SRepl(c, p) == /\ sync[c][p].pc = "got" /\ up[p] /\ ~SkipClu(c, p)
               /\ InstallR(p, sync[c][p].e)
               /\ sync' = [sync EXCEPT ![c][p].pc = "repl"]
               /\ UNCHANGED <<broker, cE, cTag, task, up, rst, mig, det, env>>
SRepl_Bad(c, p) == /\ sync[c][p].pc = "got" /\ up[p] /\ SkipClu(c, p)
                   /\ sync' = [sync EXCEPT ![c][p] = Idle]
                   /\ UNCHANGED <<broker, prox, mig, det, env>>
SClu(c, p) == /\ sync[c][p].pc = "repl" /\ up[p]
              /\ InstallC(p, sync[c][p].e, sync[c][p].t)
              /\ sync' = [sync EXCEPT ![c][p] = Idle]
              /\ UNCHANGED <<broker, rE, up, rst, mig, det, env>>
\* the call fails (request lost, or the proxy is unreachable): the chain ends without effect
SFail(c, p) == /\ sync[c][p].pc \in {"got", "repl"}
               /\ \/ ~up[p] /\ UNCHANGED faults
                  \/ up[p] /\ CanFault /\ faults' = faults + 1
               /\ sync' = [sync EXCEPT ![c][p] = Idle]
               /\ UNCHANGED <<broker, prox, mig, det, stale, stopped>>
\* the effect happens, the reply is lost: the chain ends
SReplLostReply(c, p) == /\ "lostreply" \in Features /\ sync[c][p].pc = "got" /\ up[p] /\ CanFault
                        /\ InstallR(p, sync[c][p].e) /\ sync' = [sync EXCEPT ![c][p] = Idle] /\ faults' = faults + 1
                        /\ UNCHANGED <<broker, cE, cTag, task, up, rst, mig, det, stale, stopped>>
\* a duplicate of the SET message about to be sent stays in the network
Dup(c, p) == /\ "dup" \in Features /\ CanFault /\ sync[c][p].pc \in {"got", "repl"}
             /\ stale' = stale \cup {[to |-> p, k |-> IF sync[c][p].pc = "got" THEN "R" ELSE "C", e |-> sync[c][p].e, t |-> sync[c][p].t]}
             /\ faults' = faults + 1
             /\ UNCHANGED <<broker, prox, chains, stopped>>
DeliverStale(m) == /\ m \in stale /\ up[m.to] /\ stale' = stale \ {m}
                   /\ IF m.k = "R" THEN InstallR(m.to, m.e) /\ UNCHANGED <<cE, cTag, task>>
                                   ELSE InstallC(m.to, m.e, m.t) /\ UNCHANGED rE
                   /\ UNCHANGED <<broker, up, rst, chains, faults, stopped>>

(* ---- migration chains: INFOMGR at a participant q, commit, then the destination, then the source ---- *)
MInfo(c, q) == /\ mig[c][q].pc = "idle" /\ up[q] /\ task[q] = "fin"
               /\ mig' = [mig EXCEPT ![c][q].pc = "commit"]
               /\ UNCHANGED <<broker, prox, sync, det, env>>
\* commit_migration: found (pending) -> committed with a new epoch.  Not found (somebody else committed it already):
\* http_mani_broker.rs maps the broker's 404 MIGRATION_TASK_NOT_FOUND to Ok(()), so the chain goes on all the same and
\* pushes the current view to the destination and the source (redundant with the sync loop, which converges on its own).
MCommit(c, q) == /\ mig[c][q].pc = "commit"
                 /\ IF bMig = "pending"
                    THEN bMig' = "committed" /\ bE' = bE + 1 /\ commits' = commits + 1
                    ELSE UNCHANGED <<bMig, bE, commits>>
                 /\ mig' = [mig EXCEPT ![c][q].pc = "dget"]
                 /\ UNCHANGED <<failedP, reports, prox, sync, det, env>>
\* the commit took effect but its reply was lost
MCommitLostReply(c, q) == /\ "lostreply" \in Features /\ mig[c][q].pc = "commit" /\ bMig = "pending" /\ CanFault
                          /\ bMig' = "committed" /\ bE' = bE + 1 /\ commits' = commits + 1
                          /\ mig' = [mig EXCEPT ![c][q] = Idle] /\ faults' = faults + 1
                          /\ UNCHANGED <<failedP, reports, prox, sync, det, stale, stopped>>
MTarget(c, q) == IF mig[c][q].pc \in {"dget", "drepl", "dclu"} THEN "dst" ELSE "src"
MGet(c, q) == /\ mig[c][q].pc \in {"dget", "sget"}
              /\ mig' = [mig EXCEPT ![c][q] = [pc |-> IF @.pc = "dget" THEN "drepl" ELSE "srepl", e |-> bE, t |-> BTag]]
              /\ UNCHANGED <<broker, prox, sync, det, env>>
MRepl(c, q) == /\ mig[c][q].pc \in {"drepl", "srepl"} /\ up[MTarget(c, q)]
               /\ InstallR(MTarget(c, q), mig[c][q].e)
               /\ mig' = [mig EXCEPT ![c][q].pc = IF @ = "drepl" THEN "dclu" ELSE "sclu"]
               /\ UNCHANGED <<broker, cE, cTag, task, up, rst, sync, det, env>>
MClu(c, q) == /\ mig[c][q].pc \in {"dclu", "sclu"} /\ up[MTarget(c, q)]
              /\ InstallC(MTarget(c, q), mig[c][q].e, mig[c][q].t)
              /\ mig' = [mig EXCEPT ![c][q] = IF @.pc = "dclu" THEN [@ EXCEPT !.pc = "sget"] ELSE Idle]
              /\ UNCHANGED <<broker, rE, up, rst, sync, det, env>>
MFail(c, q) == /\ mig[c][q].pc # "idle" /\ CanFault /\ faults' = faults + 1
               /\ mig' = [mig EXCEPT ![c][q] = Idle]
               /\ UNCHANGED <<broker, prox, sync, det, stale, stopped>>
\* design error "src_even_if_dst_failed": the destination update fails, the source is updated all the same
MFail_Bad(c, q) == /\ Variant = "src_even_if_dst_failed" /\ mig[c][q].pc \in {"drepl", "dclu"} /\ CanFault
                   /\ mig' = [mig EXCEPT ![c][q].pc = "sget"] /\ faults' = faults + 1
                   /\ UNCHANGED <<broker, prox, sync, det, stale, stopped>>

(* ---- failure detection and failover (detector.rs, recover.rs, broker add_failure / get_failures / replace) ---- *)
(* only the bystander becomes unreachable in this model: failover of a migration participant re-issues the         *)
(* migration, which is Broker.tla's subject                                                                       *)
Quorum == IF Cardinality(Coords) >= 2 THEN 2 ELSE 1
DPing(c) == /\ det[c] = "idle" /\ ~up["by"] /\ Member("by")
            /\ det' = [det EXCEPT ![c] = "failed"]
            /\ UNCHANGED <<broker, prox, sync, mig, env>>
DReport(c) == /\ det[c] = "failed"
              /\ reports' = reports \cup {c} /\ det' = [det EXCEPT ![c] = "idle"]
              /\ UNCHANGED <<bE, bMig, commits, failedP, prox, sync, mig, env>>
\* get_failed_proxies lists the proxy only with a quorum of distinct reporters; replace_proxy takes it out of the view
FReplace(c) == /\ Member("by") /\ Cardinality(reports) >= Quorum /\ bE < MaxEpoch
               /\ failedP' = failedP \cup {"by"} /\ bE' = bE + 1 /\ reports' = {}
               /\ UNCHANGED <<bMig, commits, prox, chains, env>>
\* design error "no_quorum": one report is enough
FReplace_Bad(c) == /\ Variant = "no_quorum" /\ Member("by") /\ reports # {} /\ bE < MaxEpoch
                   /\ failedP' = failedP \cup {"by"} /\ bE' = bE + 1 /\ reports' = {}
                   /\ UNCHANGED <<bMig, commits, prox, chains, env>>

(* ---- faults ---- *)
Crash(c) == /\ "crash" \in Features /\ CanFault /\ (det[c] # "idle" \/ \E q \in Parts : mig[c][q].pc # "idle" \/ \E p \in Proxies : sync[c][p].pc # "idle")
            /\ sync' = [sync EXCEPT ![c] = [p \in Proxies |-> Idle]] /\ mig' = [mig EXCEPT ![c] = [p \in Parts |-> Idle]]
            /\ det' = [det EXCEPT ![c] = "idle"] /\ faults' = faults + 1
            /\ UNCHANGED <<broker, prox, stale, stopped>>
Restart(p) == /\ "restart" \in Features /\ CanFault /\ up[p]
              /\ cE' = [cE EXCEPT ![p] = 0] /\ rE' = [rE EXCEPT ![p] = 0]
              /\ IF p \in Parts THEN cTag' = [cTag EXCEPT ![p] = "none"] /\ task' = [task EXCEPT ![p] = "none"]
                                ELSE UNCHANGED <<cTag, task>>
              /\ rst' = rst \cup {p} /\ faults' = faults + 1
              /\ UNCHANGED <<broker, up, chains, stale, stopped>>
\* a false suspicion is also possible: the detector of ONE coordinator cannot reach a healthy proxy
Suspect(c) == /\ "failover" \in Features /\ CanFault /\ det[c] = "idle" /\ up["by"] /\ Member("by") /\ bE + Reserve + (IF Suspected THEN 0 ELSE 1) <= MaxEpoch
              /\ det' = [det EXCEPT ![c] = "failed"] /\ faults' = faults + 1
              /\ UNCHANGED <<broker, prox, sync, mig, stale, stopped>>
Down == /\ "failover" \in Features /\ CanFault /\ up["by"] /\ Member("by") /\ bE + Reserve + (IF Suspected THEN 0 ELSE 1) <= MaxEpoch
        /\ up' = [up EXCEPT !["by"] = FALSE] /\ faults' = faults + 1
        /\ UNCHANGED <<broker, cE, rE, cTag, task, rst, chains, stale, stopped>>
FaultsStop == /\ ~stopped /\ stopped' = TRUE
              /\ UNCHANGED <<broker, prox, chains, stale, faults>>

Next == \/ AdminChange \/ StartMigration \/ DstSwitch \/ SrcSwitch \/ FaultsStop \/ Down
        \/ \E c \in Coords, p \in Proxies :
              \/ SGet(c, p) \/ SRepl(c, p) \/ SRepl_Bad(c, p) \/ SClu(c, p) \/ SFail(c, p) \/ SReplLostReply(c, p) \/ Dup(c, p)
        \/ \E c \in Coords, q \in Parts :
              \/ MInfo(c, q) \/ MCommit(c, q) \/ MCommitLostReply(c, q) \/ MGet(c, q) \/ MRepl(c, q) \/ MClu(c, q)
              \/ MFail(c, q) \/ MFail_Bad(c, q)
        \/ \E c \in Coords : DPing(c) \/ DReport(c) \/ FReplace(c) \/ FReplace_Bad(c) \/ Crash(c) \/ Suspect(c)
        \/ \E m \in stale : DeliverStale(m)
        \/ \E p \in Proxies : Restart(p)

(* the loops keep running: every chain step that does not involve a fault is weakly fair *)
Fairness == /\ \A c \in Coords, p \in Proxies :
                  /\ WF_vars(SGet(c, p)) /\ WF_vars(SRepl(c, p)) /\ WF_vars(SRepl_Bad(c, p)) /\ WF_vars(SClu(c, p))
                  /\ WF_vars(~up[p] /\ SFail(c, p))
            /\ \A c \in Coords, q \in Parts :
                  WF_vars(MInfo(c, q)) /\ WF_vars(MCommit(c, q)) /\ WF_vars(MGet(c, q)) /\ WF_vars(MRepl(c, q)) /\ WF_vars(MClu(c, q))
            /\ \A c \in Coords : WF_vars(DPing(c)) /\ WF_vars(DReport(c)) /\ WF_vars(FReplace(c))
            /\ WF_vars(DstSwitch) /\ WF_vars(SrcSwitch)
Spec == Init /\ [][Next]_vars /\ Fairness

----------------------------------------------------------------------------
(* properties *)
TypeOK == /\ bE \in 1..MaxEpoch /\ bMig \in {"none", "pending", "committed"}
          /\ \A p \in Proxies : cE[p] \in 0..MaxEpoch /\ rE[p] \in 0..MaxEpoch
\* C07: no proxy replaces its metadata by an older version (except by restarting empty)
NoOlder == [][\A p \in Proxies : (cE'[p] >= cE[p] \/ cE'[p] = 0) /\ (rE'[p] >= rE[p] \/ rE'[p] = 0)]_vars
\* nothing installed is newer than what the broker serves
NeverAhead == \A p \in Proxies : cE[p] <= bE /\ rE[p] <= bE
\* C07: a finished migration is committed exactly once
CommitOnce == commits <= 1 /\ (bMig = "committed" <=> commits = 1)
\* C07: in a migration chain the source is addressed only after the destination took (or already had) the post-commit view
DstBeforeSrc == \A c \in Coords, q \in Parts :
                   mig[c][q].pc \in {"sget", "srepl", "sclu"} => (cTag["dst"] = "post" \/ "dst" \in rst)
\* the range under migration never ends up with nobody serving it: when the source has dropped it (post-commit view) the
\* destination is not back in a pre-migration view (unless it restarted empty and a stale duplicate reached it first)
Owned == (cTag["src"] = "post" /\ "dst" \notin rst) => cTag["dst"] \in {"tag", "post"}
\* C18 at protocol level: the broker fails a proxy over only with a quorum of distinct reporters, hence (two coordinators)
\* never on the word of one coordinator alone: a single false suspicion cannot remove a healthy proxy
NoLoneFailover == (Cardinality(Coords) >= 2 /\ MaxFaults = 1) => (failedP # {} => ~up["by"])
MembersUp == {p \in Proxies : Member(p) /\ up[p]}
Converged == /\ \A p \in MembersUp : cE[p] = bE /\ rE[p] = bE
             /\ bMig # "pending"
             /\ \A p \in Proxies : ~up[p] => ~Member(p)
\* C07 liveness: once faults stop, the loops bring every reachable member to the broker's view, a started migration
\* is committed, and an unreachable proxy is failed over
Converges == stopped ~> Converged
\* ... and that state is stable once the administrator is done (no more epochs in the bounded model)
Stays == [](Converged /\ stopped /\ bE = MaxEpoch => [](Converged))
\* model-checking bound: number of chains in flight at the same time
Active == Cardinality({<<c, p>> \in Coords \X Proxies : sync[c][p].pc # "idle"})
          + Cardinality({<<c, q>> \in Coords \X Parts : mig[c][q].pc # "idle"})
AtMost2 == Active <= 2
AtMost3 == Active <= 3
=============================================================================
