SPECIFICATION Spec
CONSTANTS
  Msgs <- M_nf
  Variant = "no_recheck"
INVARIANTS CInstallsNewer RInstallsNewer ReaderConsistent ReplReaderConsistent RepliesTruthful FinalC FinalR RefusalsJustified 
CHECK_DEADLOCK FALSE
