SPECIFICATION Spec
CONSTANTS
  Redirect = "wrapped"
  Fix = "asfound"
  Strategy = "set_get_only"
INVARIANTS Transparent DisabledIsPlain
CHECK_DEADLOCK FALSE
