------------------------------ MODULE Session ------------------------------
(* Resource contract of the client-facing input path of a proxy (property C16):                       *)
(*   protocol/stateless.rs  parse_resp / parse_array / parse_bulk_str : stateless re-parse of the     *)
(*                          connection buffer, one recursion level per nested array, one Vec per array *)
(*   proxy/executor.rs      handle_eval_cmd / handle_multi_key_eval_cmd : key extraction for EVAL      *)
(*   proxy/session.rs       handle_session : reply or close                                           *)
(* The model follows ONE hostile connection token by token and accounts for what the proxy spends on   *)
(* it: memory reserved, recursion depth, loop iterations.  A second connection (the bystander) must    *)
(* stay served, which it is as long as the process is alive and no worker is stuck.                    *)
(* Units are abstract: one unit = one byte received / one element slot reserved / one loop iteration.  *)
EXTENDS Naturals, Sequences

CONSTANTS Huge,        \* a declared count far larger than anything the client will ever send
          MaxTokens,   \* bound on the number of tokens the client sends
          DepthLimit,  \* MAX_NESTED_DEPTH
          StackLimit,  \* recursion depth at which the thread's stack overflows (> DepthLimit)
          MemLimit,    \* reservation at which the allocator gives up and the process aborts
          Variant      \* "code" | "trust_declared" | "unbounded_depth" | "trust_numkeys"

Declared == {0, 1, 2, Huge}

VARIABLES recv,     \* bytes received on the hostile connection
          reserved, \* element slots reserved by the parser for it
          depth,    \* nesting depth of the arrays currently open
          spent,    \* loop iterations spent on its last command
          tokens,   \* tokens sent so far
          conn,     \* "open" | "closed"
          proc      \* "alive" | "dead" | "stuck"

vars == <<recv, reserved, depth, spent, tokens, conn, proc>>

Init == recv = 0 /\ reserved = 0 /\ depth = 0 /\ spent = 0 /\ tokens = 0 /\ conn = "open" /\ proc = "alive"

Min(a, b) == IF a < b THEN a ELSE b
Active == conn = "open" /\ proc = "alive" /\ tokens < MaxTokens

\* "*<n>\r\n" : one more nesting level; a Vec for the elements
ArrayHeader(n) ==
    /\ Active
    /\ tokens' = tokens + 1 /\ recv' = recv + 1 /\ spent' = spent
    /\ IF Variant # "unbounded_depth" /\ depth >= DepthLimit
       THEN conn' = "closed" /\ UNCHANGED <<reserved, depth, proc>>        \* InvalidProtocol
       ELSE /\ depth' = depth + 1
            /\ LET want == IF Variant = "trust_declared" THEN n ELSE Min(n, recv + 1) IN
               /\ reserved' = reserved + want
               /\ proc' = IF reserved + want >= MemLimit \/ depth + 1 >= StackLimit THEN "dead" ELSE "alive"
            /\ conn' = conn

\* "$<n>\r\n" followed by k <= n bytes of payload: nothing is reserved for the declared length
Bulk(n, k) ==
    /\ Active /\ k <= n /\ k <= 2
    /\ tokens' = tokens + 1 /\ recv' = recv + 1 + k
    /\ UNCHANGED <<reserved, depth, spent, conn, proc>>

\* a complete EVAL with a declared numkeys: keys are collected from the arguments that exist
Eval(numkeys, args) ==
    /\ Active /\ depth = 0
    /\ tokens' = tokens + 1 /\ recv' = recv + 3 + args
    /\ LET work == IF Variant = "trust_numkeys" THEN numkeys ELSE Min(numkeys, args) IN
       /\ spent' = work
       /\ proc' = IF work >= Huge THEN "stuck" ELSE proc
    /\ UNCHANGED <<reserved, depth, conn>>

\* something that is not RESP: the session ends
Garbage ==
    /\ Active
    /\ tokens' = tokens + 1 /\ recv' = recv + 1 /\ conn' = "closed"
    /\ UNCHANGED <<reserved, depth, spent, proc>>

Next == \/ \E n \in Declared : ArrayHeader(n)
        \/ \E n \in Declared, k \in 0..2 : Bulk(n, k)
        \/ \E n \in Declared, a \in 0..2 : Eval(n, a)
        \/ Garbage
Spec == Init /\ [][Next]_vars

(* C16 *)
Alive == proc = "alive"                         \* no abort, no stuck worker: the bystander is served
MemBounded == reserved <= DepthLimit * (recv + 1)   \* memory proportional to the bytes received: every OPEN array
                                                 \* (at most DepthLimit of them) reserves at most the buffer length
WorkBounded == spent <= recv + 2                \* time proportional to the bytes received
DepthBounded == depth <= DepthLimit
=============================================================================
