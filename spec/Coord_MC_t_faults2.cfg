SPECIFICATION Spec
CONSTANTS
  Coords = {c1}
  MaxEpoch = 3
  MaxFaults = 2
  Variant = "asbuilt"
  Features = {"migration","restart","crash","lostreply","dup"}
CONSTRAINT AtMost2
INVARIANTS TypeOK NeverAhead CommitOnce DstBeforeSrc Owned NoLoneFailover
PROPERTIES NoOlder 
CHECK_DEADLOCK FALSE
