----------------------------- MODULE Wire_Trace -----------------------------
(* C17: control-plane messages through the real encoders/parsers (harness wirerig.rs).
   A decoded value must equal the encoded one; a corrupted encoding must be rejected or decode to the
   original value. *)
EXTENDS Wire, TLC, Json, IOUtils

Rec == ndJsonDeserialize(IOEnv.TRACE)
N == Len(Rec)
VARIABLES l, viol, div
vars == <<l, viol, div>>

Mon(e) ==
    LET p == e.parsed  same == p.ok /\ p.v = e.orig IN
    CASE e.kind = "plain" -> IF same THEN {} ELSE {"C17.roundtrip_plain"}
      [] e.kind = "compressed" -> IF same THEN {} ELSE {"C17.roundtrip_compressed"}
      [] e.kind = "repl" -> IF same THEN {} ELSE {"C17.roundtrip_repl"}
      [] e.kind = "task" -> IF same THEN {} ELSE {"C17.roundtrip_task"}
      [] e.kind \in {"corrupt", "corrupt_repl"} ->
            (IF p.why = "PANIC" THEN {"C17.parser_panic"} ELSE {}) \cup
            (IF ~p.ok \/ same THEN {} ELSE {"C17.corruption_accepted"})
      [] OTHER -> {}

\* L2: the parser specified in Wire.tla applied to the same tokens must give the real parser's answer
\* (cluster metadata in the uncompressed format only; the configuration section is compared by acceptance only)
Agree(e) ==
    LET d == Dec(e.toks, e.pairok)  p == e.parsed IN
    IF ~p.ok THEN ~d.ok
    ELSE /\ d.ok
         /\ d.epoch = p.v.epoch /\ d.force = p.v.force /\ d.name = p.v.name
         /\ d.local = ToSet(p.v.local) /\ d.peer = ToSet(p.v.peer)
         /\ d.extok = p.config_ok
Div(e) == IF "toks" \in DOMAIN e /\ e.parsed.why # "PANIC" /\ ~Agree(e) THEN {"L2.wire_parser_differs"} ELSE {}

Init == l = 1 /\ viol = {} /\ div = {}
Step ==
    /\ l <= N
    /\ viol' = viol \cup {<<l, x>> : x \in Mon(Rec[l])}
    /\ div' = div \cup {<<l, x>> : x \in Div(Rec[l])}
    /\ l' = l + 1
    /\ (l = N) => JsonSerialize(IOEnv.OUT, [n |-> N, viol |-> SetToSeq({[line |-> v[1], mon |-> v[2]] : v \in viol'}),
                                             div |-> SetToSeq({[line |-> v[1], mon |-> v[2]] : v \in div'})])
Spec == Init /\ [][Step]_vars
Consumed == TLCGet("stats").diameter - 1 = N
=============================================================================
