----------------------------- MODULE Wire_Trace -----------------------------
(* C17: control-plane messages through the real encoders/parsers (harness wirerig.rs).
   A decoded value must equal the encoded one; a corrupted encoding must be rejected or decode to the
   original value. *)
EXTENDS Naturals, Sequences, FiniteSets, TLC, Json, IOUtils, SequencesExt

Rec == ndJsonDeserialize(IOEnv.TRACE)
N == Len(Rec)
VARIABLES l, viol
vars == <<l, viol>>

Mon(e) ==
    LET p == e.parsed  same == p.ok /\ p.v = e.orig IN
    CASE e.kind = "plain" -> IF same THEN {} ELSE {"C17.roundtrip_plain"}
      [] e.kind = "compressed" -> IF same THEN {} ELSE {"C17.roundtrip_compressed"}
      [] e.kind = "repl" -> IF same THEN {} ELSE {"C17.roundtrip_repl"}
      [] e.kind = "task" -> IF same THEN {} ELSE {"C17.roundtrip_task"}
      [] e.kind \in {"corrupt", "corrupt_repl"} ->
            (IF p.why = "PANIC" THEN {"C17.parser_panic"} ELSE {}) \cup
            (IF ~p.ok \/ same THEN {} ELSE {"C17.corruption_accepted"})
      [] OTHER -> {}

Init == l = 1 /\ viol = {}
Step ==
    /\ l <= N
    /\ viol' = viol \cup {<<l, x>> : x \in Mon(Rec[l])}
    /\ l' = l + 1
    /\ (l = N) => JsonSerialize(IOEnv.OUT, [n |-> N, viol |-> SetToSeq({[line |-> v[1], mon |-> v[2]] : v \in viol'}), div |-> <<>>])
Spec == Init /\ [][Step]_vars
Consumed == TLCGet("stats").diameter - 1 = N
=============================================================================
