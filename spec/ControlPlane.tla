---------------------------- MODULE ControlPlane ----------------------------
(***************************************************************************)
(* The control plane: a broker whose view of each proxy is versioned by an *)
(* epoch, stateless coordinators that repeatedly push the current view     *)
(* (src/coordinator/core.rs ProxyMetaRespSynchronizer, sync.rs send_meta), *)
(* an unreliable call layer (calls may be lost, duplicated, delayed and    *)
(* reordered), coordinator crashes (a round stops anywhere), proxies that  *)
(* accept only strictly newer epochs (C05) and may restart empty, and      *)
(* broker state loss followed by epoch recovery (src/broker/store.rs       *)
(* recover_epoch).                                                         *)
(***************************************************************************)
EXTENDS Naturals, FiniteSets, TLC

CONSTANTS Proxies, MaxEpoch, MaxFaults

VARIABLES bEpoch,     \* the epoch the broker currently serves (one cluster: the same for every member)
          pEpoch,     \* [proxy -> installed epoch]
          inflight,   \* set of [to, epoch] : metadata messages sent and not yet (or not the last time) delivered
          faults,     \* number of fault events so far (loss, restart, broker rollback)
          stopped     \* faults have stopped
vars == <<bEpoch, pEpoch, inflight, faults, stopped>>

Init == bEpoch = 1 /\ pEpoch = [p \in Proxies |-> 0] /\ inflight = {} /\ faults = 0 /\ stopped = FALSE

\* an administrative change (or a committed migration, a failover ...) creates a new version
AdminChange == bEpoch < MaxEpoch /\ bEpoch' = bEpoch + 1 /\ UNCHANGED <<pEpoch, inflight, faults, stopped>>
\* a coordinator (any of them, at any point of its round) sends the current view to a proxy
Send(p) == inflight' = inflight \cup {[to |-> p, epoch |-> bEpoch]} /\ UNCHANGED <<bEpoch, pEpoch, faults, stopped>>
\* delivery: the message stays in `inflight` (duplication, late re-delivery); the proxy applies the epoch gate
Deliver(m) == /\ m \in inflight
              /\ pEpoch' = [pEpoch EXCEPT ![m.to] = IF m.epoch > @ THEN m.epoch ELSE @]
              /\ UNCHANGED <<bEpoch, inflight, faults, stopped>>
Lose(m) == ~stopped /\ faults < MaxFaults /\ m \in inflight /\ inflight' = inflight \ {m} /\ faults' = faults + 1
           /\ UNCHANGED <<bEpoch, pEpoch, stopped>>
Restart(p) == ~stopped /\ faults < MaxFaults /\ pEpoch' = [pEpoch EXCEPT ![p] = 0] /\ faults' = faults + 1
              /\ UNCHANGED <<bEpoch, inflight, stopped>>
\* the broker restarts from an older snapshot and runs epoch recovery with the largest epoch seen on the proxies:
\* recover_epoch(max + 1) with the storage's own + 1  ==> max(existing + 2, own + 1)
Max2(a, b) == IF a >= b THEN a ELSE b
MaxProxyEpoch == CHOOSE e \in {pEpoch[p] : p \in Proxies} : \A q \in Proxies : pEpoch[q] <= e
BrokerLoss(old) == /\ ~stopped /\ faults < MaxFaults /\ old \in 1..bEpoch
                   /\ Max2(MaxProxyEpoch + 2, old + 1) <= MaxEpoch
                   /\ bEpoch' = Max2(MaxProxyEpoch + 2, old + 1)
                   /\ faults' = faults + 1 /\ UNCHANGED <<pEpoch, inflight, stopped>>
FaultsStop == ~stopped /\ stopped' = TRUE /\ UNCHANGED <<bEpoch, pEpoch, inflight, faults>>

Next == \/ AdminChange \/ FaultsStop
        \/ \E p \in Proxies : Send(p) \/ Restart(p)
        \/ \E m \in inflight : Deliver(m) \/ Lose(m)
        \/ \E old \in 1..MaxEpoch : BrokerLoss(old)

\* coordinators keep running rounds; delivery of what they send after the faults stopped is fair
Fairness == /\ \A p \in Proxies : WF_vars(Send(p))
            /\ \A p \in Proxies : \A e \in 1..MaxEpoch : SF_vars(stopped /\ Deliver([to |-> p, epoch |-> e]))
Spec == Init /\ [][Next]_vars /\ Fairness

\* C07 safety: a proxy never moves to an older version except by restarting
NoOlder == [][\A p \in Proxies : pEpoch'[p] >= pEpoch[p] \/ pEpoch'[p] = 0]_vars
\* nothing a proxy holds is newer than what the broker can still supersede ... after recovery the broker is ahead
RecoveredAhead == [][(bEpoch' # bEpoch /\ bEpoch' # bEpoch + 1) => \A p \in Proxies : bEpoch' > pEpoch[p]]_vars
\* C07 / C13 liveness: once faults stop and no admin change happens any more, every proxy reaches the broker's epoch
Converges == (stopped /\ bEpoch = MaxEpoch) ~> (\A p \in Proxies : pEpoch[p] = bEpoch)
\* a proxy never holds an epoch the broker never served (sanity)
NeverAhead == \A p \in Proxies : pEpoch[p] <= MaxEpoch
\* DESIGN OBSERVATION (outside the listed properties, kept as an expected counterexample: ControlPlane_MC_obs.cfg):
\* epoch recovery looks at the epochs the proxies HOLD.  A message of the lost history that is still in flight (a delayed or
\* duplicated SETCLUSTER) can arrive after the recovery and put a proxy AHEAD of the recovered broker; the proxy then answers
\* OLD_EPOCH (which the coordinator takes for success) to everything the broker serves until the broker's epoch has caught up.
\* C13 quantifies over installed epochs at recovery time and C07 over message faults without broker loss, so neither
\* property is violated; the combination is what this invariant shows.
NotAhead == \A p \in Proxies : pEpoch[p] <= bEpoch
=============================================================================
