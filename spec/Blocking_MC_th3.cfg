SPECIFICATION Spec
CONSTANTS
  Senders <- S3
  Blockers <- B1
  Target <- T3
  MaxTries = 3
  defaultInitValue = "dflt"
INVARIANTS NoLeak AtMostOnce ExactlyOnceAtEnd Drained OnlyParkedRedispatched NeverBoth CounterSane
PROPERTIES Live Terminates
CHECK_DEADLOCK FALSE
