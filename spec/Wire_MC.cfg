SPECIFICATION Spec
INVARIANT RoundTrip
CHECK_DEADLOCK FALSE
