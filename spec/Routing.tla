------------------------------- MODULE Routing -------------------------------
(***************************************************************************)
(* Routing of one slot through synchronised proxies (src/proxy/manager.rs  *)
(* send_cmd_ctx: migration map -> local slot map -> peer slot map;         *)
(* src/migration/scan_task.rs send of migrating / importing tasks), and    *)
(* the topology a proxy advertises (src/proxy/cluster.rs                   *)
(* should_ignore_slots).  Slots route independently, so one slot is        *)
(* modelled; a scenario fixes who owns it in the broker's view and, for a  *)
(* migration, the pair of migration states of source and destination.     *)
(***************************************************************************)
EXTENDS Naturals, Sequences, FiniteSets, TLC

CONSTANT P          \* proxies of the cluster (each stands for its master node as well)

SrcStates == {"PreCheck", "PreBlocking", "PreSwitch", "Scanning", "FinalSwitch", "SwitchCommitted"}
\* consistent <<source state, destination state>> pairs of the handshake
Pairs == {<<"PreCheck", "PreCheck">>, <<"PreBlocking", "PreCheck">>, <<"PreSwitch", "PreCheck">>,
          <<"PreSwitch", "PreSwitch">>, <<"Scanning", "PreSwitch">>, <<"FinalSwitch", "PreSwitch">>,
          <<"FinalSwitch", "SwitchCommitted">>, <<"SwitchCommitted", "SwitchCommitted">>}

\* scenario: stable owner, or a migration in the broker view with its state pair;
\* "committed" is the window in which the destination already has the committed metadata
Scenarios ==
    {[kind |-> "stable", owner |-> o] : o \in P} \cup
    {[kind |-> "mig", src |-> sd[1], dst |-> sd[2], ss |-> pr[1], ds |-> pr[2]] :
        sd \in {x \in P \X P : x[1] # x[2]}, pr \in Pairs} \cup
    {[kind |-> "committed", src |-> sd[1], dst |-> sd[2], bystandersNew |-> b] :
        sd \in {x \in P \X P : x[1] # x[2]}, b \in BOOLEAN}

\* what proxy p holds locally for the slot: "none" (stable), "migrating", "importing", or "absent"
Local(sc, p) ==
    CASE sc.kind = "stable" -> IF p = sc.owner THEN "none" ELSE "absent"
      [] sc.kind = "mig" -> IF p = sc.src THEN "migrating" ELSE IF p = sc.dst THEN "importing" ELSE "absent"
      [] sc.kind = "committed" -> IF p = sc.dst THEN "none" ELSE IF p = sc.src THEN "migrating" ELSE "absent"
\* the peers that p's metadata lists for the slot (both twins of a migration are listed)
Peers(sc, p) ==
    CASE sc.kind = "stable" -> {sc.owner} \ {p}
      [] sc.kind = "mig" -> {sc.src, sc.dst} \ {p}
      [] sc.kind = "committed" ->
            IF p = sc.src THEN {sc.dst}                       \* source still has the migration view
            ELSE IF p = sc.dst THEN {}
            ELSE IF sc.bystandersNew THEN {sc.dst} ELSE {sc.src, sc.dst}

\* one routing decision at proxy p: a set of possible results (SlotMap::from_ranges lets either
\* twin win in the peer map; a command parked by the barrier is re-dispatched after the switch)
Exec(n) == [k |-> "exec", at |-> n]
Moved(n) == [k |-> "moved", to |-> n]
Err == [k |-> "error"]
Route(sc, p) ==
    LET loc == Local(sc, p) IN
    IF loc = "migrating" THEN
        LET ss == IF sc.kind = "mig" THEN sc.ss ELSE "SwitchCommitted" IN
        IF ss = "PreCheck" THEN {Exec(p)}
        ELSE IF ss \in {"PreBlocking", "PreSwitch"} THEN {Exec(p), [k |-> "queued"]}
        ELSE {Moved(sc.dst)}
    ELSE IF loc = "importing" THEN
        IF sc.ds = "PreCheck" THEN {Moved(sc.src)} ELSE {Exec(p)}
    ELSE IF loc = "none" THEN {Exec(p)}
    ELSE IF Peers(sc, p) = {} THEN {Err}
    ELSE {Moved(x) : x \in Peers(sc, p)}

\* all <<executing proxy | "error", redirects>> outcomes of a client that follows MOVED
RECURSIVE Walk(_, _, _)
Walk(sc, p, n) ==
    IF n > 6 THEN {<<"loop", n>>}
    ELSE UNION {IF r.k = "exec" THEN {<<r.at, n>>}
                ELSE IF r.k = "error" THEN {<<"error", n>>}
                \* parked by the barrier: re-dispatched at the same proxy once the switch happened
                ELSE IF r.k = "queued" THEN Walk([sc EXCEPT !.ss = "Scanning", !.ds = "PreSwitch"], p, n)
                ELSE Walk(sc, r.to, n + 1) : r \in Route(sc, p)}

Designated(sc) ==
    CASE sc.kind = "stable" -> {sc.owner}
      [] sc.kind = "mig" -> IF sc.ss = "PreCheck" THEN {sc.src} ELSE {sc.src, sc.dst}
      [] sc.kind = "committed" -> {sc.dst}
MaxRedirects(sc) == IF sc.kind = "stable" THEN 1 ELSE 3

\* C02 at the design level
RoutingOK(sc) ==
    \A p \in P : \A w \in Walk(sc, p, 0) : w[1] \in Designated(sc) /\ w[2] <= MaxRedirects(sc)

\* ---- advertising (should_ignore_slots) ----
\* the state a proxy knows for the migration (only the two parties have one)
KnownState(sc, p) ==
    IF sc.kind = "mig" THEN (IF p = sc.src THEN sc.ss ELSE IF p = sc.dst THEN sc.ds ELSE "unknown")
    ELSE IF sc.kind = "committed" /\ p = sc.src THEN "SwitchCommitted" ELSE "unknown"
\* the set of proxies under which p lists the slot in CLUSTER NODES / SLOTS
Advertised(sc, p) ==
    LET entries == (IF Local(sc, p) # "absent" THEN {<<p, Local(sc, p)>>} ELSE {}) \cup
                   {<<x, IF sc.kind = "stable" THEN "none"
                         ELSE IF sc.kind = "committed" /\ (p = sc.dst \/ (p # sc.src /\ sc.bystandersNew)) THEN "none"
                         ELSE IF x = sc.src THEN "migrating" ELSE "importing">> : x \in Peers(sc, p)}
        ignore(tag) == CASE tag = "migrating" -> KnownState(sc, p) # "PreCheck"
                         [] tag = "importing" -> KnownState(sc, p) = "PreCheck"
                         [] OTHER -> FALSE
    IN {e[1] : e \in {x \in entries : ~ignore(x[2])}}
\* C14 at the design level: exactly one advertised owner, agreeing with routing where routing is determined
AdvertisingOK(sc) ==
    \A p \in P :
        /\ Cardinality(Advertised(sc, p)) = 1
        /\ Advertised(sc, p) \subseteq
              (CASE sc.kind = "stable" -> {sc.owner}
                 [] sc.kind = "mig" -> IF sc.ss = "PreCheck" /\ p \in {sc.src, sc.dst} THEN {sc.src} ELSE {sc.src, sc.dst}
                 [] sc.kind = "committed" -> {sc.dst})
        \* from the switch on the two parties advertise the destination
        /\ (sc.kind = "mig" /\ p = sc.dst /\ sc.ds # "PreCheck") => Advertised(sc, p) = {sc.dst}
        /\ (sc.kind = "mig" /\ p = sc.src /\ sc.ss # "PreCheck") => Advertised(sc, p) = {sc.dst}
=============================================================================
