---------------------------- MODULE MetaConc_MC ----------------------------
EXTENDS MetaConc
\* three concurrent deliveries per kind; the interesting orders are decided by the scheduler
M_nf == { [id |-> 1, kind |-> "R", epoch |-> 2, force |-> FALSE], [id |-> 2, kind |-> "R", epoch |-> 3, force |-> FALSE],
          [id |-> 3, kind |-> "R", epoch |-> 3, force |-> FALSE],
          [id |-> 4, kind |-> "C", epoch |-> 2, force |-> FALSE], [id |-> 5, kind |-> "C", epoch |-> 3, force |-> FALSE],
          [id |-> 6, kind |-> "C", epoch |-> 3, force |-> FALSE] }
M_force == { [id |-> 1, kind |-> "R", epoch |-> 5, force |-> FALSE], [id |-> 2, kind |-> "R", epoch |-> 2, force |-> TRUE],
             [id |-> 3, kind |-> "R", epoch |-> 4, force |-> FALSE],
             [id |-> 4, kind |-> "C", epoch |-> 5, force |-> FALSE], [id |-> 5, kind |-> "C", epoch |-> 2, force |-> TRUE] }
M_r3 == { [id |-> 1, kind |-> "R", epoch |-> 1, force |-> FALSE], [id |-> 2, kind |-> "R", epoch |-> 2, force |-> FALSE],
          [id |-> 3, kind |-> "R", epoch |-> 3, force |-> FALSE], [id |-> 4, kind |-> "R", epoch |-> 2, force |-> FALSE] }
=============================================================================
