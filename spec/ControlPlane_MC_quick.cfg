SPECIFICATION Spec
CONSTANTS
  Proxies = {p1, p2}
  MaxEpoch = 3
  MaxFaults = 1
INVARIANT NeverAhead
PROPERTIES NoOlder RecoveredAhead Converges
CHECK_DEADLOCK FALSE
