--------------------------- MODULE Blocking_Trace ---------------------------
(***************************************************************************)
(* Validates schedules recorded from the real TaskBlockingQueue /          *)
(* BlockingHandle (harness/src/blockrig.rs + sched.rs) against Blocking.   *)
(*                                                                         *)
(* L1 (observer, can never get stuck): the C11 clauses evaluated on the    *)
(*    logged inner-send / re-dispatch / barrier events only.               *)
(* L2 (refinement): every hook event <thread,label> must be the next step  *)
(*    of that process in the PlusCal algorithm; on the first mismatch of a *)
(*    run the divergence is recorded and L2 resynchronises at the next     *)
(*    "reset" line, so one bad run never hides the others.                 *)
(***************************************************************************)
EXTENDS Blocking, Json, IOUtils, SequencesExt

Rec == ndJsonDeserialize(IOEnv.TRACE)
N == Len(Rec)

TrSenders == {Rec[1].senders[i] : i \in DOMAIN Rec[1].senders}
TrBlockers == {Rec[1].blockers[i] : i \in DOMAIN Rec[1].blockers}
TrTarget == [s \in TrSenders |-> Rec[1].targets[CHOOSE i \in DOMAIN Rec[1].senders : Rec[1].senders[i] = s]]

VARIABLES l, ok, div, viol,
          obar,        \* observer: blockers inside their barrier
          odrop,       \* observer: blockers that began dropping their handle
          oenq,        \* observer: tasks that reached the enqueue call
          ored         \* observer: re-dispatched tasks in order

tvars == <<l, ok, div, viol, obar, odrop, oenq, ored>>

Has(e, f) == f \in DOMAIN e

\* code label -> spec labels
MapLabel(lab) ==
    CASE lab = "s_decref" -> {"s_decref", "s_decretry", "s_decref2"}
      [] lab = "cas_load" -> {"b_ld", "b_dld"}
      [] lab = "cas_try" -> {"b_cas", "b_dcas"}
      [] lab = "c_done" -> {"c_loop"}
      [] OTHER -> {lab}

ProcStep(p) ==
    IF p = "redis" THEN completer
    ELSE IF p \in Senders THEN (sender(p) \/ release_all(p))
    ELSE (blocker(p) \/ release_all(p))

EvAct(e) == pc[e.t] \in MapLabel(e.label) /\ ProcStep(e.t)

TInit ==
    /\ Init
    /\ l = 1 /\ ok = TRUE /\ div = {} /\ viol = {}
    /\ obar = {} /\ odrop = {} /\ oenq = {} /\ ored = <<>>

ResetSpecVars ==
    /\ state' = [count |-> 0, term |-> 0] /\ running' = 0 /\ queue' = <<>>
    /\ mig' = [b \in Blockers |-> "PreCheck"]
    /\ innerSent' = {} /\ completed' = {} /\ enqueued' = {} /\ redispatched' = <<>>
    /\ barrier' = {} /\ leak' = FALSE
    /\ rt' = [self \in ProcSet |-> ""]
    /\ m' = [self \in Senders |-> ""] /\ h' = [self \in Senders |-> HintNot]
    /\ st' = [self \in Senders |-> [count |-> 0, term |-> 0]] /\ tries' = [self \in Senders |-> 0]
    /\ old' = [self \in Blockers |-> [count |-> 0, term |-> 0]] /\ prev' = [self \in Blockers |-> 0]
    /\ stack' = [self \in ProcSet |-> <<>>]
    /\ pc' = [self \in ProcSet |-> CASE self \in Senders -> "s_mig" [] self \in Blockers -> "b_pb" [] self = "redis" -> "c_loop"]

\* ---- L1 observer ----
CountIn(x, s) == Cardinality({i \in DOMAIN s : s[i] = x})
Observe(e) ==
    IF Has(e, "ev") THEN
        CASE e.ev = "reset" -> [bar |-> {}, drop |-> {}, enq |-> {}, red |-> <<>>, v |-> {}]
          [] e.ev = "barrier_on" -> [bar |-> obar \cup {e.t}, drop |-> odrop, enq |-> oenq, red |-> ored, v |-> {}]
          [] e.ev = "drop_begin" -> [bar |-> obar, drop |-> odrop \cup {e.t}, enq |-> oenq, red |-> ored, v |-> {}]
          [] e.ev = "inner" -> [bar |-> obar, drop |-> odrop, enq |-> oenq, red |-> ored,
                               v |-> (IF obar # {} THEN {"C11.leak_past_barrier"} ELSE {})
                                     \cup (IF e.task \in oenq THEN {"C11.sent_and_parked"} ELSE {})]
          [] e.ev = "redispatch" -> [bar |-> obar, drop |-> odrop, enq |-> oenq, red |-> Append(ored, e.task),
                               v |-> (IF CountIn(e.task, ored) > 0 THEN {"C11.redispatched_twice"} ELSE {})
                                     \cup (IF e.task \notin oenq THEN {"C11.redispatch_not_parked"} ELSE {})]
          [] e.ev = "final" -> [bar |-> obar, drop |-> odrop, enq |-> oenq, red |-> ored,
                               v |-> (IF ~e.blocking /\ \E x \in oenq : CountIn(x, ored) # 1
                                      THEN {"C11.parked_not_redispatched"} ELSE {})
                                     \cup (IF e.blocking THEN {"C11.blocking_not_lifted"} ELSE {})]
          [] e.ev = "panic" -> [bar |-> obar, drop |-> odrop, enq |-> oenq, red |-> ored, v |-> {"C11.panic"}]
          [] OTHER -> [bar |-> obar, drop |-> odrop, enq |-> oenq, red |-> ored, v |-> {}]
    ELSE IF Has(e, "obs") THEN
        \* the successful CAS of a dropping blocker lifts its barrier
        IF e.obs = "cas_result" /\ e.val = 1 /\ e.t \in odrop
        THEN [bar |-> obar \ {e.t}, drop |-> odrop \ {e.t}, enq |-> oenq, red |-> ored, v |-> {}]
        ELSE [bar |-> obar, drop |-> odrop, enq |-> oenq, red |-> ored, v |-> {}]
    ELSE \* hook label
        IF e.label = "s_enq"
        THEN [bar |-> obar, drop |-> odrop, enq |-> oenq \cup {e.t}, red |-> ored, v |-> {}]
        ELSE [bar |-> obar, drop |-> odrop, enq |-> oenq, red |-> ored, v |-> {}]

Step ==
    /\ l <= N
    /\ LET e == Rec[l]  o == Observe(e) IN
       /\ obar' = o.bar /\ odrop' = o.drop /\ oenq' = o.enq /\ ored' = o.red
       /\ viol' = viol \cup {<<l, x>> : x \in o.v}
       /\ IF Has(e, "ev") /\ e.ev = "reset"
          THEN ResetSpecVars /\ ok' = TRUE /\ div' = div
          ELSE IF Has(e, "label") /\ ~Has(e, "free") /\ e.label # "c_wait"
          THEN IF ok /\ ENABLED EvAct(e)
               THEN EvAct(e) /\ ok' = TRUE /\ div' = div
               ELSE UNCHANGED vars /\ ok' = FALSE /\ div' = (IF ok THEN div \cup {<<l, "L2." \o e.label>>} ELSE div)
          ELSE IF Has(e, "ev") /\ e.ev \in {"watchdog_free_run", "max_steps_free_run"}
          THEN UNCHANGED vars /\ ok' = FALSE /\ div' = div \cup {<<l, "L2.free_run">>}
          ELSE IF Has(e, "ev") /\ e.ev = "final" /\ ok
          THEN \* the spec must agree that everything is over and the queue is drained
               UNCHANGED vars /\ ok' = ok
               /\ div' = (IF (\A p \in Senders \cup Blockers : pc[p] = "Done") /\ queue = <<>>
                             /\ redispatched = ored /\ ~leak
                          THEN div ELSE div \cup {<<l, "L2.final_state">>})
          ELSE UNCHANGED vars /\ ok' = ok /\ div' = div
    /\ l' = l + 1
    /\ (l = N) => JsonSerialize(IOEnv.OUT,
                     [n |-> N, viol |-> SetToSeq({[line |-> v[1], mon |-> v[2]] : v \in viol'}),
                      div |-> SetToSeq({[line |-> v[1], mon |-> v[2]] : v \in div'})])

TSpec == TInit /\ [][Step]_<<vars, tvars>>
Consumed == TLCGet("stats").diameter - 1 = N
=============================================================================
