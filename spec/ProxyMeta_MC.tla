----------------------------- MODULE ProxyMeta_MC -----------------------------
(* All delivery sequences up to a bound: the properties of C05 on the sequential layer. *)
EXTENDS ProxyMeta
CONSTANTS MaxLen
Msgs == [kind : {"C", "R"}, epoch : 1..3, force : BOOLEAN, content : {1, 2}, hostOk : BOOLEAN]
VARIABLES s, n, lastMsg, lastReply, prev, accepted
vars == <<s, n, lastMsg, lastReply, prev, accepted>>
Init == s = InitState /\ n = 0 /\ lastMsg = [kind |-> "-"] /\ lastReply = "-" /\ prev = InitState
        /\ accepted = [C |-> {}, R |-> {}]
Next == /\ n < MaxLen
        /\ \E m \in Msgs :
             LET d == Deliver(s, m) IN
             /\ s' = d.s /\ lastMsg' = m /\ lastReply' = d.reply /\ prev' = s /\ n' = n + 1
             /\ accepted' = IF d.reply = "OK" THEN [accepted EXCEPT ![m.kind] = @ \cup {<<m.epoch, m.content>>}] ELSE accepted
Spec == Init /\ [][Next]_vars
\* applied iff strictly newer (or forced) and hosts match
AppliedIffNewer ==
    n > 0 => (lastReply = "OK" <=> (lastMsg.hostOk /\ (lastMsg.force \/ lastMsg.epoch >
                  (IF lastMsg.kind = "C" THEN prev.cEpoch ELSE prev.rEpoch))))
\* the reported epoch never decreases without a forced message
NoRegress == n > 0 => (GetEpoch(s) < GetEpoch(prev) => (lastMsg.force /\ lastMsg.kind = "C"))
\* routing / roles always correspond to an accepted message carrying the installed epoch of that kind
Corresponds ==
    /\ (s.cEpoch # 0 => <<s.cEpoch, s.cContent>> \in accepted.C)
    /\ (s.rEpoch # 0 => <<s.rEpoch, s.rContent>> \in accepted.R)
\* a refused message changes nothing
RefusedNoChange == n > 0 => (lastReply # "OK" => s = prev)
=============================================================================
