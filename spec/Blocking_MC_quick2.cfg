SPECIFICATION Spec
CONSTANTS
  Senders <- S2
  Blockers <- B1
  Target <- T2n
  MaxTries = 3
  defaultInitValue = "dflt"
INVARIANTS NoLeak AtMostOnce ExactlyOnceAtEnd Drained OnlyParkedRedispatched NeverBoth CounterSane
PROPERTIES Live Terminates
CHECK_DEADLOCK FALSE
