SPECIFICATION Spec
CONSTANTS
  Redirect = "wrapped"
  Fix = "skip_forwarded"
  Strategy = "allow_all"
INVARIANTS Transparent DisabledIsPlain
CHECK_DEADLOCK FALSE
