------------------------------ MODULE ProxyMeta ------------------------------
(***************************************************************************)
(* How a proxy installs control-plane metadata (src/proxy/manager.rs       *)
(* MetaManager::set_meta, src/replication/manager.rs                       *)
(* ReplicatorManager::update_replicators, the UMCTL SETCLUSTER / SETREPL   *)
(* handlers of src/proxy/executor.rs).                                     *)
(*                                                                         *)
(* Sequential layer: one delivery at a time.  A message is                 *)
(*   [kind : {"C","R"}, epoch, force, content, hostOk]                      *)
(* and the proxy state is the installed (epoch, content) per kind.         *)
(***************************************************************************)
EXTENDS Naturals, Sequences, FiniteSets, TLC

NoContent == 0
InitState == [cEpoch |-> 0, cContent |-> NoContent, rEpoch |-> 0, rContent |-> NoContent]

\* the reply and the post-state of one delivery
Deliver(s, m) ==
    IF ~m.hostOk THEN [reply |-> "NOT_MY_META", s |-> s]
    ELSE IF m.kind = "C" THEN
        IF m.epoch <= s.cEpoch /\ ~m.force THEN [reply |-> "OLD_EPOCH", s |-> s]
        ELSE [reply |-> "OK", s |-> [s EXCEPT !.cEpoch = m.epoch, !.cContent = m.content]]
    ELSE
        IF m.epoch <= s.rEpoch /\ ~m.force THEN [reply |-> "OLD_EPOCH", s |-> s]
        ELSE [reply |-> "OK", s |-> [s EXCEPT !.rEpoch = m.epoch, !.rContent = m.content]]

\* what the proxy reports and does in state s
GetEpoch(s) == s.cEpoch
Routes(s) == s.cContent
Roles(s) == s.rContent
=============================================================================
