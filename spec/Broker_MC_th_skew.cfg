SPECIFICATION Spec
CONSTANTS
  DefaultConfig <- DefaultConfigVal
  HostsOf <- HostsSkew
  MaxSteps = 2
  Scenarios <- ScenQuick
  Ordered = FALSE
CONSTRAINT Bound
INVARIANTS StateOK CheckOK
PROPERTY StepProp
CHECK_DEADLOCK FALSE
