-------------------------------- MODULE Wire --------------------------------
(* The plain (uncompressed) text format of UMCTL SETCLUSTER (property C17):                            *)
(*     v2 <epoch> <flags> <name> {<node> <slot-range>}  [PEER {<proxy> <slot-range>}] [CONFIG {<k> <v>}] *)
(*     <slot-range> ::= [MIGRATING | IMPORTING] <n> <lo-hi>*n [<epoch> <src proxy> <src node> <dst proxy> <dst node>] *)
(* common/proto.rs ProxyClusterMeta::parse / to_args, NodeMap::parse / to_args, ClusterConfigData::parse, *)
(* common/cluster.rs SlotRange::from_strings / into_strings, RangeList::parse / to_strings / compact.     *)
(* A token is a record of what the parser can read it as:                                               *)
(*     s    the text            up   the text in upper case (keywords are matched case-insensitively)    *)
(*     num  its value as an unsigned integer, -1 if it is not one                                        *)
(*     lo, hi  its value as a range "lo-hi", lo = -1 if it is not one                                    *)
(*     force   it contains the flag FORCE      compress   it contains the flag COMPRESS                  *)
(*     nameok  it is acceptable as a cluster name                                                        *)
(* Dec is the parser, Enc the encoder; both are total functions written as the code is.                  *)
EXTENDS Integers, Sequences, FiniteSets, SequencesExt, Functions

Keywords == {"PEER", "CONFIG"}
Tags == {"MIGRATING", "IMPORTING"}
NoMeta == [epoch |-> 0, sp |-> "", sn |-> "", dp |-> "", dn |-> ""]
Fail == [ok |-> FALSE]

-----------------------------------------------------------------------------
(* RangeList::new = compact: swap reversed bounds, sort, merge overlapping and adjacent ranges *)
SlotsOf(rs) == UNION {(IF r[1] <= r[2] THEN r[1] ELSE r[2]) .. (IF r[1] <= r[2] THEN r[2] ELSE r[1]) : r \in ToSet(rs)}
Canon(rs) ==
    LET S == SlotsOf(rs)
        starts == SetToSortSeq({x \in S : (x - 1) \notin S}, <)
        ends == SetToSortSeq({x \in S : (x + 1) \notin S}, <)
    IN [i \in 1..Len(starts) |-> <<starts[i], ends[i]>>]

-----------------------------------------------------------------------------
(* the parser: every operator returns [ok, v, p] with p the next position *)

\* RangeList::parse
ParseRanges(t, p) ==
    IF p > Len(t) \/ t[p].num < 0 THEN Fail
    ELSE LET n == t[p].num IN
         IF p + n > Len(t) \/ \E i \in 1..n : t[p + i].lo < 0 THEN Fail
         ELSE [ok |-> TRUE, v |-> Canon([i \in 1..n |-> <<t[p + i].lo, t[p + i].hi>>]), p |-> p + n + 1]

\* MigrationMeta::from_strings
ParseMigMeta(t, p) ==
    IF p + 4 > Len(t) \/ t[p].num < 0 THEN Fail
    ELSE [ok |-> TRUE, p |-> p + 5,
          v |-> [epoch |-> t[p].num, sp |-> t[p + 1].s, sn |-> t[p + 2].s, dp |-> t[p + 3].s, dn |-> t[p + 4].s]]

\* SlotRange::from_strings
ParseSlotRange(t, p) ==
    IF p > Len(t) THEN Fail
    ELSE IF t[p].up \in Tags
         THEN LET r == ParseRanges(t, p + 1) IN
              IF ~r.ok THEN Fail
              ELSE LET m == ParseMigMeta(t, r.p) IN
                   IF ~m.ok THEN Fail
                   ELSE [ok |-> TRUE, p |-> m.p,
                         v |-> [rl |-> r.v, tag |-> IF t[p].up = "MIGRATING" THEN "migrating" ELSE "importing", meta |-> m.v]]
         ELSE LET r == ParseRanges(t, p) IN
              IF ~r.ok THEN Fail ELSE [ok |-> TRUE, p |-> r.p, v |-> [rl |-> r.v, tag |-> "none", meta |-> NoMeta]]

\* NodeMap::parse: entries until the end or a section keyword; v = sequence of <<node, slot range>> in order
RECURSIVE ParseNodes(_, _, _)
ParseNodes(t, p, acc) ==
    IF p > Len(t) \/ t[p].up \in Keywords THEN [ok |-> TRUE, v |-> acc, p |-> p]
    ELSE LET sr == ParseSlotRange(t, p + 1) IN
         IF ~sr.ok THEN Fail ELSE ParseNodes(t, sr.p, Append(acc, <<t[p].s, sr.v>>))

\* the map a sequence of entries stands for: node -> its slot ranges in order of appearance
NodeMapOf(entries) ==
    LET nodes == {e[1] : e \in ToSet(entries)} IN
    [n \in nodes |-> SelectSeq(entries, LAMBDA e : e[1] = n)]
NodeSetOf(entries) ==
    LET m == NodeMapOf(entries) IN {[node |-> n, slots |-> [i \in 1..Len(m[n]) |-> m[n][i][2]]] : n \in DOMAIN m}

\* ClusterConfigData::parse: pairs until the end or a section keyword; pairok says whether set_field accepts the pair
RECURSIVE ParseConfig(_, _, _)
ParseConfig(t, p, pairok) ==
    IF p > Len(t) \/ t[p].up \in Keywords THEN [ok |-> TRUE, p |-> p]
    ELSE IF p + 1 > Len(t) THEN [ok |-> FALSE, p |-> Len(t) + 1]
    ELSE IF ~pairok[p] THEN [ok |-> FALSE, p |-> p + 2]
    ELSE ParseConfig(t, p + 2, pairok)

\* the section loop of ProxyClusterMeta::parse
RECURSIVE ParseSections(_, _, _, _, _, _)
ParseSections(t, p, pairok, local, peer, extok) ==
    IF p > Len(t) THEN [ok |-> TRUE, peer |-> peer, extok |-> extok]
    ELSE IF t[p].up = "PEER"
         THEN LET r == ParseNodes(t, p + 1, <<>>) IN
              IF ~r.ok THEN Fail ELSE ParseSections(t, r.p, pairok, local, r.v, extok)
    ELSE IF t[p].up = "CONFIG"
         THEN LET c == ParseConfig(t, p + 1, pairok) IN
              IF c.ok THEN ParseSections(t, c.p, pairok, local, peer, extok)
              ELSE IF local = <<>> \/ peer = <<>> THEN Fail
              ELSE ParseSections(t, c.p, pairok, local, peer, FALSE)
    ELSE Fail

\* ProxyClusterMeta::parse for the uncompressed format
Dec(t, pairok) ==
    IF Len(t) < 4 THEN Fail
    ELSE IF t[1].s # "v2" \/ t[2].num < 0 \/ t[3].compress \/ ~t[4].nameok THEN Fail
    ELSE LET l == ParseNodes(t, 5, <<>>) IN
         IF ~l.ok THEN Fail
         ELSE LET r == ParseSections(t, l.p, pairok, l.v, <<>>, TRUE) IN
              IF ~r.ok THEN Fail
              ELSE [ok |-> TRUE, epoch |-> t[2].num, force |-> t[3].force, name |-> t[4].s,
                    local |-> NodeSetOf(l.v), peer |-> NodeSetOf(r.peer), extok |-> r.extok]

-----------------------------------------------------------------------------
(* the encoder over abstract values (used by the model-checking module) *)
\* a value: [epoch, force, name, local, peer] with local/peer sequences of <<node, slot range>> entries
=============================================================================
