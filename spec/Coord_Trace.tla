----------------------------- MODULE Coord_Trace -----------------------------
(***************************************************************************)
(* L2 for C07 / C13: the call log of the control-plane rig (ctlrig.rs: real *)
(* coordinator rounds over a fault-injecting call layer, real broker, real  *)
(* proxies) is walked against the chain automata of Coord.tla, instantiated *)
(* for every (coordinator, proxy) pair and every reported migration task:   *)
(*                                                                         *)
(*   sync chain       SGet -> SRepl -> SClu           (Coord!SGet, SRepl, SClu, SFail)               *)
(*   migration chain  MInfo -> MCommit -> MGet(dst) -> MRepl -> MClu -> MGet(src) -> MRepl -> MClu     *)
(*                                                  (Coord!MInfo .. MClu, MFail; 404 on commit goes on) *)
(*   proxies          the epoch gate per message kind (Coord!InstallR / InstallC)                     *)
(*                                                                         *)
(* Every recorded call must be the next step of some chain of its caller    *)
(* (same target, same epoch as the view fetched by that chain), a chain     *)
(* stops exactly when a call failed, no chain is left unfinished at the end *)
(* of a round, and a proxy answers OK exactly when the epoch is newer than  *)
(* what the log shows it has installed.  A recorded step that is not        *)
(* enabled is a DIVERGENCE (counted, never an alarm: the listed properties  *)
(* are judged by the L1 monitors of Routing_Trace.tla).                     *)
(***************************************************************************)
EXTENDS Integers, Sequences, FiniteSets, TLC, Json, IOUtils, SequencesExt

Rec == ndJsonDeserialize(IOEnv.TRACE)
N == Len(Rec)

VARIABLES l,
          kind,    \* [coordinator -> "sync" | "migration" | "detect" | "failover"]  round in progress
          sy,      \* [<<who, proxy>> -> [pc, e]]                 sync chains:  pc \in {"got", "repl"}
          mg,      \* [<<who, reporter>> -> [pc, e, dp, sp, left]] migration chains: pc \in {"commit","dget","drepl","dclu","sget","srepl","sclu"}
          inst,    \* [proxy -> [C, R]] epochs the log has shown to be installed (absent = unknown)
          div,     \* set of <<line, what>>
          steps    \* number of chain steps matched (evidence)
vars == <<l, kind, sy, mg, inst, div, steps>>

With(f, k, v) == [x \in (DOMAIN f) \cup {k} |-> IF x = k THEN v ELSE f[x]]
Without(f, k) == [x \in (DOMAIN f) \ {k} |-> f[x]]
Get(f, k, d) == IF k \in DOMAIN f THEN f[k] ELSE d

Digits == <<"0","1","2","3","4","5","6","7","8","9">>
IsDigit(c) == \E i \in 1..10 : Digits[i] = c
DigitVal(c) == (CHOOSE i \in 1..10 : Digits[i] = c) - 1
RECURSIVE StrToNat(_, _)
StrToNat(s, acc) == IF s = "" THEN acc
                    ELSE IF ~IsDigit(SubSeq(s, 1, 1)) \/ acc > 100000000 THEN 0
                    ELSE StrToNat(SubSeq(s, 2, Len(s)), acc * 10 + DigitVal(SubSeq(s, 1, 1)))

IsSet(e) == e.kind = "call" /\ Len(e.cmd) >= 4 /\ e.cmd[1] = "UMCTL" /\ e.cmd[2] \in {"SETCLUSTER", "SETREPL"}
MsgKind(e) == IF e.cmd[2] = "SETCLUSTER" THEN "C" ELSE "R"
EpochOf(e) == StrToNat(IF e.cmd[2] = "SETCLUSTER" THEN e.cmd[4] ELSE e.cmd[3], 0)
Forced(e) == (IF e.cmd[2] = "SETCLUSTER" THEN e.cmd[5] ELSE e.cmd[4]) \in {"FORCE", "FORCE,COMPRESS"}
Fault(e) == IF "fault" \in DOMAIN e THEN e.fault ELSE ""
Applied(e) == e.reply.t = "simple"                                   \* the proxy installed it
Refused(e) == e.reply.t = "error" /\ e.reply.s = "OLD_EPOCH"
\* what the caller saw: a lost request, a lost reply and an error other than OLD_EPOCH all end its chain (sync.rs send_meta)
SeenOk(e) == Fault(e) # "dropreply" /\ (Applied(e) \/ Refused(e))

\* ---- the proxy side: Coord!InstallR / InstallC ----
\* what the log has shown a proxy to hold, per message kind; -1 = not known (installed before the log started)
Held(p, k) == IF p \in DOMAIN inst THEN inst[p][k] ELSE -1
GateDiv(e) ==
    LET p == e.to  k == MsgKind(e)  ep == EpochOf(e)  cur == Held(p, k) IN
    IF e.reply.t = "lost" \/ Forced(e) \/ cur < 0 THEN {}
    ELSE (IF Applied(e) /\ ep <= cur THEN {"gate_accepted_not_newer"} ELSE {}) \cup
         (IF Refused(e) /\ ep > cur THEN {"gate_refused_newer"} ELSE {})
GateNext(e) ==
    LET p == e.to  k == MsgKind(e)  ep == EpochOf(e)
        old == Get(inst, p, [C |-> -1, R |-> -1]) IN
    IF Applied(e) THEN With(inst, p, [old EXCEPT ![k] = ep]) ELSE inst

\* ---- migration chains of a coordinator that wait for a given step ----
MKeys(who, pcs, field, addr) == {k \in DOMAIN mg : k[1] = who /\ mg[k].pc \in pcs /\ (field = "" \/ mg[k][field] = addr)}
Pick(S) == CHOOSE k \in S : TRUE
\* the task is done: next reported task of the same reporter, or the chain ends
NextTask(k) == IF mg[k].left > 1 THEN With(mg, k, [mg[k] EXCEPT !.pc = "commit", !.left = @ - 1]) ELSE Without(mg, k)

Init == /\ l = 1 /\ kind = <<>> /\ sy = <<>> /\ mg = <<>> /\ inst = <<>> /\ div = {} /\ steps = 0

Step ==
    /\ l <= N
    /\ LET e == Rec[l] IN
       CASE e.kind = "reset" ->
              /\ kind' = <<>> /\ sy' = <<>> /\ mg' = <<>> /\ inst' = <<>> /\ UNCHANGED <<div, steps>>
         [] e.kind = "round_start" ->
              /\ kind' = With(kind, e.who, e.what) /\ UNCHANGED <<sy, mg, inst, div, steps>>
         [] e.kind = "round" ->
              \* Coord.tla: a chain ends only by completing or by a failed call; nothing may be pending when the round returns
              LET pend == {k \in DOMAIN sy : k[1] = e.who} \cup {k \in DOMAIN mg : k[1] = e.who} IN
              /\ div' = div \cup (IF pend # {} THEN {<<l, "chain_abandoned">>} ELSE {})
              /\ sy' = [k \in {x \in DOMAIN sy : x[1] # e.who} |-> sy[k]]
              /\ mg' = [k \in {x \in DOMAIN mg : x[1] # e.who} |-> mg[k]]
              /\ kind' = Without(kind, e.who)
              /\ UNCHANGED <<inst, steps>>
         [] e.kind = "restart" ->
              /\ inst' = With(inst, e.proxy, [C |-> 0, R |-> 0]) /\ UNCHANGED <<kind, sy, mg, div, steps>>
         [] e.kind = "bcall" /\ e.call = "get_proxy" ->
              LET who == e.who  a == e.arg  K == Get(kind, who, "none")
                  lost == e.res.epoch < 0              \* the call or its reply was lost (the rig records epoch -1)
                  ep == IF lost THEN 0 ELSE e.res.epoch IN
              IF K = "sync" THEN
                  /\ div' = div \cup (IF <<who, a>> \in DOMAIN sy THEN {<<l, "sync_second_get_in_round">>} ELSE {})
                  /\ sy' = IF lost \/ ep = 0 THEN Without(sy, <<who, a>>) ELSE With(sy, <<who, a>>, [pc |-> "got", e |-> ep])
                  /\ steps' = steps + 1 /\ UNCHANGED <<kind, mg, inst>>
              ELSE IF K = "migration" THEN
                  LET cd == MKeys(who, {"dget"}, "dp", a)  cs == MKeys(who, {"sget"}, "sp", a) IN
                  IF cd \cup cs = {} THEN div' = div \cup {<<l, "mig_get_without_commit">>} /\ UNCHANGED <<kind, sy, mg, inst, steps>>
                  ELSE LET k == Pick(IF cd # {} THEN cd ELSE cs)  isd == cd # {} IN
                       /\ mg' = IF lost THEN Without(mg, k)
                                ELSE IF ep = 0 THEN (IF isd THEN With(mg, k, [mg[k] EXCEPT !.pc = "sget"]) ELSE NextTask(k))
                                ELSE With(mg, k, [mg[k] EXCEPT !.pc = IF isd THEN "drepl" ELSE "srepl", !.e = ep])
                       /\ steps' = steps + 1 /\ UNCHANGED <<kind, sy, inst, div>>
              ELSE UNCHANGED <<kind, sy, mg, inst, div, steps>>
         [] e.kind = "bcall" /\ e.call = "commit_migration" ->
              LET who == e.who
                  c1 == MKeys(who, {"commit"}, "", "")
                  cands == {k \in c1 : k[2] \in {e.arg.meta.sp, e.arg.meta.dp}}
                  \* what the caller saw: success and 404 let the chain go on (http_mani_broker.rs), a lost call ends it
                  went == e.res.first # "lost" /\ Fault(e) # "DropReply"
                          /\ (LET r == IF e.res.second # "" THEN e.res.second ELSE e.res.first IN r \in {"OK", "MIGRATION_TASK_NOT_FOUND", "CLUSTER_NOT_FOUND"}) IN
              IF cands = {} THEN div' = div \cup {<<l, "commit_without_report">>} /\ UNCHANGED <<kind, sy, mg, inst, steps>>
              ELSE LET k == Pick(cands) IN
                   /\ mg' = IF went THEN With(mg, k, [mg[k] EXCEPT !.pc = "dget", !.dp = e.arg.meta.dp, !.sp = e.arg.meta.sp])
                            ELSE Without(mg, k)
                   /\ steps' = steps + 1 /\ UNCHANGED <<kind, sy, inst, div>>
         [] e.kind = "call" /\ Len(e.cmd) >= 2 /\ e.cmd[1] = "UMCTL" /\ e.cmd[2] = "INFOMGR" /\ Get(kind, e.from, "none") = "migration" ->
              LET n == IF e.reply.t = "arr" /\ Fault(e) # "dropreply" THEN Len(e.reply.a) ELSE 0 IN
              /\ mg' = IF n > 0 THEN With(mg, <<e.from, e.to>>, [pc |-> "commit", e |-> 0, dp |-> "", sp |-> "", left |-> n]) ELSE mg
              /\ steps' = steps + (IF n > 0 THEN 1 ELSE 0) /\ UNCHANGED <<kind, sy, inst, div>>
         [] e.kind = "connect_failed" ->
              \* Coord!SFail / MFail with an unreachable target: the chain of this caller that was about to call `to` ends
              LET who == e.from  p == e.to
                  ms == MKeys(who, {"drepl", "dclu"}, "dp", p) \cup MKeys(who, {"srepl", "sclu"}, "sp", p) IN
              /\ sy' = Without(sy, <<who, p>>)
              /\ mg' = IF ms # {} THEN Without(mg, Pick(ms)) ELSE mg
              /\ UNCHANGED <<kind, inst, div, steps>>
         [] IsSet(e) /\ Fault(e) = "dup-first" ->
              \* the first delivery of a duplicated message: only the proxy side moves
              /\ div' = div \cup {<<l, x>> : x \in GateDiv(e)} /\ inst' = GateNext(e) /\ UNCHANGED <<kind, sy, mg, steps>>
         [] IsSet(e) /\ e.from = "delayed" ->
              /\ div' = div \cup {<<l, x>> : x \in GateDiv(e)} /\ inst' = GateNext(e) /\ UNCHANGED <<kind, sy, mg, steps>>
         [] IsSet(e) ->
              LET who == e.from  p == e.to  mk == MsgKind(e)  ep == EpochOf(e)  K == Get(kind, who, "none")
                  gd == {<<l, x>> : x \in GateDiv(e)} IN
              /\ inst' = GateNext(e)
              /\ IF K = "sync" THEN
                    LET k == <<who, p>>
                        want == IF mk = "R" THEN "got" ELSE "repl"
                        okpre == k \in DOMAIN sy /\ sy[k].pc = want /\ sy[k].e = ep IN
                    /\ div' = div \cup gd \cup (IF okpre THEN {} ELSE {<<l, IF mk = "R" THEN "setrepl_not_enabled" ELSE "setcluster_not_enabled">>})
                    /\ sy' = IF mk = "R" /\ okpre /\ SeenOk(e) THEN With(sy, k, [sy[k] EXCEPT !.pc = "repl"]) ELSE Without(sy, k)
                    /\ steps' = steps + 1 /\ UNCHANGED <<kind, mg>>
                 ELSE IF K = "migration" THEN
                    LET cd == MKeys(who, {IF mk = "R" THEN "drepl" ELSE "dclu"}, "dp", p)
                        cs == MKeys(who, {IF mk = "R" THEN "srepl" ELSE "sclu"}, "sp", p)
                        ce == {k \in cd \cup cs : mg[k].e = ep} IN
                    IF ce = {} THEN /\ div' = div \cup gd \cup {<<l, IF mk = "R" THEN "mig_setrepl_not_enabled" ELSE "mig_setcluster_not_enabled">>}
                                    /\ UNCHANGED <<kind, sy, mg, steps>>
                    ELSE LET k == Pick(IF ce \cap cd # {} THEN ce \cap cd ELSE ce)  isd == k \in cd IN
                         /\ div' = div \cup gd
                         /\ mg' = IF ~SeenOk(e) THEN Without(mg, k)
                                  ELSE IF mk = "R" THEN With(mg, k, [mg[k] EXCEPT !.pc = IF isd THEN "dclu" ELSE "sclu"])
                                  ELSE IF isd THEN With(mg, k, [mg[k] EXCEPT !.pc = "sget"])
                                  ELSE NextTask(k)
                         /\ steps' = steps + 1 /\ UNCHANGED <<kind, sy>>
                 ELSE /\ div' = div \cup gd /\ UNCHANGED <<kind, sy, mg, steps>>
         [] OTHER -> UNCHANGED <<kind, sy, mg, inst, div, steps>>
    /\ l' = l + 1
    /\ (l = N) => JsonSerialize(IOEnv.OUT, [n |-> N, steps |-> steps', viol |-> <<>>,
                     div |-> SetToSeq({[line |-> v[1], mon |-> v[2]] : v \in div'})])
Spec == Init /\ [][Step]_vars
Consumed == TLCGet("stats").diameter - 1 = N
=============================================================================
