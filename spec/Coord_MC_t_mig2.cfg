SPECIFICATION Spec
CONSTANTS
  Coords = {c1,c2}
  MaxEpoch = 3
  MaxFaults = 1
  Variant = "asbuilt"
  Features = {"migration","crash","lostreply"}
CONSTRAINT AtMost2
INVARIANTS TypeOK NeverAhead CommitOnce DstBeforeSrc Owned NoLoneFailover
PROPERTIES NoOlder 
CHECK_DEADLOCK FALSE
