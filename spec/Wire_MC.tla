------------------------------ MODULE Wire_MC ------------------------------
(* Model checking of the format itself: the encoder (to_args) composed with the parser (Dec) is the
   identity on a bounded set of values; and the statement of the format's limitation: a single deleted token
   is NOT always detected (expected to be violated: known finding C17 plain-format corruption). *)
EXTENDS Wire, TLC

Base(s) == [s |-> s, up |-> s, num |-> -1, lo |-> -1, hi |-> -1, force |-> FALSE, compress |-> FALSE, nameok |-> TRUE]
Word(s) == Base(s)
Num(n) == [Base(ToString(n)) EXCEPT !.num = n]
Rng(lo, hi) == [Base(ToString(lo) \o "-" \o ToString(hi)) EXCEPT !.lo = lo, !.hi = hi]
Flag(f) == [Base(IF f THEN "FORCE" ELSE "NOFLAG") EXCEPT !.force = f]

EncSlotRange(sr) ==
    LET ranges == <<Num(Len(sr.rl))>> \o [i \in 1..Len(sr.rl) |-> Rng(sr.rl[i][1], sr.rl[i][2])] IN
    IF sr.tag = "none" THEN ranges
    ELSE <<Word(IF sr.tag = "migrating" THEN "MIGRATING" ELSE "IMPORTING")>> \o ranges
         \o <<Num(sr.meta.epoch), Word(sr.meta.sp), Word(sr.meta.sn), Word(sr.meta.dp), Word(sr.meta.dn)>>

RECURSIVE EncNodes(_)
EncNodes(entries) == IF entries = <<>> THEN <<>> ELSE <<Word(entries[1][1])>> \o EncSlotRange(entries[1][2]) \o EncNodes(Tail(entries))

Enc(m) == <<Word("v2"), Num(m.epoch), Flag(m.force), Word(m.name)>> \o EncNodes(m.local)
          \o (IF m.peer = <<>> THEN <<>> ELSE <<Word("PEER")>> \o EncNodes(m.peer))

SR1 == [rl |-> <<<<0, 5>>>>, tag |-> "none", meta |-> NoMeta]
SR2 == [rl |-> <<<<0, 5>>, <<8, 9>>>>, tag |-> "migrating", meta |-> [epoch |-> 3, sp |-> "P", sn |-> "A", dp |-> "Q", dn |-> "B"]]
SR3 == [rl |-> <<<<7, 7>>>>, tag |-> "importing", meta |-> [epoch |-> 3, sp |-> "P", sn |-> "A", dp |-> "Q", dn |-> "B"]]
Entries == {<<n, sr>> : n \in {"A", "B"}, sr \in {SR1, SR2, SR3}}
EntrySeqs == {<<>>} \cup {<<a>> : a \in Entries} \cup {<<a, b>> : a \in Entries, b \in Entries}
Values == [epoch : {7}, force : BOOLEAN, name : {"db"}, local : EntrySeqs, peer : EntrySeqs]

Want(m) == [ok |-> TRUE, epoch |-> m.epoch, force |-> m.force, name |-> m.name,
            local |-> NodeSetOf(m.local), peer |-> NodeSetOf(m.peer), extok |-> TRUE]
NoPairs(t) == [i \in 1..Len(t) |-> FALSE]

VARIABLE m
Init == m \in Values
Next == UNCHANGED m
Spec == Init /\ [][Next]_m

RoundTrip == LET t == Enc(m) IN Dec(t, NoPairs(t)) = Want(m)

Delete(t, i) == SubSeq(t, 1, i - 1) \o SubSeq(t, i + 1, Len(t))
\* expected to be violated: the positional format does not detect every lost token
DeletionDetected == \A i \in 1..Len(Enc(m)) :
                        LET t == Delete(Enc(m), i)  d == Dec(t, NoPairs(t)) IN ~d.ok \/ d = Want(m)
\* truncation at any token boundary likewise
TruncationDetected == \A i \in 0..(Len(Enc(m)) - 1) :
                        LET t == SubSeq(Enc(m), 1, i)  d == Dec(t, NoPairs(t)) IN ~d.ok \/ d = Want(m)
=============================================================================
