SPECIFICATION Spec
CONSTANTS
  DefaultConfig <- DefaultConfigVal
  HostsOf <- HostsQuick
  MaxSteps = 2
  Scenarios <- ScenQuick
  Ordered = TRUE
CONSTRAINT Bound
INVARIANTS StateOK CheckOK
PROPERTY StepProp
CHECK_DEADLOCK FALSE
