SPECIFICATION HSpec
CONSTANTS
  Senders <- S3
  Blockers <- B2
  Target <- T3b
  MaxTries = 3
  defaultInitValue = "dflt"
CONSTRAINT SimConstraint
CHECK_DEADLOCK FALSE
