------------------------------ MODULE BrokerMon ------------------------------
(***************************************************************************)
(* L1 property monitors for the metadata broker (C01 C04 C06 C10 C12 C18). *)
(* Pure operators over *recorded* observations (trace schema: DESIGN.md    *)
(* Appendix B/D).  Nothing here depends on the Broker design spec: these   *)
(* are the listed properties, phrased over what the broker served.         *)
(*                                                                         *)
(* Shapes (JSON objects -> records, arrays -> 1-based sequences):          *)
(*  Range  == <<lo, hi>>                                                   *)
(*  SR     == [rl : Seq(Range), tag : {"none","migrating","importing"},    *)
(*             meta : [epoch, sp, sn, dp, dn]]                             *)
(*  Node   == [addr, proxy, role : {"master","replica"},                   *)
(*             peers : Seq([node, proxy]), slots : Seq(SR)]                *)
(*  CV     == [name, epoch, config, nodes : Seq(Node)]     cluster view    *)
(*  PV     == [addr, cluster, epoch, config, nodes : Seq(Node),            *)
(*             peers : Seq([proxy, slots : Seq(SR)])]       proxy view     *)
(*  S      == store projection, see Broker.tla                             *)
(***************************************************************************)
EXTENDS Naturals, Integers, Sequences, FiniteSets, TLC, SequencesExt, FiniteSetsExt, Functions

SLOT_NUM == 16384

SumSeq(s) == LET f[i \in 0..Len(s)] == IF i = 0 THEN 0 ELSE f[i-1] + s[i] IN f[Len(s)]
Max2(a, b) == IF a >= b THEN a ELSE b

RlNum(rl) == SumSeq([i \in DOMAIN rl |-> rl[i][2] - rl[i][1] + 1])

\* RangeList::compact's goal: for i < j: i.lo <= i.hi < j.lo, and not adjacent
RlCompact(rl) ==
    /\ \A i \in DOMAIN rl : rl[i][1] <= rl[i][2] /\ rl[i][1] >= 0 /\ rl[i][2] < SLOT_NUM
    /\ \A i \in 1..(Len(rl) - 1) : rl[i][2] + 1 < rl[i+1][1]

\* a sequence of intervals (in any order) partitions 0..16383
IntervalsPartition(iv) ==
    /\ \A i \in DOMAIN iv : iv[i][1] <= iv[i][2] /\ iv[i][1] >= 0 /\ iv[i][2] < SLOT_NUM
    /\ \A i, j \in DOMAIN iv : i < j => (iv[i][2] < iv[j][1] \/ iv[j][2] < iv[i][1])
    /\ RlNum(iv) = SLOT_NUM

-----------------------------------------------------------------------------
(* C01 on a cluster view *)

\* <<node index, slot index>> pairs
SlotIdx(V) == UNION {{<<n, k>> : k \in DOMAIN V.nodes[n].slots} : n \in DOMAIN V.nodes}
SR(V, p) == V.nodes[p[1]].slots[p[2]]

OwnedIntervals(V) ==
    FlattenSeq([n \in DOMAIN V.nodes |->
        IF V.nodes[n].role = "master"
        THEN FlattenSeq([k \in DOMAIN V.nodes[n].slots |->
                 IF V.nodes[n].slots[k].tag \in {"none", "migrating"}
                 THEN V.nodes[n].slots[k].rl ELSE <<>>])
        ELSE <<>>])

CV_Partition(V) == IntervalsPartition(OwnedIntervals(V))

CV_ReplicaOwnsNothing(V) ==
    \A n \in DOMAIN V.nodes : V.nodes[n].role = "replica" => V.nodes[n].slots = <<>>

CV_Compact(V) ==
    \A p \in SlotIdx(V) : RlCompact(SR(V, p).rl) /\ SR(V, p).rl # <<>>

CV_Twins(V) ==
    LET idx == SlotIdx(V)
        mig == {p \in idx : SR(V, p).tag = "migrating"}
        imp == {p \in idx : SR(V, p).tag = "importing"}
        Twin(p, q) == SR(V, p).rl = SR(V, q).rl /\ SR(V, p).meta = SR(V, q).meta
    IN /\ \A p \in mig :
            /\ Cardinality({q \in imp : Twin(p, q)}) = 1
            /\ V.nodes[p[1]].role = "master"
            /\ V.nodes[p[1]].addr = SR(V, p).meta.sn
            /\ V.nodes[p[1]].proxy = SR(V, p).meta.sp
       /\ \A q \in imp :
            /\ Cardinality({p \in mig : Twin(p, q)}) = 1
            /\ V.nodes[q[1]].role = "master"
            /\ V.nodes[q[1]].addr = SR(V, q).meta.dn
            /\ V.nodes[q[1]].proxy = SR(V, q).meta.dp
       \* no two migrations of overlapping ranges (implied by the partition, kept explicit)
       /\ \A p \in mig : SR(V, p).meta.epoch > 0

C01_ClusterView(V) ==
    (IF CV_Partition(V) THEN {} ELSE {"C01.partition"}) \cup
    (IF CV_ReplicaOwnsNothing(V) THEN {} ELSE {"C01.replica_owns"}) \cup
    (IF CV_Twins(V) THEN {} ELSE {"C01.twins"}) \cup
    (IF CV_Compact(V) THEN {} ELSE {"C01.compact"})

(* C01 on a per-proxy view: local nodes + peers *)
PV_AllSR(P) ==
    FlattenSeq([n \in DOMAIN P.nodes |->
        [k \in DOMAIN P.nodes[n].slots |->
            [sr |-> P.nodes[n].slots[k], proxy |-> P.nodes[n].proxy, node |-> P.nodes[n].addr,
             role |-> P.nodes[n].role, local |-> TRUE]]])
    \o
    FlattenSeq([n \in DOMAIN P.peers |->
        [k \in DOMAIN P.peers[n].slots |->
            [sr |-> P.peers[n].slots[k], proxy |-> P.peers[n].proxy, node |-> "",
             role |-> "master", local |-> FALSE]]])

PV_Partition(P) ==
    LET all == PV_AllSR(P)
        own == FlattenSeq([i \in DOMAIN all |->
                  IF all[i].role = "master" /\ all[i].sr.tag \in {"none", "migrating"}
                  THEN all[i].sr.rl ELSE <<>>])
    IN IntervalsPartition(own)

PV_Twins(P) ==
    LET all == PV_AllSR(P)
        mig == {i \in DOMAIN all : all[i].sr.tag = "migrating"}
        imp == {i \in DOMAIN all : all[i].sr.tag = "importing"}
        Twin(i, j) == all[i].sr.rl = all[j].sr.rl /\ all[i].sr.meta = all[j].sr.meta
    IN /\ \A i \in mig :
            /\ Cardinality({j \in imp : Twin(i, j)}) = 1
            /\ all[i].role = "master"
            /\ all[i].proxy = all[i].sr.meta.sp
            /\ all[i].local => all[i].node = all[i].sr.meta.sn
       /\ \A j \in imp :
            /\ Cardinality({i \in mig : Twin(i, j)}) = 1
            /\ all[j].role = "master"
            /\ all[j].proxy = all[j].sr.meta.dp
            /\ all[j].local => all[j].node = all[j].sr.meta.dn

PV_ReplicaOwnsNothing(P) ==
    \A n \in DOMAIN P.nodes : P.nodes[n].role = "replica" => P.nodes[n].slots = <<>>

PV_Compact(P) ==
    LET all == PV_AllSR(P) IN \A i \in DOMAIN all : RlCompact(all[i].sr.rl) /\ all[i].sr.rl # <<>>

PV_LocalOnly(P) == \A n \in DOMAIN P.nodes : P.nodes[n].proxy = P.addr
PV_PeersRemote(P) == \A n \in DOMAIN P.peers : P.peers[n].proxy # P.addr

C01_ProxyView(P) ==
    IF P.cluster = ""
    THEN (IF \A n \in DOMAIN P.nodes : P.nodes[n].slots = <<>> THEN {} ELSE {"C01.free_proxy_owns"})
    ELSE (IF PV_Partition(P) THEN {} ELSE {"C01.pv_partition"}) \cup
         (IF PV_ReplicaOwnsNothing(P) THEN {} ELSE {"C01.pv_replica_owns"}) \cup
         (IF PV_Twins(P) THEN {} ELSE {"C01.pv_twins"}) \cup
         (IF PV_Compact(P) THEN {} ELSE {"C01.pv_compact"}) \cup
         (IF PV_LocalOnly(P) /\ PV_PeersRemote(P) THEN {} ELSE {"C01.pv_foreign_node"})

\* all views of one observation
C01_Obs(obs) ==
    UNION {UNION {C01_ClusterView(obs.views[v].clusters[c]) : c \in DOMAIN obs.views[v].clusters}
             : v \in DOMAIN obs.views}
    \cup
    UNION {UNION {C01_ProxyView(obs.views[v].proxies[p]) : p \in DOMAIN obs.views[v].proxies}
             : v \in DOMAIN obs.views}
    \cup UNION {C01_ClusterView(obs.svc.clusters[c]) : c \in DOMAIN obs.svc.clusters}
    \cup UNION {C01_ProxyView(obs.svc.proxies[p]) : p \in DOMAIN obs.svc.proxies}

-----------------------------------------------------------------------------
(* helpers over the store projection S *)

ClusterIdx(S, name) == {i \in DOMAIN S.clusters : S.clusters[i].name = name}
HasCluster(S, name) == ClusterIdx(S, name) # {}
\* total on purpose: a store left half-updated by a panic may tag proxies with a cluster that does not exist; the monitors
\* must then still be evaluable (an evaluation error would turn a verdict into a tool error)
NoSuchCluster(name) == [name |-> name, epoch |-> 0, chunks |-> <<>>]
ClusterOf(S, name) == IF ClusterIdx(S, name) = {} THEN NoSuchCluster(name) ELSE S.clusters[CHOOSE i \in ClusterIdx(S, name) : TRUE]
ProxyIdx(S, a) == {i \in DOMAIN S.proxies : S.proxies[i].addr = a}
Registered(S) == {S.proxies[i].addr : i \in DOMAIN S.proxies}
NoSuchProxy(a) == [addr |-> a, host |-> "", cluster |-> ""]
ProxyRec(S, a) == IF ProxyIdx(S, a) = {} THEN NoSuchProxy(a) ELSE S.proxies[CHOOSE i \in ProxyIdx(S, a) : TRUE]
ProxyCluster(S, a) == IF ProxyIdx(S, a) = {} THEN "" ELSE ProxyRec(S, a).cluster
FailedSet(S) == Range(S.failed)
ReportedSet(S) == {S.failures[i].addr : i \in DOMAIN S.failures}
Unhealthy(S) == FailedSet(S) \cup ReportedSet(S)
ChunkMigrating(ch) == ch.mig[1] # <<>> \/ ch.mig[2] # <<>>
ClusterMigrating(c) == \E i \in DOMAIN c.chunks : ChunkMigrating(c.chunks[i])
MigEntryCount(c) == SumSeq([i \in DOMAIN c.chunks |-> Len(c.chunks[i].mig[1]) + Len(c.chunks[i].mig[2])])
InClusterProxies(c) == UNION {{c.chunks[i].px[1], c.chunks[i].px[2]} : i \in DOMAIN c.chunks}

ViewAt(obs, limit) == obs.views[CHOOSE v \in DOMAIN obs.views : obs.views[v].limit = limit]
CVOf(obs, limit, name) ==
    LET vs == ViewAt(obs, limit).clusters
    IN vs[CHOOSE i \in DOMAIN vs : vs[i].name = name]
HasCV(obs, limit, name) == \E i \in DOMAIN ViewAt(obs, limit).clusters : ViewAt(obs, limit).clusters[i].name = name

-----------------------------------------------------------------------------
(* C04: epochs.  hist : [limit -> [addr -> [epoch, content]]] is threaded by the trace spec *)

StripEpoch(P) == [P EXCEPT !.epoch = 0]

C04_Proxy(hl, P) ==
    IF P.addr \in DOMAIN hl
    THEN LET old == hl[P.addr] IN
         (IF P.epoch >= old.epoch THEN {} ELSE {"C04.epoch_regressed"}) \cup
         (IF StripEpoch(P) # old.content /\ ~(P.epoch > old.epoch) THEN {"C04.change_without_bump"} ELSE {})
    ELSE {}

HistUpdate(hl, ps) ==
    LET new == {ps[i].addr : i \in DOMAIN ps}
        pick(a) == ps[CHOOSE i \in DOMAIN ps : ps[i].addr = a]
    IN [a \in (DOMAIN hl) \cup new |->
          IF a \in new THEN [epoch |-> pick(a).epoch, content |-> StripEpoch(pick(a))] ELSE hl[a]]

C04_Obs(hist, gprev, S, obs) ==
    (IF S.gepoch >= gprev THEN {} ELSE {"C04.global_regressed"}) \cup
    (IF obs.svc.gepoch = S.gepoch THEN {} ELSE {"C04.api_epoch_mismatch"}) \cup
    UNION {UNION {C04_Proxy(hist[obs.views[v].limit], obs.views[v].proxies[p])
                    : p \in DOMAIN obs.views[v].proxies} : v \in DOMAIN obs.views}

-----------------------------------------------------------------------------
(* C06: failover *)

NodeByAddr(V, a) == V.nodes[CHOOSE n \in DOMAIN V.nodes : V.nodes[n].addr = a]
HasNode(V, a) == \E n \in DOMAIN V.nodes : V.nodes[n].addr = a

\* every master has exactly one replica on the other proxy of its chunk, mutually consistent
CV_ReplPairs(V) ==
    \A n \in DOMAIN V.nodes :
        LET m == V.nodes[n] IN
        /\ Len(m.peers) = 1
        /\ HasNode(V, m.peers[1].node)
        /\ LET p == NodeByAddr(V, m.peers[1].node) IN
             /\ p.proxy = m.peers[1].proxy
             /\ p.proxy # m.proxy
             /\ Len(p.peers) = 1
             /\ p.peers[1].node = m.addr /\ p.peers[1].proxy = m.proxy
             /\ p.role # m.role

\* {<<owner node, rl, tag>>}
Ownership(V) == {<<V.nodes[p[1]].addr, SR(V, p).rl, SR(V, p).tag>> : p \in SlotIdx(V)}

\* expected ownership after failing proxy a, computed from the pre view
ExpectedOwnership(V, a) ==
    {<<IF V.nodes[p[1]].proxy = a /\ Len(V.nodes[p[1]].peers) >= 1
       THEN V.nodes[p[1]].peers[1].node ELSE V.nodes[p[1]].addr,
       SR(V, p).rl, SR(V, p).tag>> : p \in SlotIdx(V)}

\* migrations (by rl, tag) with their epochs
MigEpochs(V) == {<<SR(V, p).rl, SR(V, p).tag, SR(V, p).meta.epoch>> :
                   p \in {q \in SlotIdx(V) : SR(V, q).tag # "none"}}
Touching(V, a) == {<<SR(V, p).rl, SR(V, p).tag, SR(V, p).meta.epoch>> :
                   p \in {q \in SlotIdx(V) : SR(V, q).tag # "none"
                                              /\ (SR(V, q).meta.sp = a \/ SR(V, q).meta.dp = a)}}

PartnerOf(c, a) ==
    LET is == {i \in DOMAIN c.chunks : a \in {c.chunks[i].px[1], c.chunks[i].px[2]}} IN
    IF is = {} THEN ""
    ELSE LET i == CHOOSE i \in is : TRUE
         IN IF c.chunks[i].px[1] = a THEN c.chunks[i].px[2] ELSE c.chunks[i].px[1]

\* Spre/Vpre: state and unlimited cluster view before; Spost/Vpost after failing `a`
C06_Failover(Spre, Vpre, Spost, Vpost, a) ==
    LET cname == ProxyCluster(Spre, a)
        c == ClusterOf(Spre, cname)
        partner == PartnerOf(c, a)
    IN IF partner \in Unhealthy(Spre) THEN {}
       ELSE
        (IF Ownership(Vpost) = ExpectedOwnership(Vpre, a) THEN {} ELSE {"C06.ownership_transfer"}) \cup
        (IF ProxyCluster(Spost, a) = cname
            /\ \E n \in DOMAIN Vpost.nodes : Vpost.nodes[n].proxy = a /\ Vpost.nodes[n].role = "master"
         THEN {"C06.failed_still_master"} ELSE {}) \cup
        (IF CV_Twins(Vpost) THEN {} ELSE {"C06.migration_addresses"}) \cup
        (IF \A t \in Touching(Vpre, a) :
               \A u \in MigEpochs(Vpost) : (u[1] = t[1] /\ u[2] = t[2]) => u[3] > t[3]
         THEN {} ELSE {"C06.migration_not_reissued"})

\* newly allocated proxies must have been healthy in the pre-state
C06_Allocation(Spre, Spost) ==
    LET newly == {a \in Registered(Spost) : ProxyCluster(Spost, a) # "" /\ ProxyCluster(Spre, a) = ""}
    IN IF newly \cap Unhealthy(Spre) = {} THEN {} ELSE {"C06.unhealthy_allocated"}

C06_State(obs) ==
    LET cs == ViewAt(obs, 0).clusters IN
    IF \A i \in DOMAIN cs : CV_ReplPairs(cs[i]) THEN {} ELSE {"C06.repl_pairs"}

-----------------------------------------------------------------------------
(* C10: scaling *)

StableCounts(c) ==
    FlattenSeq([i \in DOMAIN c.chunks |->
        <<IF c.chunks[i].stable[1].some THEN RlNum(c.chunks[i].stable[1].rl) ELSE 0,
          IF c.chunks[i].stable[2].some THEN RlNum(c.chunks[i].stable[2].rl) ELSE 0>>])

C10_Quiescent(c) ==
    LET cnt == StableCounts(c)
        nz == {i \in DOMAIN cnt : cnt[i] > 0}
        ChunkEmpty(i) == ~c.chunks[i].stable[1].some /\ ~c.chunks[i].stable[2].some
    IN IF ClusterMigrating(c) THEN {}
       ELSE
        (IF SumSeq(cnt) = SLOT_NUM THEN {} ELSE {"C10.not_all_stable"}) \cup
        (IF \A i, j \in nz : cnt[i] - cnt[j] <= 1 THEN {} ELSE {"C10.unbalanced"}) \cup
        (IF \A i, j \in DOMAIN c.chunks : (i < j /\ ChunkEmpty(i)) => ChunkEmpty(j)
         THEN {} ELSE {"C10.empty_not_trailing"}) \cup
        (IF \A i \in DOMAIN c.chunks : c.chunks[i].stable[1].some = c.chunks[i].stable[2].some
         THEN {} ELSE {"C10.scattered"}) \cup
        (IF \A i \in DOMAIN c.chunks : \A h \in 1..2 :
               c.chunks[i].stable[h].some => c.chunks[i].stable[h].rl # <<>>
         THEN {} ELSE {"C10.some_but_empty"})

C10_State(S) == UNION {C10_Quiescent(S.clusters[i]) : i \in DOMAIN S.clusters}

ScalingOps == {"AddNodes", "ScaleUpTo", "MigrateSlots", "ScaleDown", "AutoScale", "DeleteFree", "ChangeConfig"}

\* report ages are wall-clock derived: drop them before comparing stores
StripAges(S) == [S EXCEPT !.failures = [i \in DOMAIN S.failures |->
                     [addr |-> S.failures[i].addr,
                      reps |-> [j \in DOMAIN S.failures[i].reports |-> S.failures[i].reports[j].rep]]]]
SameStore(S, T) == StripAges(S) = StripAges(T)
SameExceptGepoch(S, T) == [StripAges(S) EXCEPT !.gepoch = 0] = [StripAges(T) EXCEPT !.gepoch = 0]

C10_Event(op, args, res, Spre, Spost, obsPre) ==
    (IF op = "Commit" /\ res = "OK" /\ HasCluster(Spre, args.name) /\ HasCluster(Spost, args.name)
        /\ ~(MigEntryCount(ClusterOf(Spost, args.name)) < MigEntryCount(ClusterOf(Spre, args.name)))
     THEN {"C10.commit_no_progress"} ELSE {}) \cup
    (IF op = "Failover" /\ ProxyCluster(Spre, args.addr) # ""
        /\ HasCluster(Spost, ProxyCluster(Spre, args.addr))
        /\ MigEntryCount(ClusterOf(Spost, ProxyCluster(Spre, args.addr)))
             > MigEntryCount(ClusterOf(Spre, ProxyCluster(Spre, args.addr)))
     THEN {"C10.failover_adds_migration"} ELSE {}) \cup
    (IF op \in ScalingOps /\ HasCluster(Spre, args.name) /\ ClusterMigrating(ClusterOf(Spre, args.name))
        /\ ~(res # "OK" /\ res # "panic" /\ SameExceptGepoch(Spre, Spost))
     THEN {"C10.not_refused_while_migrating"} ELSE {}) \cup
    \* proxies released from a cluster (other than by removing the cluster or replacing a failed
    \* proxy) owned nothing before
    (IF op \notin {"RemoveCluster", "Failover", "RestartFrom", "Init", "AgeFailures"}
     THEN LET rel == {a \in Registered(Spre) : ProxyCluster(Spre, a) # ""
                        /\ ProxyCluster(Spost, a) = "" /\ HasCV(obsPre, 0, ProxyCluster(Spre, a))}
          IN IF \A a \in rel :
                   LET V == CVOf(obsPre, 0, ProxyCluster(Spre, a)) IN
                   \A n \in DOMAIN V.nodes : V.nodes[n].proxy = a => V.nodes[n].slots = <<>>
             THEN {} ELSE {"C10.released_with_slots"}
     ELSE {})

-----------------------------------------------------------------------------
(* C12: accounting and host spreading *)

AllChunkProxies(S) ==
    FlattenSeq([i \in DOMAIN S.clusters |->
        FlattenSeq([j \in DOMAIN S.clusters[i].chunks |-> S.clusters[i].chunks[j].px])])

C12_State(S, check, res) ==
    LET px == AllChunkProxies(S) IN
    (IF \A i, j \in DOMAIN px : i # j => px[i] # px[j] THEN {} ELSE {"C12.proxy_in_two_positions"}) \cup
    (IF \A i \in DOMAIN S.clusters :
           InClusterProxies(S.clusters[i]) = {a \in Registered(S) : ProxyCluster(S, a) = S.clusters[i].name}
     THEN {} ELSE {"C12.membership_mismatch"}) \cup
    (IF \A a \in Registered(S) : ProxyCluster(S, a) # "" => HasCluster(S, ProxyCluster(S, a))
     THEN {} ELSE {"C12.dangling_cluster_tag"}) \cup
    (IF Range(px) \subseteq Registered(S) THEN {} ELSE {"C12.unregistered_in_cluster"}) \cup
    (IF \A i \in DOMAIN S.clusters : \A j \in DOMAIN S.clusters[i].chunks :
           LET ch == S.clusters[i].chunks[j] IN
           /\ ch.px[1] \in Registered(S) => (ProxyRec(S, ch.px[1]).host = ch.hosts[1]
                                             /\ ProxyRec(S, ch.px[1]).nodes = <<ch.nodes[1], ch.nodes[2]>>)
           /\ ch.px[2] \in Registered(S) => (ProxyRec(S, ch.px[2]).host = ch.hosts[2]
                                             /\ ProxyRec(S, ch.px[2]).nodes = <<ch.nodes[3], ch.nodes[4]>>)
     THEN {} ELSE {"C12.chunk_resource_mismatch"}) \cup
    (IF check THEN {} ELSE {"C12.self_check_failed"}) \cup
    (IF res = "panic" THEN {"C12.panic"} ELSE {})

AllocOps == {"AddCluster", "AddNodes", "ScaleUpTo"}

\* chunks (as <<px1, px2, host1, host2>>) of all clusters
ChunkSet(S) ==
    UNION {{<<S.clusters[i].chunks[j].px[1], S.clusters[i].chunks[j].px[2],
              S.clusters[i].chunks[j].hosts[1], S.clusters[i].chunks[j].hosts[2]>>
             : j \in DOMAIN S.clusters[i].chunks} : i \in DOMAIN S.clusters}

FreeHealthy(S) == {a \in Registered(S) : ProxyCluster(S, a) = "" /\ a \notin Unhealthy(S)}

C12_Event(op, args, res, out, Spre, Spost) ==
    (IF op \in AllocOps /\ res # "OK" /\ res # "panic" /\ ~SameStore(Spre, Spost)
     THEN {"C12.refused_alloc_changed_state"} ELSE {}) \cup
    (IF op \in (AllocOps \cup {"AutoScale"}) /\ ~Spost.ordered
        /\ \E ch \in ChunkSet(Spost) \ ChunkSet(Spre) : ch[3] = ch[4]
     THEN {"C12.chunk_on_one_host"} ELSE {}) \cup
    (IF op = "Failover" /\ ~Spost.ordered /\ ProxyCluster(Spre, args.addr) # "" /\ out.replaced
     THEN LET c == ClusterOf(Spre, ProxyCluster(Spre, args.addr))
              partner == PartnerOf(c, args.addr)
              phost == ProxyRec(Spre, partner).host
              newp == out.new.addr
              better == {a \in FreeHealthy(Spre) : ProxyRec(Spre, a).host # phost}
          IN IF ProxyRec(Spost, newp).host = phost /\ better # {}
             THEN {"C12.replacement_on_partner_host"} ELSE {}
     ELSE {})

-----------------------------------------------------------------------------
(* C18: failure quorum *)

ReportsOf(S, a) ==
    IF a \in ReportedSet(S)
    THEN S.failures[CHOOSE i \in DOMAIN S.failures : S.failures[i].addr = a].reports
    ELSE <<>>
Reporters(S, a) == {ReportsOf(S, a)[i].rep : i \in DOMAIN ReportsOf(S, a)}

\* ages are whole seconds measured just before the call; up to ~2 s may pass until the code looks
DefFresh(r, ttl) == r.age + 2 < ttl
DefExpired(r, ttl) == r.age >= ttl

C18_Event(op, args, res, out, Spre, Spost) ==
    (IF op = "GetFailures" /\ res = "OK"
     THEN LET got == Range(out.failures)
              must == {a \in Registered(Spre) :
                         Cardinality({i \in DOMAIN ReportsOf(Spre, a) : DefFresh(ReportsOf(Spre, a)[i], args.ttl)}) >= args.quorum}
              may == {a \in Registered(Spre) :
                         Cardinality({i \in DOMAIN ReportsOf(Spre, a) : ~DefExpired(ReportsOf(Spre, a)[i], args.ttl)}) >= args.quorum}
          IN (IF must \subseteq got THEN {} ELSE {"C18.quorum_reached_not_listed"}) \cup
             (IF got \subseteq may THEN {} ELSE {"C18.listed_without_quorum"}) \cup
             (IF got \subseteq Registered(Spre) THEN {} ELSE {"C18.unregistered_listed"}) \cup
             (IF \A a \in ReportedSet(Spost) : \A i \in DOMAIN ReportsOf(Spost, a) :
                    ~(ReportsOf(Spost, a)[i].age >= args.ttl + 2)
              THEN {} ELSE {"C18.expired_report_kept"}) \cup
             (IF \A a \in ReportedSet(Spre) : \A i \in DOMAIN ReportsOf(Spre, a) :
                    DefFresh(ReportsOf(Spre, a)[i], args.ttl) => ReportsOf(Spre, a)[i].rep \in Reporters(Spost, a)
              THEN {} ELSE {"C18.fresh_report_dropped"})
     ELSE {}) \cup
    (IF op = "AddFailure" /\ res = "OK"
     THEN (IF args.reporter \in Reporters(Spost, args.addr) THEN {} ELSE {"C18.report_not_recorded"}) \cup
          (IF args.reporter \in Reporters(Spre, args.addr)
              /\ ~(\A i \in DOMAIN ReportsOf(Spre, args.addr) :
                     \E j \in DOMAIN ReportsOf(Spost, args.addr) :
                        /\ ReportsOf(Spost, args.addr)[j].rep = ReportsOf(Spre, args.addr)[i].rep
                        /\ ReportsOf(Spost, args.addr)[j].age >= ReportsOf(Spre, args.addr)[i].age
                        /\ ReportsOf(Spost, args.addr)[j].age <= ReportsOf(Spre, args.addr)[i].age + 2)
           THEN {"C18.repeat_report_refreshed"} ELSE {}) \cup
          (IF Cardinality(Reporters(Spost, args.addr)) = Len(ReportsOf(Spost, args.addr))
              /\ Reporters(Spost, args.addr) = Reporters(Spre, args.addr) \cup {args.reporter}
           THEN {} ELSE {"C18.report_counted_twice"})
     ELSE {}) \cup
    (IF op = "AddProxy" /\ res \in {"OK", "ALREADY_EXISTED"}
        /\ (args.addr \in FailedSet(Spost) \/ args.addr \in ReportedSet(Spost))
     THEN {"C18.register_did_not_clear"} ELSE {}) \cup
    (IF op = "RemoveProxy" /\ res = "OK"
        /\ (args.addr \in FailedSet(Spost) \/ args.addr \in ReportedSet(Spost))
     THEN {"C18.remove_did_not_clear"} ELSE {})

-----------------------------------------------------------------------------
(* All monitors of one observed event `e` (record: op, args, res, out, S, obs) *)

Limits == {0, 1, 2}
EmptyHist == [lim \in Limits |-> <<>>]
ResetOps == {"Init", "RestartFrom"}

StateMon(e) ==
    C01_Obs(e.obs) \cup C06_State(e.obs) \cup C10_State(e.S) \cup C12_State(e.S, e.obs.check, e.res)

EventMon(pre, e) ==
    LET op == e.op IN
    C10_Event(op, e.args, e.res, pre.S, e.S, pre.obs) \cup
    C12_Event(op, e.args, e.res, e.out, pre.S, e.S) \cup
    C18_Event(op, e.args, e.res, e.out, pre.S, e.S) \cup
    (IF op \notin ResetOps /\ op # "AgeFailures" THEN C06_Allocation(pre.S, e.S) ELSE {}) \cup
    (IF op = "Failover" /\ e.res \in {"OK", "NO_AVAILABLE_RESOURCE"}
        /\ ProxyCluster(pre.S, e.args.addr) # ""
        /\ HasCV(pre.obs, 0, ProxyCluster(pre.S, e.args.addr))
        /\ HasCV(e.obs, 0, ProxyCluster(pre.S, e.args.addr))
     THEN C06_Failover(pre.S, CVOf(pre.obs, 0, ProxyCluster(pre.S, e.args.addr)),
                       e.S, CVOf(e.obs, 0, ProxyCluster(pre.S, e.args.addr)), e.args.addr)
     ELSE {})


NewHist(h, obs) ==
    [lim \in Limits |-> HistUpdate(h[lim], ViewAt(obs, lim).proxies)]

=============================================================================
