------------------------------ MODULE Broker_SIM ------------------------------
(* Behaviour generation for the broker rig (spec -> implementation direction):
   `tlc -simulate` walks random behaviours of the Broker design spec (same initial scenarios and operation
   menu as Broker_MC) and prints, for every behaviour that reaches the depth bound, the list of operations
   it took in symbolic form (cluster, count, chunk/half of a proxy, rank of a migration task).  The harness
   replays the list on the REAL MemBrokerService; the recorded execution is then judged by BrokerTrace (L1
   monitors and L2 refinement) like every other broker trace. *)
EXTENDS Broker_MC, Json

VARIABLE hist
svars == <<st, last, steps, hist>>

NoArg == [op |-> "", name |-> "c1", n |-> 0, chunk |-> 0, half |-> 0, k |-> 0, form |-> ""]

\* where a proxy sits in the cluster: <<chunk (0-based), half (0-based)>>
PosOf(S, a) ==
    LET ch == S.clusters["c1"].chunks
        i == CHOOSE j \in DOMAIN ch : a \in {ch[j].px[1], ch[j].px[2]}
    IN <<i - 1, IF ch[i].px[1] = a THEN 0 ELSE 1>>

\* rank of a task among the pending ones, by first slot
RankOf(S, t) == Cardinality({u \in PendingTasks(S, "c1") : u.rl[1][1] < t.rl[1][1]})

ScenarioOps(k) ==
    CASE k = 1 -> <<>>
      [] k = 2 -> <<[NoArg EXCEPT !.op = "AddCluster", !.n = 4]>>
      [] k = 3 -> <<[NoArg EXCEPT !.op = "AddCluster", !.n = 4], [NoArg EXCEPT !.op = "AddNodes", !.n = 4]>>
      [] k = 4 -> <<[NoArg EXCEPT !.op = "AddCluster", !.n = 4], [NoArg EXCEPT !.op = "AddNodes", !.n = 4], [NoArg EXCEPT !.op = "MigrateSlots"]>>
      [] k = 5 -> <<[NoArg EXCEPT !.op = "AddCluster", !.n = 8]>>
      [] k = 6 -> <<[NoArg EXCEPT !.op = "AddCluster", !.n = 8], [NoArg EXCEPT !.op = "ScaleDown", !.n = 4]>>
      [] k = 7 -> <<[NoArg EXCEPT !.op = "AddCluster", !.n = 12]>>
      [] k = 8 -> <<[NoArg EXCEPT !.op = "AddCluster", !.n = 12], [NoArg EXCEPT !.op = "ScaleDown", !.n = 4]>>

SInit == /\ \E k \in Scenarios : st = Scenario(k) /\ hist = ScenarioOps(k)
         /\ last = NoEvent
         /\ steps = 0

Step(sym, op, args, outs) == Do(op, args, outs) /\ hist' = Append(hist, sym)

SNext ==
    /\ \/ \E n \in {4, 8} : Step([NoArg EXCEPT !.op = "AddCluster", !.n = n], "AddCluster", [name |-> "c1", n |-> n], AddCluster(st, "c1", n))
       \/ Step([NoArg EXCEPT !.op = "AddNodes", !.n = 4], "AddNodes", [name |-> "c1", n |-> 4], AddNodes(st, "c1", 4))
       \/ Step([NoArg EXCEPT !.op = "MigrateSlots"], "MigrateSlots", [name |-> "c1"], MigrateSlots(st, "c1"))
       \/ \E n \in {4, 8} : Step([NoArg EXCEPT !.op = "ScaleDown", !.n = n], "ScaleDown", [name |-> "c1", n |-> n], ScaleDown(st, "c1", n))
       \/ Step([NoArg EXCEPT !.op = "DeleteFree"], "DeleteFree", [name |-> "c1"], DeleteFree(st, "c1"))
       \/ \E t \in PendingTasks(st, "c1") :
              Step([NoArg EXCEPT !.op = "Commit", !.k = RankOf(st, t), !.form = "mig"], "Commit", [name |-> "c1"], Commit(st, "c1", t))
       \/ \E t \in PendingTasks(st, "c1") :
              Step([NoArg EXCEPT !.op = "Commit", !.k = RankOf(st, t), !.form = "stale"], "Commit", [name |-> "c1"],
                   Commit(st, "c1", [t EXCEPT !.epoch = t.epoch - 1]))
       \/ \E a \in Addrs(st) :
              /\ st.proxies[a].cluster # ""
              /\ LET pos == PosOf(st, a) IN
                 Step([NoArg EXCEPT !.op = "FailoverAt", !.chunk = pos[1], !.half = pos[2]], "Failover", [addr |-> a], Failover(st, a, TRUE))
       \/ Step([NoArg EXCEPT !.op = "Balance"], "Balance", [name |-> "c1"], Balance(st, "c1"))
       \/ \E a \in st.failed :
              Step([NoArg EXCEPT !.op = "ReAddFailed", !.k = Cardinality({b \in st.failed : IndexOf(b) < IndexOf(a)})], "AddProxy", [addr |-> a],
                   AddProxy(st, a, HostsOf[a], IndexOf(a), NodesOf(a)))
       \/ Step([NoArg EXCEPT !.op = "ChangeConfig"], "ChangeConfig", [name |-> "c1"],
               ChangeConfig(st, "c1", TRUE, [DefaultConfigVal EXCEPT !.compression = "allow_all"]))
       \/ Step([NoArg EXCEPT !.op = "RemoveCluster"], "RemoveCluster", [name |-> "c1"], RemoveCluster(st, "c1"))
    /\ steps' = steps + 1

SSpec == SInit /\ [][SNext]_svars
SimConstraint == (steps = MaxSteps) => (PrintT(<<"OPS", ToJson(hist)>>) /\ FALSE)
=============================================================================
