------------------------------- MODULE Slot_MC -------------------------------
(* Spec-level sanity of the slot function: published CRC16 check values and hash-tag rules. *)
EXTENDS Slot
VARIABLE key
Alphabet == {97, 98, 123, 125}
Keys == UNION {[1..n -> Alphabet] : n \in 1..4}
Init == key \in Keys
Next == UNCHANGED key
Spec == Init /\ [][Next]_key
\* published values: "123456789" -> 0x31C3 (XMODEM check value); CLUSTER KEYSLOT foo = 12182;
\* {user1000}.following / {user1000}.followers share a slot; foo{}{bar} hashes the whole key;
\* foo{{bar}}zap hashes "{bar"; f{b}{z} hashes "b"   (kept inside an operator: evaluated by workers)
Known ==
    LET u == <<123,117,115,101,114,49,48,48,48,125>> IN
    /\ Crc16(<<49,50,51,52,53,54,55,56,57>>) = 12739
    /\ SlotOf(<<102,111,111>>) = 12182
    /\ SlotOf(u \o <<46,102>>) = SlotOf(u \o <<46,103>>)
    /\ HashTag(<<102,111,111,123,125,123,98,97,114,125>>) = <<102,111,111,123,125,123,98,97,114,125>>
    /\ HashTag(<<102,111,111,123,123,98,97,114,125,125,122>>) = <<123,98,97,114>>
    /\ HashTag(<<102,123,98,125,123,122,125>>) = <<98>>
    /\ key = key
InRange == SlotOf(key) \in 0..(SLOTS - 1)
\* a key whose tag is the whole of another key hashes like it
TagRule == LET t == HashTag(key) IN t # key => SlotOf(key) = Crc16(t) % SLOTS /\ Len(t) >= 1 /\ LBrace \in {key[i] : i \in DOMAIN key}
=============================================================================
