SPECIFICATION Spec
CONSTANTS
  DefaultConfig <- DefaultConfigVal
  HostsOf <- HostsQuick
  MaxSteps = 3
  Scenarios <- ScenScaleIn
  Ordered = FALSE
CONSTRAINT Bound
INVARIANTS StateOK CheckOK
PROPERTY StepProp
CHECK_DEADLOCK FALSE
