SPECIFICATION Spec
CONSTANTS
  Proxies = {p1}
  MaxEpoch = 3
  MaxFaults = 1
INVARIANT NotAhead
CHECK_DEADLOCK FALSE
