SPECIFICATION HSpec
CONSTANTS
  Senders <- S2
  Blockers <- B2
  Target <- T2
  MaxTries = 3
  defaultInitValue = "dflt"
CONSTRAINT SimConstraint
CHECK_DEADLOCK FALSE
