SPECIFICATION Spec
CONSTANTS
  Msgs <- M_force
  Variant = "resync"
INVARIANTS CInstallsNewer RInstallsNewer ReaderConsistent ReplReaderConsistent RepliesTruthful FinalC FinalR RefusalsJustified FastPathHonest
CHECK_DEADLOCK FALSE
