SPECIFICATION Spec
CONSTANTS
  Msgs <- M_nf
  Variant = "no_lock"
INVARIANTS CInstallsNewer RInstallsNewer ReaderConsistent ReplReaderConsistent RepliesTruthful FinalC FinalR RefusalsJustified 
CHECK_DEADLOCK FALSE
