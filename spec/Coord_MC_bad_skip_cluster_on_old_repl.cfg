SPECIFICATION Spec
CONSTANTS
  Coords = {c1}
  MaxEpoch = 2
  MaxFaults = 1
  Variant = "skip_cluster_on_old_repl"
  Features = {"crash"}

INVARIANTS TypeOK NeverAhead CommitOnce DstBeforeSrc Owned NoLoneFailover
PROPERTIES NoOlder Converges
CHECK_DEADLOCK FALSE
