----------------------------- MODULE BrokerTrace -----------------------------
(***************************************************************************)
(* Walks a recorded broker trace (possibly several traces concatenated,    *)
(* each starting with an "Init" line) and evaluates every L1 monitor of    *)
(* BrokerMon on every line.  One linear TLC pass; violations are           *)
(* accumulated in `viol` and printed at the end as <<"VERDICT", ...>>.     *)
(* The walk can never get stuck: a monitor failure is data, not deadlock.  *)
(***************************************************************************)
EXTENDS BrokerMon, Json, IOUtils, SequencesExt

Rec == ndJsonDeserialize(IOEnv.TRACE)
N == Len(Rec)

VARIABLES l,      \* next line to consume
          hist,   \* C04 history: [limit -> [addr -> [epoch, content]]]
          gprev,  \* last global epoch
          viol    \* set of <<line, monitor id>>

vars == <<l, hist, gprev, viol>>

Limits == {0, 1, 2}
EmptyHist == [lim \in Limits |-> <<>>]

ResetOps == {"Init", "RestartFrom"}

Init ==
    /\ l = 1
    /\ hist = EmptyHist
    /\ gprev = 0
    /\ viol = {}

NewHist(h, obs) ==
    [lim \in Limits |-> HistUpdate(h[lim], ViewAt(obs, lim).proxies)]

StateMon(e) ==
    C01_Obs(e.obs) \cup C06_State(e.obs) \cup C10_State(e.S) \cup C12_State(e.S, e.obs.check, e.res)

EventMon(pre, e) ==
    LET op == e.op IN
    C10_Event(op, e.args, e.res, pre.S, e.S, pre.obs) \cup
    C12_Event(op, e.args, e.res, e.out, pre.S, e.S) \cup
    C18_Event(op, e.args, e.res, e.out, pre.S, e.S) \cup
    (IF op \notin ResetOps /\ op # "AgeFailures" THEN C06_Allocation(pre.S, e.S) ELSE {}) \cup
    (IF op = "Failover" /\ e.res \in {"OK", "NO_AVAILABLE_RESOURCE"}
        /\ ProxyCluster(pre.S, e.args.addr) # ""
        /\ HasCV(pre.obs, 0, ProxyCluster(pre.S, e.args.addr))
        /\ HasCV(e.obs, 0, ProxyCluster(pre.S, e.args.addr))
     THEN C06_Failover(pre.S, CVOf(pre.obs, 0, ProxyCluster(pre.S, e.args.addr)),
                       e.S, CVOf(e.obs, 0, ProxyCluster(pre.S, e.args.addr)), e.args.addr)
     ELSE {})

Step ==
    /\ l <= N
    /\ LET e == Rec[l]
           reset == e.op \in ResetOps
           h0 == IF reset THEN EmptyHist ELSE hist
           g0 == IF reset THEN 0 ELSE gprev
           found == StateMon(e) \cup C04_Obs(h0, g0, e.S, e.obs)
                    \cup (IF reset \/ l = 1 THEN {} ELSE EventMon(Rec[l-1], e))
       IN /\ viol' = viol \cup {<<l, m>> : m \in found}
          /\ hist' = NewHist(h0, e.obs)
          /\ gprev' = e.S.gepoch
    /\ l' = l + 1
    /\ (l = N) => JsonSerialize(IOEnv.OUT,
                     [n |-> N, viol |-> SetToSeq({[line |-> v[1], mon |-> v[2]] : v \in viol'})])

Next == Step

Spec == Init /\ [][Next]_vars

\* acceptance: the whole trace was consumed
Consumed == TLCGet("stats").diameter - 1 = N
=============================================================================
