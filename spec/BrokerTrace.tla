----------------------------- MODULE BrokerTrace -----------------------------
(***************************************************************************)
(* Walks a recorded broker trace (possibly several traces concatenated,    *)
(* each starting with an "Init" line) and evaluates every L1 monitor of    *)
(* BrokerMon on every line.  One linear TLC pass; violations are           *)
(* accumulated in `viol` and printed at the end as <<"VERDICT", ...>>.     *)
(* The walk can never get stuck: a monitor failure is data, not deadlock.  *)
(***************************************************************************)
EXTENDS Broker, Json, IOUtils

Rec == ndJsonDeserialize(IOEnv.TRACE)
N == Len(Rec)

DefaultConfigVal == [compression |-> "disabled", mmt |-> 10800, mbt |-> 10000, si |-> 500, sc |-> 16]

-----------------------------------------------------------------------------
(* L2: refinement of the Broker design spec.  The recorded store is mapped  *)
(* into the spec's shape and every recorded transition must be one of the   *)
(* outcomes the spec allows; every recorded view must equal the spec's      *)
(* view function applied to the recorded store.                             *)

FromRec(R) ==
    [gepoch |-> R.gepoch, ordered |-> R.ordered,
     proxies |-> [a \in {R.proxies[i].addr : i \in DOMAIN R.proxies} |->
                    LET p == R.proxies[CHOOSE i \in DOMAIN R.proxies : R.proxies[i].addr = a] IN
                    [host |-> p.host, index |-> p.index, cluster |-> p.cluster, nodes |-> p.nodes]],
     failed |-> Range(R.failed),
     failures |-> [a \in {R.failures[i].addr : i \in DOMAIN R.failures} |->
                    LET f == R.failures[CHOOSE i \in DOMAIN R.failures : R.failures[i].addr = a] IN
                    {f.reports[j].rep : j \in DOMAIN f.reports}],
     clusters |-> [n \in {R.clusters[i].name : i \in DOMAIN R.clusters} |->
                    LET c == R.clusters[CHOOSE i \in DOMAIN R.clusters : R.clusters[i].name = n] IN
                    [epoch |-> c.epoch, config |-> c.config, chunks |-> c.chunks]]]

PairsOf(chunks) == [i \in DOMAIN chunks |-> <<chunks[i].px[1], chunks[i].px[2]>>]

\* accept an allocation op: `code` is the spec's refusal, Do the deterministic effect for given pairs
AcceptAlloc(S, T, res, code, newChunks, firstIndex, Do(_)) ==
    IF code # "" THEN res = code /\ T = S
    ELSE /\ res = "OK"
         /\ LET pairs == PairsOf(newChunks) IN AllocAccept(S, pairs, firstIndex) /\ T = Do(pairs)

NewChunksOf(S, T, name) ==
    IF name \in ClusterNames(T)
    THEN LET old == IF name \in ClusterNames(S) THEN Len(S.clusters[name].chunks) ELSE 0
             chs == T.clusters[name].chunks
         IN IF Len(chs) >= old THEN SubSeq(chs, old + 1, Len(chs)) ELSE <<>>
    ELSE <<>>

AcceptAddNodes(S, T, res, name, n) ==
    AcceptAlloc(S, T, res, AddNodesCode(S, name, n), NewChunksOf(S, T, name),
                IF name \in ClusterNames(S) THEN Len(S.clusters[name].chunks) * 2 ELSE 0,
                LAMBDA pairs : AddNodesDo(S, name, pairs))
AcceptScaleUpTo(S, T, res, name, n) ==
    LET code == ScaleUpToCode(S, name, n) IN
    IF code # "" THEN res = code /\ T = S
    ELSE AcceptAddNodes(S, T, res, name, n - Len(S.clusters[name].chunks) * 4)

NumericKeys == [migration_max_migration_time |-> "mmt", migration_max_blocking_time |-> "mbt",
                migration_scan_interval |-> "si", migration_scan_count |-> "sc"]
ConfigAccept(S, T, res, name, key, value) ==
    IF name \notin ClusterNames(S) THEN res = "CLUSTER_NOT_FOUND" /\ T = S
    ELSE IF IsMigrating(S.clusters[name]) THEN res = "MIGRATION_RUNNING" /\ T = S
    ELSE LET old == S.clusters[name].config
             new == IF name \in ClusterNames(T) THEN T.clusters[name].config ELSE old
             okCompression == key = "compression_strategy" /\ value \in {"disabled", "set_get_only", "allow_all"}
                              /\ new = [old EXCEPT !.compression = value]
             okNumeric == key \in DOMAIN NumericKeys
                          /\ new = [old EXCEPT ![NumericKeys[key]] = new[NumericKeys[key]]]
                          /\ ToString(new[NumericKeys[key]]) = value
                          /\ (key = "migration_scan_count" => new.sc # 0)
         IN IF res = "OK" THEN (okCompression \/ okNumeric) /\ <<"OK", T>> \in ChangeConfig(S, name, TRUE, new)
            ELSE res = "INVALID_CONFIG" /\ T = S /\ ~okCompression
                 /\ ~(key \in DOMAIN NumericKeys /\ value \in {"32", "5000"})

Allowed(e, pre, base) ==
    LET S == FromRec(pre.S)  T == FromRec(e.S)  a == e.args  res == e.res  op == e.op IN
    CASE op = "AddProxy" -> <<res, T>> \in AddProxy(S, a.addr, a.host, a.index, a.nodes)
      [] op = "RemoveProxy" -> <<res, T>> \in RemoveProxy(S, a.addr)
      [] op = "AddCluster" ->
            AcceptAlloc(S, T, res, AddClusterCode(S, a.name, a.n), NewChunksOf(S, T, a.name), 0,
                        LAMBDA pairs : AddClusterDo(S, a.name, pairs))
      [] op = "RemoveCluster" -> <<res, T>> \in RemoveCluster(S, a.name)
      [] op = "AddNodes" -> AcceptAddNodes(S, T, res, a.name, a.n)
      [] op = "ScaleUpTo" -> AcceptScaleUpTo(S, T, res, a.name, a.n)
      [] op = "MigrateSlots" -> <<res, T>> \in MigrateSlots(S, a.name)
      [] op = "ScaleDown" -> <<res, T>> \in ScaleDown(S, a.name, a.n)
      [] op = "DeleteFree" -> <<res, T>> \in DeleteFree(S, a.name)
      [] op = "Commit" -> <<res, T>> \in Commit(S, a.name, [rl |-> a.task.rl, tag |-> a.task.tag, epoch |-> a.task.meta.epoch])
      [] op = "Failover" -> \E o \in Failover(S, a.addr, FALSE) : o[1] = res /\ o[2] = T /\ o[3] = e.out.replaced
      [] op = "Balance" -> <<res, T>> \in Balance(S, a.name)
      [] op = "ChangeConfig" -> ConfigAccept(S, T, res, a.name, a.key, a.value)
      [] op = "AddFailure" -> <<res, T>> \in AddFailure(S, a.addr, a.reporter)
      [] op = "GetFailures" ->
            /\ DOMAIN T.failures \subseteq DOMAIN S.failures
            /\ \A x \in DOMAIN T.failures : T.failures[x] \subseteq S.failures[x]
            /\ LET expired == UNION {{<<x, r>> : r \in S.failures[x] \ (IF x \in DOMAIN T.failures THEN T.failures[x] ELSE {})}
                                       : x \in DOMAIN S.failures}
                   g == GetFailures(S, expired, a.quorum)
               IN g[1] = Range(e.out.failures) /\ g[2] = T
      [] op = "AgeFailures" -> T = S
      [] op = "CheckResource" -> T = S
      [] op = "ForceBump" -> <<res, T>> \in ForceBump(S, a.epoch)
      [] op = "RecoverEpoch" -> <<res, T>> \in RecoverEpoch(S, a.max_proxy_epoch)
      [] op = "AutoScale" ->
            IF a.name \notin ClusterNames(S) THEN res = "CLUSTER_NOT_FOUND" /\ T = S
            ELSE IF IsMigrating(S.clusters[a.name]) THEN res = "MIGRATION_RUNNING" /\ T = S
            ELSE LET S1 == IF DeleteFreeCode(S, a.name) = "" THEN DeleteFreeDo(S, a.name) ELSE S
                     existing == Len(S1.clusters[a.name].chunks) * 4
                 IN IF existing = a.n THEN res = "OK" /\ T = S1
                    ELSE IF existing < a.n
                    THEN \* scale-out: the service then waits for the proxies; none is reachable in the harness
                         AcceptScaleUpTo(S1, T, IF res = "PROXY_NOT_SYNC" THEN "OK" ELSE res, a.name, a.n)
                         /\ res # "OK"
                    ELSE <<res, T>> \in ScaleDown(S1, a.name, a.n)
      [] op = "RestartFrom" ->
            IF a.at = 0 THEN TRUE ELSE T = FromRec(Rec[base + a.at - 1].S)
      [] op = "Init" -> T = [gepoch |-> 0, ordered |-> a.ordered, proxies |-> <<>>, failed |-> {},
                             failures |-> <<>>, clusters |-> <<>>]
      [] OTHER -> FALSE

\* recorded views = spec views of the recorded store
ViewsAgree(e) ==
    LET T == FromRec(e.S) IN
    \A v \in DOMAIN e.obs.views :
        LET lim == e.obs.views[v].limit  cs == e.obs.views[v].clusters  ps == e.obs.views[v].proxies
            av == AllViews(T, lim) IN
        /\ {cs[i].name : i \in DOMAIN cs} = ClusterNames(T)
        /\ \A i \in DOMAIN cs : cs[i] = av.clusters[cs[i].name]
        /\ {ps[i].addr : i \in DOMAIN ps} = Addrs(T)
        /\ \A i \in DOMAIN ps : ps[i] = av.proxies[ps[i].addr]

L2(e, pre, base) ==
    (IF Allowed(e, pre, base) THEN {} ELSE {"L2.transition"}) \cup
    (IF ViewsAgree(e) THEN {} ELSE {"L2.views"}) \cup
    (IF e.obs.check = CheckMetadata(FromRec(e.S)) THEN {} ELSE {"L2.check"})

VARIABLES l,      \* next line to consume
          hist,   \* C04 history: [limit -> [addr -> [epoch, content]]]
          gprev,  \* last global epoch
          viol,   \* set of <<line, monitor id>>          (L1: property monitors)
          div,    \* set of <<line, reason>>              (L2: divergence from the Broker spec)
          base,   \* line of the last "Init" (start of the current trace inside a shard)
          dirty   \* an operation of the current trace panicked: the store may be half-updated (parking_lot locks do not
                  \* poison), which Broker.tla does not describe - refinement (L2) is not evaluated for the rest of that trace;
                  \* the L1 monitors (C12: a panic is a violation by itself) go on

vars == <<l, hist, gprev, viol, div, base, dirty>>


Init ==
    /\ l = 1
    /\ hist = EmptyHist
    /\ gprev = 0
    /\ viol = {}
    /\ div = {}
    /\ base = 1
    /\ dirty = FALSE

Step ==
    /\ l <= N
    /\ LET e == Rec[l]
           reset == e.op \in ResetOps
           h0 == IF reset THEN EmptyHist ELSE hist
           g0 == IF reset THEN 0 ELSE gprev
           \* after a panic the rest of that trace runs on a store that may be half-updated: the panic itself is judged (C12),
           \* the later lines of the trace are not (their views and transitions describe garbage, and monitors written for
           \* consistent stores could fail to evaluate, which would turn the verdict into a tool error)
           found == IF dirty /\ ~reset THEN {}
                    ELSE IF e.res = "panic" THEN {"C12.panic"}     \* (the driver could not resolve the arguments of a panicked call)
                    ELSE StateMon(e) \cup C04_Obs(h0, g0, e.S, e.obs)
                         \cup (IF reset \/ l = 1 THEN {} ELSE EventMon(Rec[l-1], e))
       IN /\ viol' = viol \cup {<<l, m>> : m \in found}
          /\ base' = IF e.op = "Init" THEN l ELSE base
          /\ dirty' = IF e.op = "Init" THEN FALSE ELSE (dirty \/ e.res = "panic")
          /\ div' = div \cup {<<l, r>> : r \in (IF l = 1 \/ e.op = "Init"
                                                  THEN (IF ViewsAgree(e) THEN {} ELSE {"L2.views"})
                                                  ELSE IF e.res = "panic" THEN {"L2.panic_not_modelled"}
                                                  ELSE IF dirty THEN {}
                                                  ELSE L2(e, Rec[l-1], base))}
          /\ hist' = NewHist(h0, e.obs)
          /\ gprev' = e.S.gepoch
    /\ l' = l + 1
    /\ (l = N) => JsonSerialize(IOEnv.OUT,
                     [n |-> N, viol |-> SetToSeq({[line |-> v[1], mon |-> v[2]] : v \in viol'}),
                      div |-> SetToSeq({[line |-> v[1], mon |-> v[2]] : v \in div'})])

Next == Step

Spec == Init /\ [][Next]_vars

\* acceptance: the whole trace was consumed
Consumed == TLCGet("stats").diameter - 1 = N
=============================================================================
