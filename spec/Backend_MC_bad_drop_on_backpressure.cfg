CONSTANTS
 N = 3
 K = 1
 MaxGen = 3
 MaxRetry = 1
 Variant = "drop_on_backpressure"
SPECIFICATION Spec
PROPERTY SendOnce
INVARIANT OwnReply
INVARIANT InOrder
INVARIANT NothingLost
INVARIANT TypeOK
CHECK_DEADLOCK FALSE
