SPECIFICATION Spec
CONSTANTS
  Coords = {c1}
  MaxEpoch = 3
  MaxFaults = 1
  Variant = "asbuilt"
  Features = {"migration","dup","restart","crash","lostreply"}

INVARIANTS TypeOK NeverAhead CommitOnce DstBeforeSrc Owned NoLoneFailover
PROPERTIES NoOlder 
CHECK_DEADLOCK FALSE
