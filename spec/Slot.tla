-------------------------------- MODULE Slot --------------------------------
(***************************************************************************)
(* Key -> slot mapping of Redis Cluster and a proxy's routing decision     *)
(* (src/common/utils.rs generate_slot / get_hash_tag, src/proxy/slot.rs,   *)
(* src/proxy/cluster.rs LocalCluster::send / RemoteCluster::send_remote).  *)
(* Keys are sequences of bytes (0..255).                                   *)
(***************************************************************************)
EXTENDS Naturals, Sequences, FiniteSets, Bitwise, SequencesExt, TLC

SLOTS == 16384
LBrace == 123
RBrace == 125

\* CRC16-XMODEM (poly 0x1021, init 0), bit by bit
CrcBit(c) == IF c >= 32768 THEN ((c - 32768) * 2) ^^ 4129 ELSE c * 2
CrcByte(c, b) == FoldLeft(LAMBDA acc, i : CrcBit(acc), c ^^ (b * 256), <<1, 2, 3, 4, 5, 6, 7, 8>>)
Crc16(bytes) == FoldLeft(LAMBDA acc, b : CrcByte(acc, b), 0, bytes)

\* the hash tag: between the first '{' and the first following '}', if non-empty
HashTag(key) ==
    LET opens == {i \in DOMAIN key : key[i] = LBrace} IN
    IF opens = {} THEN key
    ELSE LET b == CHOOSE i \in opens : \A j \in opens : i <= j
             closes == {i \in (b+1)..Len(key) : key[i] = RBrace}
         IN IF closes = {} THEN key
            ELSE LET e == CHOOSE i \in closes : \A j \in closes : i <= j IN
                 IF e = b + 1 THEN key ELSE SubSeq(key, b + 1, e - 1)

SlotOf(key) == Crc16(HashTag(key)) % SLOTS

\* layout: [local : Seq([node, lo, hi]), peers : Seq([proxy, lo, hi])] with pairwise disjoint ranges
Decide(layout, slot) ==
    LET loc == {i \in DOMAIN layout.local : layout.local[i].lo <= slot /\ slot <= layout.local[i].hi}
        rem == {i \in DOMAIN layout.peers : layout.peers[i].lo <= slot /\ slot <= layout.peers[i].hi}
    IN IF loc # {} THEN [k |-> "local", at |-> layout.local[CHOOSE i \in loc : TRUE].node]
       ELSE IF rem # {} THEN [k |-> "moved", slot |-> slot, to |-> layout.peers[CHOOSE i \in rem : TRUE].proxy]
       ELSE [k |-> "error"]

SameSlot(keys) == \A i, j \in DOMAIN keys : SlotOf(keys[i]) = SlotOf(keys[j])
=============================================================================
