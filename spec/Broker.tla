-------------------------------- MODULE Broker --------------------------------
(***************************************************************************)
(* Design specification of undermoon's metadata broker (src/broker).       *)
(*                                                                         *)
(* State-record functional style: the whole store is one record `S`; every *)
(* public mutator of MetaStore is an operator returning the set of         *)
(* possible outcomes <<result code, S'>> (a set because allocation         *)
(* tie-breaks depend on HashMap iteration order in the implementation).    *)
(* Query functions (cluster_store_to_cluster, get_proxy_by_address,        *)
(* limit_migration) are transcribed as operators producing exactly the     *)
(* view shape that the harness records, so the L1 monitors of BrokerMon    *)
(* apply unchanged to the spec's own views (Broker_MC) and recorded views  *)
(* can be compared with the spec's (Broker_Trace, L2).                     *)
(*                                                                         *)
(* One operator per public mutator, named after the Rust function.         *)
(* Deliberate deviations of the code from an idealised design are kept:    *)
(*   - migrate_slots* bump the global epoch before validating;             *)
(*   - replace_failed_proxy performs the takeover and marks the proxy      *)
(*     failed even when no replacement is available (FailoverNoSpare);     *)
(*   - add_proxy on an existing address still clears failure marks.        *)
(***************************************************************************)
EXTENDS BrokerMon

CONSTANT DefaultConfig      \* the ClusterConfig record new clusters start with

(***************************************************************************)
(* Shapes                                                                  *)
(*  S == [gepoch, ordered,                                                 *)
(*        proxies  : [addr -> [host, index, cluster, nodes : <<n1,n2>>]],   *)
(*        failed   : SUBSET addr,                                          *)
(*        failures : [addr -> nonempty set of reporters],                  *)
(*        clusters : [name -> [epoch, config, chunks : Seq(Chunk)]]]        *)
(*  Chunk == [role : {"N","F","S"}, px : <<a,b>>, hosts : <<h,h>>,          *)
(*            nodes : <<n,n,n,n>>, stable : <<Half,Half>>,                  *)
(*            mig : <<Seq(Entry),Seq(Entry)>>]                              *)
(*  Half  == [some : BOOLEAN, rl : Seq(<<lo,hi>>)]                          *)
(*  Entry == [rl, out : BOOLEAN, epoch, sc, sp, dc, dp]   (0-based indices *)
(*            as the implementation stores them)                          *)
(***************************************************************************)

Min2(a, b) == IF a <= b THEN a ELSE b
Dom(f) == DOMAIN f
Upd(f, k, v) == [x \in (DOMAIN f) \cup {k} |-> IF x = k THEN v ELSE f[x]]
Del(f, k) == [x \in (DOMAIN f) \ {k} |-> f[x]]
SelectIdx(s, P(_)) == {i \in DOMAIN s : P(s[i])}
NoneHalf == [some |-> FALSE, rl |-> <<>>]

-----------------------------------------------------------------------------
(* Range lists: sorted sequences of <<lo,hi>>  (src/common/cluster.rs)      *)

\* RangeList::compact : normalise, sort by lo, merge overlapping or adjacent
RlSort(rl) == SortSeq(rl, LAMBDA a, b : a[1] < b[1])
RlMergeSorted(rl) ==
    LET f[i \in 0..Len(rl)] ==
          IF i = 0 THEN <<>>
          ELSE IF i = 1 THEN <<rl[1]>>
          ELSE LET acc == f[i-1] lastr == acc[Len(acc)] IN
               IF lastr[2] + 1 >= rl[i][1]
               THEN [acc EXCEPT ![Len(acc)] = <<lastr[1], Max2(lastr[2], rl[i][2])>>]
               ELSE Append(acc, rl[i])
    IN f[Len(rl)]
Compact(rl) ==
    RlMergeSorted(RlSort([i \in DOMAIN rl |-> IF rl[i][1] > rl[i][2] THEN <<rl[i][2], rl[i][1]>> ELSE rl[i]]))

\* merge_another
RlMerge(a, b) == Compact(a \o b)

-----------------------------------------------------------------------------
(* Queries (src/broker/query.rs, store.rs)                                 *)

ChunkProxyIndex(part, role) ==           \* chunk_part_to_proxy_index, 0-based
    IF part = 0 /\ role = "S" THEN 1 ELSE IF part = 1 /\ role = "F" THEN 0 ELSE part
ChunkNodeIndex(part, role) ==            \* chunk_part_to_node_index, 0-based
    IF part = 0 /\ role = "S" THEN 3 ELSE IF part = 1 /\ role = "F" THEN 1 ELSE 2 * part

NoMeta == [epoch |-> 0, sp |-> "", sn |-> "", dp |-> "", dn |-> ""]

\* MigrationSlotRangeStore::to_slot_range
EntryToSR(e, chunks) ==
    LET src == chunks[e.sc + 1]  dst == chunks[e.dc + 1] IN
    [rl |-> e.rl,
     tag |-> IF e.out THEN "migrating" ELSE "importing",
     meta |-> [epoch |-> e.epoch,
               sp |-> src.px[ChunkProxyIndex(e.sp, src.role) + 1],
               sn |-> src.nodes[ChunkNodeIndex(e.sp, src.role) + 1],
               dp |-> dst.px[ChunkProxyIndex(e.dp, dst.role) + 1],
               dn |-> dst.nodes[ChunkNodeIndex(e.dp, dst.role) + 1]]]

HalfSlots(ch, h, chunks) ==             \* stable range (if any) followed by the half's migration entries
    (IF ch.stable[h].some THEN <<[rl |-> ch.stable[h].rl, tag |-> "none", meta |-> NoMeta]>> ELSE <<>>)
    \o [k \in DOMAIN ch.mig[h] |-> EntryToSR(ch.mig[h][k], chunks)]

\* cluster_store_to_cluster : the four nodes of a chunk (i is the 0-based node index)
ChunkNode(ch, i, chunks) ==
    LET first == IF ch.role = "S" THEN 3 ELSE 0
        second == IF ch.role = "F" THEN 1 ELSE 2
        role == IF (ch.role = "N" /\ i % 2 = 1) \/ (ch.role = "F" /\ i >= 2) \/ (ch.role = "S" /\ i < 2)
                THEN "replica" ELSE "master"
        peer == 3 - i
    IN [addr |-> ch.nodes[i + 1],
        proxy |-> ch.px[(i \div 2) + 1],
        role |-> role,
        peers |-> <<[node |-> ch.nodes[peer + 1], proxy |-> ch.px[(peer \div 2) + 1]]>>,
        slots |-> (IF i = first THEN HalfSlots(ch, 1, chunks) ELSE <<>>)
                  \o (IF i = second THEN HalfSlots(ch, 2, chunks) ELSE <<>>)]

ChunksToNodes(chunks) ==
    FlattenSeq([c \in DOMAIN chunks |-> [i \in 1..4 |-> ChunkNode(chunks[c], i - 1, chunks)]])

\* ClusterStore::limit_migration
LimitMigration(chunks, limit) ==
    IF limit = 0 THEN chunks
    ELSE
    LET base == [c \in DOMAIN chunks |-> [chunks[c] EXCEPT !.mig = <<<<>>, <<>>>>]]
        \* all migrating(out) entries in iteration order (chunk, half, position)
        outs == FlattenSeq([c \in DOMAIN chunks |->
                   FlattenSeq([h \in 1..2 |-> SelectSeq(chunks[c].mig[h], LAMBDA e : e.out)])])
        \* state: [chunks, num, perSrc : function <<sc,sp>> -> count]
        step(st, e) ==
            LET key == <<e.sc, e.sp>>
                cnt == IF key \in DOMAIN st.perSrc THEN st.perSrc[key] ELSE 0
            IN IF st.num >= limit \/ cnt >= 1
               THEN \* deferred: folded back into the source's stable slots
                    LET src == st.chunks[e.sc + 1]
                        old == src.stable[e.sp + 1]
                        new == [some |-> TRUE, rl |-> RlMerge(IF old.some THEN old.rl ELSE <<>>, e.rl)]
                    IN [st EXCEPT !.chunks[e.sc + 1].stable[e.sp + 1] = new,
                                  !.perSrc = Upd(st.perSrc, key, cnt)]
               ELSE [chunks |-> [st.chunks EXCEPT
                                   ![e.sc + 1].mig[e.sp + 1] = Append(st.chunks[e.sc + 1].mig[e.sp + 1], e)],
                     num |-> st.num + 1,
                     perSrc |-> Upd(st.perSrc, key, cnt + 1)]
        \* the importing twin is pushed right after the migrating one; apply in a second EXCEPT
        step2(st, e) ==
            LET key == <<e.sc, e.sp>>
                cnt == IF key \in DOMAIN st.perSrc THEN st.perSrc[key] ELSE 0
                s1 == step(st, e)
            IN IF st.num >= limit \/ cnt >= 1 THEN s1
               ELSE [s1 EXCEPT !.chunks[e.dc + 1].mig[e.dp + 1] =
                                   Append(s1.chunks[e.dc + 1].mig[e.dp + 1], [e EXCEPT !.out = FALSE])]
        f[i \in 0..Len(outs)] ==
            IF i = 0 THEN [chunks |-> base, num |-> 0, perSrc |-> <<>>] ELSE step2(f[i-1], outs[i])
    IN f[Len(outs)].chunks

ClusterView(S, name, limit) ==
    LET c == S.clusters[name] IN
    [name |-> name, epoch |-> c.epoch, config |-> c.config,
     nodes |-> ChunksToNodes(LimitMigration(c.chunks, limit))]

FreeConfig == [compression |-> "-", mmt |-> 0, mbt |-> 0, si |-> 0, sc |-> 0]

\* itertools group_by: consecutive runs with equal proxy address
GroupPeers(ms) ==
    LET f[i \in 0..Len(ms)] ==
          IF i = 0 THEN <<>>
          ELSE LET acc == f[i-1] IN
               IF acc # <<>> /\ acc[Len(acc)].proxy = ms[i].proxy
               THEN [acc EXCEPT ![Len(acc)].slots = @ \o ms[i].slots]
               ELSE Append(acc, [proxy |-> ms[i].proxy, slots |-> ms[i].slots])
    IN f[Len(ms)]

\* MetaStoreQuery::get_proxy_by_address, given the (limited) cluster view V of the proxy's cluster
FreeProxyView(S, a) ==
    [addr |-> a, cluster |-> "", epoch |-> S.gepoch, config |-> FreeConfig,
     nodes |-> [i \in 1..2 |-> [addr |-> S.proxies[a].nodes[i], proxy |-> a, role |-> "master",
                                peers |-> <<>>, slots |-> <<>>]],
     peers |-> <<>>]
ProxyViewFrom(a, V) ==
    [addr |-> a, cluster |-> V.name, epoch |-> V.epoch, config |-> V.config,
     nodes |-> SelectSeq(V.nodes, LAMBDA n : n.proxy = a),
     peers |-> GroupPeers(SelectSeq(V.nodes, LAMBDA n : n.role = "master" /\ n.proxy # a))]
ProxyView(S, a, limit) ==
    LET p == S.proxies[a] IN
    IF p.cluster = "" \/ p.cluster \notin DOMAIN S.clusters THEN FreeProxyView(S, a)
    ELSE ProxyViewFrom(a, ClusterView(S, p.cluster, limit))
\* all proxy views of a store under one limit, computing each cluster view once
AllViews(S, limit) ==
    LET cv == [n \in DOMAIN S.clusters |-> ClusterView(S, n, limit)] IN
    [clusters |-> cv,
     proxies |-> [a \in DOMAIN S.proxies |->
                    IF S.proxies[a].cluster = "" \/ S.proxies[a].cluster \notin DOMAIN S.clusters
                    THEN FreeProxyView(S, a) ELSE ProxyViewFrom(a, cv[S.proxies[a].cluster])]]

ClusterNames(S) == DOMAIN S.clusters
Addrs(S) == DOMAIN S.proxies

IsMigrating(c) == \E i \in DOMAIN c.chunks : c.chunks[i].mig[1] # <<>> \/ c.chunks[i].mig[2] # <<>>

\* get_free_proxy_resource
FreeProxies(S) == {a \in Addrs(S) : S.proxies[a].cluster = "" /\ a \notin S.failed /\ a \notin DOMAIN S.failures}

\* check_metadata
CheckMetadata(S) ==
    /\ \A name \in ClusterNames(S) :
          LET chs == S.clusters[name].chunks
              pxs == FlattenSeq([i \in DOMAIN chs |-> chs[i].px]) IN
          /\ \A i \in DOMAIN pxs : pxs[i] \in Addrs(S) /\ S.proxies[pxs[i]].cluster = name
          /\ \A i, j \in DOMAIN pxs : i # j => pxs[i] # pxs[j]
          /\ \A i \in DOMAIN chs : \A h \in 1..2 :
                chs[i].px[h] \in Addrs(S) =>
                   /\ S.proxies[chs[i].px[h]].host = chs[i].hosts[h]
                   /\ S.proxies[chs[i].px[h]].nodes = <<chs[i].nodes[2*h - 1], chs[i].nodes[2*h]>>
    /\ \A a \in Addrs(S) : S.proxies[a].cluster # "" =>
          /\ S.proxies[a].cluster \in ClusterNames(S)
          /\ \E i \in DOMAIN S.clusters[S.proxies[a].cluster].chunks :
                a \in Range(S.clusters[S.proxies[a].cluster].chunks[i].px)

-----------------------------------------------------------------------------
(* Allocation (src/broker/update.rs): relations, because the implementation *)
(* breaks ties by HashMap iteration order.                                 *)

Hosts(S) == {S.proxies[a].host : a \in Addrs(S)}
FreeByHost(S) == [h \in Hosts(S) |-> {a \in FreeProxies(S) : S.proxies[a].host = h}]
SumOver(f) == LET ks == DOMAIN f IN FoldSet(LAMBDA k, acc : acc + f[k], 0, ks)
MaxOver(f) == IF DOMAIN f = {} THEN 0 ELSE Max({f[k] : k \in DOMAIN f})

\* build_link_table : [host -> [host -> count]] (partial)
LinkTable(S) ==
    LET freeHosts == {S.proxies[a].host : a \in {x \in Addrs(S) : S.proxies[x].cluster = ""}}
        pairs0 == {<<h1, h2>> \in Hosts(S) \X Hosts(S) : h1 # h2 /\ (h1 \in freeHosts \/ h2 \in freeHosts)}
        chunkPairs == UNION {{<<S.clusters[n].chunks[i].hosts[1], S.clusters[n].chunks[i].hosts[2]>>
                               : i \in DOMAIN S.clusters[n].chunks} : n \in ClusterNames(S)}
        keys == pairs0 \cup chunkPairs \cup {<<p[2], p[1]>> : p \in chunkPairs}
        cnt(h1, h2) ==
            LET c1 == FoldSet(LAMBDA n, acc : acc +
                         Cardinality({i \in DOMAIN S.clusters[n].chunks :
                                         S.clusters[n].chunks[i].hosts = <<h1, h2>>}), 0, ClusterNames(S))
                c2 == FoldSet(LAMBDA n, acc : acc +
                         Cardinality({i \in DOMAIN S.clusters[n].chunks :
                                         S.clusters[n].chunks[i].hosts = <<h2, h1>>}), 0, ClusterNames(S))
            IN c1 + c2
    IN [h1 \in {k[1] : k \in keys} |-> [h2 \in {k[2] : k \in {x \in keys : x[1] = h1}} |-> cnt(h1, h2)]]

\* remove_redundant_chunks : pops from the (unique) over-full host; which proxies are dropped is free
\* Returns the set of possible [host -> set of proxies] maps.
RemoveRedundant(fbh) ==
    LET cnt == [h \in DOMAIN fbh |-> Cardinality(fbh[h])]
        total == SumOver(cnt)
        mx == MaxOver(cnt)
    IN IF mx * 2 <= total THEN {fbh}
       ELSE \* a single host holds more than half: shrink it to k where 2k <= k + rest
            LET h == CHOOSE x \in DOMAIN fbh : cnt[x] = mx
                rest == total - mx
                keep == Min2(mx, rest)
            IN {[fbh EXCEPT ![h] = T] : T \in {X \in SUBSET fbh[h] : Cardinality(X) = keep}}

\* second_host_cmp : smaller link count first, then more free proxies
BestSecondHosts(first, fbh, link) ==
    LET cands == {h \in (IF first \in DOMAIN link THEN DOMAIN link[first] ELSE {}) :
                    h # first /\ h \in DOMAIN fbh /\ fbh[h] # {}}
        better(h1, h2) == \/ link[first][h1] < link[first][h2]
                          \/ (link[first][h1] = link[first][h2] /\ Cardinality(fbh[h1]) > Cardinality(fbh[h2]))
    IN {h \in cands : \A g \in cands : ~better(g, h)}

\* The possible (first host, second host) choices of one iteration of allocate_chunk
AllocStepHosts(fbh, link) ==
    LET cnt == [h \in DOMAIN fbh |-> Cardinality(fbh[h])]
        mx == MaxOver(cnt)
        firsts == {h \in DOMAIN fbh : cnt[h] = mx /\ mx > 0}
    IN UNION {{<<h1, h2>> : h2 \in BestSecondHosts(h1, fbh, link)} : h1 \in firsts}

AfterStep(fbh, link, a, b, h1, h2) ==
    <<[fbh EXCEPT ![h1] = @ \ {a}, ![h2] = @ \ {b}],
      [link EXCEPT ![h1][h2] = @ + 1, ![h2][h1] = @ + 1]>>

\* generator (model checking): one canonical proxy per chosen host
RECURSIVE AllocCanon(_, _, _)
AllocCanon(fbh, link, k) ==
    IF k = 0 THEN {<<>>}
    ELSE UNION {LET a == CHOOSE x \in fbh[hh[1]] : TRUE
                    b == CHOOSE x \in fbh[hh[2]] : TRUE
                    nx == AfterStep(fbh, link, a, b, hh[1], hh[2])
                IN {<<<<a, b>>>> \o rest : rest \in AllocCanon(nx[1], nx[2], k - 1)}
                  : hh \in AllocStepHosts(fbh, link)}

\* acceptor (trace validation): is this pair sequence producible?
RECURSIVE AllocOK(_, _, _)
AllocOK(fbh, link, pairs) ==
    IF pairs = <<>> THEN TRUE
    ELSE LET a == pairs[1][1]  b == pairs[1][2] IN
         \E hh \in AllocStepHosts(fbh, link) :
            /\ a \in fbh[hh[1]] /\ b \in fbh[hh[2]]
            /\ LET nx == AfterStep(fbh, link, a, b, hh[1], hh[2]) IN AllocOK(nx[1], nx[2], Tail(pairs))

\* generate_free_chunks: [err, fbhs] ; fbhs = candidate host->free maps after remove_redundant_chunks
GenFree(S, proxyNum) ==
    LET fbh0 == FreeByHost(S)
        cands == RemoveRedundant(fbh0)
        anyf == CHOOSE f \in cands : TRUE
        total == SumOver([h \in DOMAIN anyf |-> Cardinality(anyf[h])])
    IN IF total < proxyNum THEN [err |-> "NO_AVAILABLE_RESOURCE", fbhs |-> {}]
       ELSE [err |-> "", fbhs |-> cands]

\* generate_free_chunks_for_ordered_proxy_index: is `pairs` an admissible result?
OrderedSeqOK(S, flat, firstIndex) ==
    LET F == FreeProxies(S) IN
    /\ \A i \in DOMAIN flat : flat[i] \in F /\ S.proxies[flat[i]].index = firstIndex + i - 1
    /\ \A i, j \in DOMAIN flat : i # j => flat[i] # flat[j]
    /\ \A a \in F \ Range(flat) : flat # <<>> => S.proxies[a].index >= S.proxies[flat[Len(flat)]].index
OrderedCandidates(S, proxyNum, firstIndex) ==
    LET F == FreeProxies(S)
        byIdx(i) == {a \in F : S.proxies[a].index = i}
        RECURSIVE build(_)
        build(i) == IF i = proxyNum THEN {<<>>}
                    ELSE UNION {{<<a>> \o r : r \in build(i + 1)} : a \in byIdx(firstIndex + i)}
    IN {q \in build(0) : OrderedSeqOK(S, q, firstIndex)}
GenOrdered(S, proxyNum, firstIndex) ==
    IF Cardinality(FreeProxies(S)) < proxyNum THEN [err |-> "NO_AVAILABLE_RESOURCE", seqs |-> {}]
    ELSE LET c == OrderedCandidates(S, proxyNum, firstIndex) IN
         IF c = {} THEN [err |-> "PROXY_RESOURCE_OUT_OF_ORDER", seqs |-> {}] ELSE [err |-> "", seqs |-> c]
PairUp(flat) == [i \in 1..(Len(flat) \div 2) |-> <<flat[2*i - 1], flat[2*i]>>]

\* proxy_resource_to_chunk_store
PairsToChunks(S, pairs, withSlots) ==
    LET masterNum == Len(pairs) * 2
        avg == SLOT_NUM \div masterNum
        rem == SLOT_NUM - avg * masterNum
        start(m) == m * avg + Min2(m, rem)            \* m = 0-based master index
        rng(m) == <<<<start(m), start(m + 1) - 1>>>>
    IN [i \in DOMAIN pairs |->
          LET a == pairs[i][1]  b == pairs[i][2] IN
          [role |-> "N", px |-> <<a, b>>,
           hosts |-> <<S.proxies[a].host, S.proxies[b].host>>,
           nodes |-> S.proxies[a].nodes \o S.proxies[b].nodes,
           stable |-> IF withSlots
                      THEN <<[some |-> TRUE, rl |-> rng(2*(i-1))], [some |-> TRUE, rl |-> rng(2*(i-1) + 1)]>>
                      ELSE <<NoneHalf, NoneHalf>>,
           mig |-> <<<<>>, <<>>>>]]

TagProxies(proxies, addrs, name) ==
    [a \in DOMAIN proxies |-> IF a \in addrs THEN [proxies[a] EXCEPT !.cluster = name] ELSE proxies[a]]
PairAddrs(pairs) == UNION {{pairs[i][1], pairs[i][2]} : i \in DOMAIN pairs}

-----------------------------------------------------------------------------
(* Mutators.  Each XxxCode gives the refusal (or "OK"); XxxDo the deterministic effect. *)

Outcome(res, S) == <<res, S>>

\* ---- add_proxy ----
AddProxy(S, a, host, index, nodes) ==
    IF S.ordered /\ index < 0 THEN {Outcome("MISSING_SERVER_PROXY_INDEX", S)}
    ELSE LET exists == a \in Addrs(S)
             cleared == a \in S.failed \/ a \in DOMAIN S.failures
             T == [S EXCEPT
                     !.proxies = IF exists THEN S.proxies
                                 ELSE Upd(S.proxies, a, [host |-> host, index |-> IF S.ordered THEN index ELSE 0,
                                                         cluster |-> "", nodes |-> nodes]),
                     !.failed = S.failed \ {a},
                     !.failures = IF a \in DOMAIN S.failures THEN Del(S.failures, a) ELSE S.failures,
                     !.gepoch = IF ~exists \/ cleared THEN S.gepoch + 1 ELSE S.gepoch]
         IN {Outcome(IF exists THEN "ALREADY_EXISTED" ELSE "OK", T)}

\* ---- remove_proxy ----
RemoveProxy(S, a) ==
    IF a \notin Addrs(S) THEN {Outcome("PROXY_NOT_FOUND", S)}
    ELSE IF S.proxies[a].cluster # "" THEN {Outcome("IN_USE", S)}
    ELSE {Outcome("OK", [S EXCEPT !.proxies = Del(S.proxies, a),
                                   !.failed = S.failed \ {a},
                                   !.failures = IF a \in DOMAIN S.failures THEN Del(S.failures, a) ELSE S.failures,
                                   !.gepoch = S.gepoch + 1])}

\* ---- add_cluster ----
AddClusterCode(S, name, n) ==
    IF S.ordered /\ ClusterNames(S) # {} THEN "ONE_CLUSTER_ALREADY_EXISTED"
    ELSE IF name \in ClusterNames(S) THEN "ALREADY_EXISTED"
    ELSE IF n % 4 # 0 \/ n = 0 THEN "INVALID_NODE_NUMBER"
    ELSE IF S.ordered THEN GenOrdered(S, n \div 2, 0).err ELSE GenFree(S, n \div 2).err
AddClusterDo(S, name, pairs) ==
    [S EXCEPT !.gepoch = S.gepoch + 1,
              !.clusters = Upd(S.clusters, name, [epoch |-> S.gepoch + 1, config |-> DefaultConfig,
                                                  chunks |-> PairsToChunks(S, pairs, TRUE)]),
              !.proxies = TagProxies(S.proxies, PairAddrs(pairs), name)]
AllocChoices(S, n, firstIndex) ==       \* generator
    IF S.ordered THEN {PairUp(q) : q \in GenOrdered(S, n \div 2, firstIndex).seqs}
    ELSE UNION {AllocCanon(f, LinkTable(S), n \div 4) : f \in GenFree(S, n \div 2).fbhs}
AllocAccept(S, pairs, firstIndex) ==    \* acceptor
    IF S.ordered THEN OrderedSeqOK(S, FlattenSeq(pairs), firstIndex)
    ELSE \E f \in GenFree(S, Len(pairs) * 2).fbhs : AllocOK(f, LinkTable(S), pairs)
AddCluster(S, name, n) ==
    LET code == AddClusterCode(S, name, n) IN
    IF code # "" THEN {Outcome(code, S)}
    ELSE {Outcome("OK", AddClusterDo(S, name, p)) : p \in AllocChoices(S, n, 0)}

\* ---- remove_cluster ----
RemoveCluster(S, name) ==
    IF name \notin ClusterNames(S) THEN {Outcome("CLUSTER_NOT_FOUND", S)}
    ELSE LET px == InClusterProxies(S.clusters[name]) IN
         {Outcome("OK", [S EXCEPT !.clusters = Del(S.clusters, name),
                                  !.proxies = TagProxies(S.proxies, px \cap Addrs(S), ""),
                                  !.gepoch = S.gepoch + 1])}

\* ---- auto_add_nodes / auto_scale_up_nodes ----
AddNodesCode(S, name, n) ==
    IF name \notin ClusterNames(S) THEN "CLUSTER_NOT_FOUND"
    ELSE IF IsMigrating(S.clusters[name]) THEN "MIGRATION_RUNNING"
    ELSE IF n % 4 # 0 \/ n = 0 THEN "INVALID_NODE_NUMBER"
    ELSE IF S.ordered THEN GenOrdered(S, n \div 2, Len(S.clusters[name].chunks) * 2).err
    ELSE GenFree(S, n \div 2).err
AddNodesDo(S, name, pairs) ==
    [S EXCEPT !.gepoch = S.gepoch + 1,
              !.clusters[name].chunks = @ \o PairsToChunks(S, pairs, FALSE),
              !.clusters[name].epoch = S.gepoch + 1,
              !.proxies = TagProxies(S.proxies, PairAddrs(pairs), name)]
AddNodes(S, name, n) ==
    LET code == AddNodesCode(S, name, n) IN
    IF code # "" THEN {Outcome(code, S)}
    ELSE {Outcome("OK", AddNodesDo(S, name, p)) : p \in AllocChoices(S, n, Len(S.clusters[name].chunks) * 2)}
ScaleUpToCode(S, name, n) ==
    IF name \notin ClusterNames(S) THEN "CLUSTER_NOT_FOUND"
    ELSE IF n <= Len(S.clusters[name].chunks) * 4 THEN "NODE_NUM_ALREADY_ENOUGH"
    ELSE AddNodesCode(S, name, n - Len(S.clusters[name].chunks) * 4)
ScaleUpTo(S, name, n) ==
    LET code == ScaleUpToCode(S, name, n) IN
    IF code # "" THEN {Outcome(code, S)} ELSE AddNodes(S, name, n - Len(S.clusters[name].chunks) * 4)

\* ---- auto_delete_free_nodes ----
ChunkFree(ch) == ~ch.stable[1].some /\ ~ch.stable[2].some /\ ch.mig[1] = <<>> /\ ch.mig[2] = <<>>
DeleteFreeCode(S, name) ==
    IF name \notin ClusterNames(S) THEN "CLUSTER_NOT_FOUND"
    ELSE IF IsMigrating(S.clusters[name]) THEN "MIGRATION_RUNNING"
    ELSE IF \A i \in DOMAIN S.clusters[name].chunks : ~ChunkFree(S.clusters[name].chunks[i]) THEN "FREE_NODE_NOT_FOUND"
    ELSE ""
DeleteFreeDo(S, name) ==
    LET chs == S.clusters[name].chunks
        gone == UNION {Range(chs[i].px) : i \in {j \in DOMAIN chs : ChunkFree(chs[j])}}
    IN [S EXCEPT !.clusters[name].chunks = SelectSeq(chs, LAMBDA ch : ~ChunkFree(ch)),
                 !.clusters[name].epoch = S.gepoch + 1,
                 !.proxies = TagProxies(S.proxies, gone \cap Addrs(S), ""),
                 !.gepoch = S.gepoch + 1]
DeleteFree(S, name) ==
    LET code == DeleteFreeCode(S, name) IN
    IF code # "" THEN {Outcome(code, S)} ELSE {Outcome("OK", DeleteFreeDo(S, name))}

-----------------------------------------------------------------------------
(* Slot arithmetic of scaling (src/broker/migrate.rs)                      *)

\* One source master of remove_slots_from_src.  st = [dstIdx, cur, curNum, out]; returns <<st', rl'>>
RECURSIVE ScaleOutSrc(_, _, _, _)
ScaleOutSrc(st, rl, m, K) ==
    \* K = [avg, rem, srcMasterNum, dstMasterNum, srcChunkNum, epoch]
    IF st.dstIdx = K.dstMasterNum THEN <<st, rl>>
    ELSE
    LET srcFinal == K.avg + (IF m < K.rem THEN 1 ELSE 0)
        dstFinal == K.avg + (IF K.srcMasterNum + st.dstIdx < K.rem THEN 1 ELSE 0)
    IN IF RlNum(rl) <= srcFinal THEN <<st, rl>>
       ELSE
       LET need == dstFinal - st.curNum
           avail == RlNum(rl) - srcFinal
           remove == Min2(need, avail)
           lastr == Last(rl)
           lastLen == lastr[2] - lastr[1] + 1
           whole == remove >= lastLen
           rl1 == IF whole THEN Front(rl) ELSE [rl EXCEPT ![Len(rl)] = <<lastr[1], lastr[2] - remove>>]
           piece == IF whole THEN lastr ELSE <<lastr[2] - remove + 1, lastr[2]>>
           cur1 == Append(st.cur, piece)
           num1 == st.curNum + (IF whole THEN lastLen ELSE remove)
           full == num1 >= dstFinal
           drained == RlNum(rl1) <= srcFinal
           entry == [rl |-> Compact(cur1), epoch |-> K.epoch, sc |-> m \div 2, sp |-> m % 2,
                     dc |-> K.srcChunkNum + (st.dstIdx \div 2), dp |-> st.dstIdx % 2]
           st1 == IF full \/ drained
                  THEN [dstIdx |-> IF full THEN st.dstIdx + 1 ELSE st.dstIdx,
                        cur |-> <<>>, curNum |-> IF full THEN 0 ELSE num1, out |-> Append(st.out, entry)]
                  ELSE [st EXCEPT !.cur = cur1, !.curNum = num1]
       IN IF (full \/ drained) /\ drained THEN <<st1, rl1>> ELSE ScaleOutSrc(st1, rl1, m, K)

\* remove_slots_from_src: returns [chunks (stable lists reduced), out (migrations)]
RemoveSlotsFromSrc(chunks, epoch) ==
    LET nC == Len(chunks)
        dstChunkNum == Cardinality({i \in DOMAIN chunks : ~chunks[i].stable[1].some /\ ~chunks[i].stable[2].some})
        masterNum == nC * 2
        K == [avg |-> SLOT_NUM \div masterNum, rem |-> SLOT_NUM - (SLOT_NUM \div masterNum) * masterNum,
              srcMasterNum |-> (nC - dstChunkNum) * 2, dstMasterNum |-> dstChunkNum * 2,
              srcChunkNum |-> nC - dstChunkNum, epoch |-> epoch]
        f[m \in 0..masterNum] ==       \* after processing masters 0..m-1
            IF m = 0 THEN [st |-> [dstIdx |-> 0, cur |-> <<>>, curNum |-> 0, out |-> <<>>], chunks |-> chunks]
            ELSE LET prev == f[m-1]
                     c == ((m-1) \div 2) + 1  h == ((m-1) % 2) + 1
                     half == prev.chunks[c].stable[h]
                 IN IF ~half.some THEN prev
                    ELSE LET r == ScaleOutSrc(prev.st, half.rl, m - 1, K) IN
                         [st |-> r[1], chunks |-> [prev.chunks EXCEPT ![c].stable[h].rl = r[2]]]
    IN [chunks |-> f[masterNum].chunks, out |-> f[masterNum].st.out]

\* assign_dst_slots + compact_slots
AssignDst(chunks, out) ==
    LET f[i \in 0..Len(out)] ==
          IF i = 0 THEN chunks
          ELSE LET e == out[i]
                   mo == [rl |-> e.rl, out |-> TRUE, epoch |-> e.epoch, sc |-> e.sc, sp |-> e.sp, dc |-> e.dc, dp |-> e.dp]
                   c1 == [f[i-1] EXCEPT ![e.sc + 1].mig[e.sp + 1] = Append(@, mo)]
               IN [c1 EXCEPT ![e.dc + 1].mig[e.dp + 1] = Append(@, [mo EXCEPT !.out = FALSE])]
    IN f[Len(out)]
CompactChunks(chunks) ==
    [c \in DOMAIN chunks |->
        [chunks[c] EXCEPT
           !.stable = [h \in 1..2 |-> IF chunks[c].stable[h].some
                                      THEN [some |-> TRUE, rl |-> Compact(chunks[c].stable[h].rl)]
                                      ELSE chunks[c].stable[h]],
           !.mig = [h \in 1..2 |-> [k \in DOMAIN chunks[c].mig[h] |->
                                      [chunks[c].mig[h][k] EXCEPT !.rl = Compact(@)]]]]]

\* ---- migrate_slots ----  (note: the global epoch is bumped before validation)
MigrateSlots(S, name) ==
    LET S1 == [S EXCEPT !.gepoch = S.gepoch + 1] IN
    IF name \notin ClusterNames(S) THEN {Outcome("CLUSTER_NOT_FOUND", S1)}
    ELSE LET c == S.clusters[name] IN
         IF \A i \in DOMAIN c.chunks : c.chunks[i].stable[1].some /\ c.chunks[i].stable[2].some
         THEN {Outcome("SLOTS_ALREADY_EVEN", S1)}
         ELSE IF IsMigrating(c) THEN {Outcome("MIGRATION_RUNNING", S1)}
         ELSE LET r == RemoveSlotsFromSrc(c.chunks, S.gepoch + 1) IN
              {Outcome("OK", [S1 EXCEPT !.clusters[name].chunks = CompactChunks(AssignDst(r.chunks, r.out)),
                                        !.clusters[name].epoch = S.gepoch + 1])}

\* One source master of remove_slots_from_src_to_scale_down. st = [dstIdx, cur, curNum, out]
RECURSIVE ScaleDownSrc(_, _, _, _)
ScaleDownSrc(st, rl, m, K) ==
    \* K = [avg, rem, dstMasterNum, existing (Seq), epoch]
    IF st.dstIdx = K.dstMasterNum THEN <<st, rl>>
    ELSE
    LET dstFinal == K.avg + (IF st.dstIdx < K.rem THEN 1 ELSE 0)
        existing == K.existing[st.dstIdx + 1]
        need == dstFinal - st.curNum - existing
        avail == RlNum(rl)
    IN IF avail = 0 THEN <<st, rl>>
       ELSE
       LET remove == Min2(need, avail)
           first == rl[1]
           firstLen == first[2] - first[1] + 1
           whole == remove >= firstLen
           rl1 == IF whole THEN Tail(rl) ELSE [rl EXCEPT ![1] = <<first[1] + remove, first[2]>>]
           piece == IF whole THEN first ELSE <<first[1], first[1] + remove - 1>>
           cur1 == Append(st.cur, piece)
           num1 == st.curNum + (IF whole THEN firstLen ELSE remove)
           full == num1 + existing >= dstFinal
           drained == RlNum(rl1) = 0
           entry == [rl |-> Compact(cur1), epoch |-> K.epoch, sc |-> m \div 2, sp |-> m % 2,
                     dc |-> st.dstIdx \div 2, dp |-> st.dstIdx % 2]
           st1 == IF full \/ drained
                  THEN [dstIdx |-> IF full THEN st.dstIdx + 1 ELSE st.dstIdx,
                        cur |-> <<>>, curNum |-> IF full THEN 0 ELSE num1, out |-> Append(st.out, entry)]
                  ELSE [st EXCEPT !.cur = cur1, !.curNum = num1]
       IN IF (full \/ drained) /\ drained THEN <<st1, rl1>> ELSE ScaleDownSrc(st1, rl1, m, K)

RemoveSlotsToScaleDown(chunks, epoch, newChunkNum) ==
    LET dstMasterNum == newChunkNum * 2
        avg == SLOT_NUM \div dstMasterNum
        existing == FlattenSeq([c \in 1..newChunkNum |->
                       [h \in 1..2 |-> IF chunks[c].stable[h].some THEN RlNum(chunks[c].stable[h].rl) ELSE 0]])
        K == [avg |-> avg, rem |-> SLOT_NUM - avg * dstMasterNum, dstMasterNum |-> dstMasterNum,
              existing |-> existing, epoch |-> epoch]
        masterNum == Len(chunks) * 2
        f[m \in dstMasterNum..masterNum] ==
            IF m = dstMasterNum THEN [st |-> [dstIdx |-> 0, cur |-> <<>>, curNum |-> 0, out |-> <<>>], chunks |-> chunks]
            ELSE LET prev == f[m-1]
                     c == ((m-1) \div 2) + 1  h == ((m-1) % 2) + 1
                     half == prev.chunks[c].stable[h]
                 IN IF ~half.some THEN prev
                    ELSE LET r == ScaleDownSrc(prev.st, half.rl, m - 1, K) IN
                         \* the source half is set to None whatever is left
                         [st |-> r[1], chunks |-> [prev.chunks EXCEPT ![c].stable[h] = NoneHalf]]
    IN [chunks |-> f[masterNum].chunks, out |-> f[masterNum].st.out]

\* ---- migrate_slots_to_scale_down ----
ScaleDown(S, name, n) ==
    LET S1 == [S EXCEPT !.gepoch = S.gepoch + 1] IN
    IF name \notin ClusterNames(S) THEN {Outcome("CLUSTER_NOT_FOUND", S1)}
    ELSE LET c == S.clusters[name] IN
         IF \E i \in DOMAIN c.chunks : ~c.chunks[i].stable[1].some \/ ~c.chunks[i].stable[2].some
         THEN {Outcome("FREE_NODE_FOUND", S1)}
         ELSE IF IsMigrating(c) THEN {Outcome("MIGRATION_RUNNING", S1)}
         ELSE IF n = 0 \/ n % 4 # 0 \/ n >= Len(c.chunks) * 4 THEN {Outcome("INVALID_NODE_NUMBER", S1)}
         ELSE LET r == RemoveSlotsToScaleDown(c.chunks, S.gepoch + 1, n \div 4) IN
              {Outcome("OK", [S1 EXCEPT !.clusters[name].chunks = CompactChunks(AssignDst(r.chunks, r.out)),
                                        !.clusters[name].epoch = S.gepoch + 1])}

\* ---- commit_migration ----  task = [rl, tag, epoch]
AllEntries(chunks) ==      \* <<chunk idx (0-based), half (0-based), entry>> in iteration order
    FlattenSeq([c \in DOMAIN chunks |-> FlattenSeq([h \in 1..2 |->
        [k \in DOMAIN chunks[c].mig[h] |-> <<c - 1, h - 1, chunks[c].mig[h][k]>>]])])
Commit(S, name, task) ==
    IF name \notin ClusterNames(S) THEN {Outcome("CLUSTER_NOT_FOUND", S)}
    ELSE IF task.tag = "none" THEN {Outcome("INVALID_MIGRATION_TASK", S)}
    ELSE
    LET chunks == S.clusters[name].chunks
        all == AllEntries(chunks)
        srcs == {i \in DOMAIN all : all[i][3].rl = task.rl /\ all[i][3].epoch = task.epoch /\ all[i][3].out}
        dsts == {i \in DOMAIN all : all[i][3].rl = task.rl /\ all[i][3].epoch = task.epoch /\ ~all[i][3].out}
    IN IF srcs = {} \/ dsts = {} THEN {Outcome("MIGRATION_TASK_NOT_FOUND", S)}
       ELSE
       LET s == all[Min(srcs)]  d == all[Min(dsts)]
           Match(e) == e.rl = task.rl /\ e.epoch = task.epoch
                       /\ e.sc = s[1] /\ e.sp = s[2] /\ e.dc = d[1] /\ e.dp = d[2]
           \* remove every matching migrating(out) entry
           ch1 == [c \in DOMAIN chunks |->
                     [chunks[c] EXCEPT !.mig = [h \in 1..2 |->
                         SelectSeq(chunks[c].mig[h], LAMBDA e : ~(e.out /\ Match(e)))]]]
           \* first chunk (and within it first half) holding a matching importing entry
           holders == {c \in DOMAIN ch1 : \E h \in 1..2 : \E k \in DOMAIN ch1[c].mig[h] :
                           ~ch1[c].mig[h][k].out /\ Match(ch1[c].mig[h][k])}
           ch2 == IF holders = {} THEN ch1
                  ELSE LET c == Min(holders)
                           h == Min({x \in 1..2 : \E k \in DOMAIN ch1[c].mig[x] :
                                        ~ch1[c].mig[x][k].out /\ Match(ch1[c].mig[x][k])})
                           k == Min({x \in DOMAIN ch1[c].mig[h] : ~ch1[c].mig[h][x].out /\ Match(ch1[c].mig[h][x])})
                           old == ch1[c].stable[h]
                       IN [ch1 EXCEPT ![c].mig[h] = SubSeq(@, 1, k - 1) \o SubSeq(@, k + 1, Len(@)),
                                      ![c].stable[h] = [some |-> TRUE,
                                                        rl |-> IF old.some THEN RlMerge(old.rl, task.rl) ELSE task.rl]]
       IN {Outcome("OK", [S EXCEPT !.clusters[name].chunks = CompactChunks(ch2),
                                   !.clusters[name].epoch = S.gepoch + 1,
                                   !.gepoch = S.gepoch + 1])}

-----------------------------------------------------------------------------
(* Failover (replace_failed_proxy / takeover_master / generate_new_free_proxy) *)

ChunkOf(chunks, a) == CHOOSE i \in DOMAIN chunks : a \in Range(chunks[i].px)

\* takeover_master; returns the new cluster record (the global epoch is bumped by the caller)
Takeover(c, a, newEpoch) ==
    LET i == ChunkOf(c.chunks, a)
        ch == c.chunks[i]
        half == IF ch.px[1] = a THEN 1 ELSE 2
        already == (half = 1 /\ ch.role = "S") \/ (half = 2 /\ ch.role = "F")
    IN IF already THEN c
       ELSE
       LET both == (half = 1 /\ ch.role = "F") \/ (half = 2 /\ ch.role = "S")
           bumpHalves == IF both THEN {1, 2} ELSE {half}
           own == UNION {{ch.mig[h][k] : k \in DOMAIN ch.mig[h]} : h \in bumpHalves}
           peerPos == {<<e.sc, e.sp>> : e \in own} \cup {<<e.dc, e.dp>> : e \in own}
           bump(e) == IF <<e.sc, e.sp>> \in peerPos \/ <<e.dc, e.dp>> \in peerPos
                      THEN [e EXCEPT !.epoch = newEpoch] ELSE e
           chunks1 == [c.chunks EXCEPT ![i].role = IF half = 1 THEN "S" ELSE "F"]
       IN [c EXCEPT !.epoch = newEpoch,
                    !.chunks = [x \in DOMAIN chunks1 |->
                                  [chunks1[x] EXCEPT !.mig = [h \in 1..2 |->
                                      [k \in DOMAIN chunks1[x].mig[h] |-> bump(chunks1[x].mig[h][k])]]]]]

\* generate_new_free_proxy: the admissible replacement proxies (S1 = state after takeover and failed mark)
ReplacementChoices(S1, a) ==
    LET fbh == FreeByHost(S1)
        link == LinkTable(S1)
        cname == S1.proxies[a].cluster
        chunks == S1.clusters[cname].chunks
        i == ChunkOf(chunks, a)
        partnerHost == IF chunks[i].px[1] = a THEN chunks[i].hosts[2] ELSE chunks[i].hosts[1]
        failedHost == S1.proxies[a].host
        best(base) == IF base \in DOMAIN link
                      THEN LET cands == {h \in DOMAIN link[base] : h \in DOMAIN fbh /\ fbh[h] # {}}
                               better(h1, h2) == \/ link[base][h1] < link[base][h2]
                                                 \/ (link[base][h1] = link[base][h2]
                                                     /\ Cardinality(fbh[h1]) > Cardinality(fbh[h2]))
                           IN {h \in cands : \A g \in cands : ~better(g, h)}
                      ELSE {}
        hosts == IF best(partnerHost) # {} THEN best(partnerHost) ELSE best(failedHost)
    IN UNION {fbh[h] : h \in hosts}

ReplaceIn(S, cname, a, b) ==    \* put proxy b at a's chunk position
    LET chunks == S.clusters[cname].chunks
        i == ChunkOf(chunks, a)
        half == IF chunks[i].px[1] = a THEN 1 ELSE 2
        nb == S.proxies[b].nodes
    IN [chunks EXCEPT ![i].px[half] = b, ![i].hosts[half] = S.proxies[b].host,
                      ![i].nodes[2*half - 1] = nb[1], ![i].nodes[2*half] = nb[2]]

\* outcomes are <<res, S', replaced>>; canon restricts the replacement to one proxy per host
Failover(S, a, canon) ==
    IF a \notin Addrs(S) THEN {<<"PROXY_NOT_FOUND", S, FALSE>>}
    ELSE IF S.proxies[a].cluster = ""
    THEN {<<"OK", [S EXCEPT !.failed = S.failed \cup {a},
                           !.failures = IF a \in DOMAIN S.failures THEN Del(S.failures, a) ELSE S.failures], FALSE>>}
    ELSE
    LET cname == S.proxies[a].cluster
        S1 == [S EXCEPT !.gepoch = S.gepoch + 1,
                        !.clusters[cname] = Takeover(S.clusters[cname], a, S.gepoch + 1)]
    IN IF S.ordered THEN {<<"OK", [S1 EXCEPT !.gepoch = S1.gepoch + 1], FALSE>>}
       ELSE
       LET S2 == [S1 EXCEPT !.failed = S1.failed \cup {a}]
           choices == ReplacementChoices(S2, a)
           pick == IF canon THEN {CHOOSE b \in {x \in choices : S2.proxies[x].host = h} : TRUE
                                    : h \in {S2.proxies[x].host : x \in choices}}
                   ELSE choices
       IN IF choices = {} THEN {<<"NO_AVAILABLE_RESOURCE", S2, FALSE>>}
          ELSE {<<"OK", [S2 EXCEPT !.gepoch = S2.gepoch + 1,
                                   !.clusters[cname].chunks = ReplaceIn(S2, cname, a, b),
                                   !.clusters[cname].epoch = S2.gepoch + 1,
                                   !.proxies = [S2.proxies EXCEPT ![a].cluster = "", ![b].cluster = cname]],
                 TRUE>> : b \in pick}

\* ---- balance_masters ----
Balance(S, name) ==
    IF name \notin ClusterNames(S) THEN {Outcome("CLUSTER_NOT_FOUND", S)}
    ELSE LET bad == S.failed \cup DOMAIN S.failures IN
         {Outcome("OK", [S EXCEPT !.gepoch = S.gepoch + 1,
                                  !.clusters[name].epoch = S.gepoch + 1,
                                  !.clusters[name].chunks = [i \in DOMAIN @ |->
                                      IF Range(@[i].px) \cap bad # {} THEN @[i] ELSE [@[i] EXCEPT !.role = "N"]]])}

\* ---- change_config ----  newcfg = the config after applying the fields, or "invalid"
ChangeConfig(S, name, valid, newcfg) ==
    IF name \notin ClusterNames(S) THEN {Outcome("CLUSTER_NOT_FOUND", S)}
    ELSE IF IsMigrating(S.clusters[name]) THEN {Outcome("MIGRATION_RUNNING", S)}
    ELSE IF ~valid THEN {Outcome("INVALID_CONFIG", S)}
    ELSE {Outcome("OK", [S EXCEPT !.gepoch = S.gepoch + 1, !.clusters[name].epoch = S.gepoch + 1,
                                  !.clusters[name].config = newcfg])}

\* ---- failures ----
AddFailure(S, a, r) ==
    IF a \in DOMAIN S.failures /\ r \in S.failures[a] THEN {Outcome("OK", S)}
    ELSE {Outcome("OK", [S EXCEPT !.gepoch = S.gepoch + 1,
                                  !.failures = Upd(S.failures, a, (IF a \in DOMAIN S.failures THEN S.failures[a] ELSE {}) \cup {r})])}
\* get_failures with the set `expired` of <<addr, reporter>> whose report is older than the ttl
GetFailures(S, expired, quorum) ==
    LET f1 == [a \in DOMAIN S.failures |-> {r \in S.failures[a] : <<a, r>> \notin expired}]
        f2 == [a \in {x \in DOMAIN f1 : f1[x] # {}} |-> f1[a]]
    IN <<{a \in DOMAIN f2 : Cardinality(f2[a]) >= quorum /\ a \in Addrs(S)}, [S EXCEPT !.failures = f2]>>

\* ---- epochs ----
ForceBump(S, e) ==
    IF e <= S.gepoch THEN {Outcome("EPOCH_SMALLER_THAN_CURRENT", S)}
    ELSE {Outcome("OK", [S EXCEPT !.gepoch = e, !.clusters = [n \in DOMAIN @ |-> [@[n] EXCEPT !.epoch = e]]])}
\* MemBrokerService::recover_epoch(max proxy epoch m): storage adds 1, service adds 1, store takes the max
RecoverEpoch(S, m) ==
    LET e == Max2(m + 2, S.gepoch + 1) IN
    {Outcome("OK", [S EXCEPT !.gepoch = e, !.clusters = [n \in DOMAIN @ |-> [@[n] EXCEPT !.epoch = e]]])}

\* ---- auto_change_node_number (first phase of auto_scale_node_number) ----
\* outcomes <<res, S', op>> with op \in {"NoOp","ScaleOut","ScaleDown","-"}
AutoChange(S, name, n) ==
    IF name \notin ClusterNames(S) THEN {<<"CLUSTER_NOT_FOUND", S, "-">>}
    ELSE IF IsMigrating(S.clusters[name]) THEN {<<"MIGRATION_RUNNING", S, "-">>}
    ELSE LET S1 == IF DeleteFreeCode(S, name) = "" THEN DeleteFreeDo(S, name) ELSE S
             existing == Len(S1.clusters[name].chunks) * 4
         IN IF existing = n THEN {<<"OK", S1, "NoOp">>}
            ELSE IF existing < n
            THEN {<<o[1], o[2], IF o[1] = "OK" THEN "ScaleOut" ELSE "-">> : o \in ScaleUpTo(S1, name, n)}
            ELSE {<<o[1], o[2], IF o[1] = "OK" THEN "ScaleDown" ELSE "-">> : o \in ScaleDown(S1, name, n)}
\* auto_scale_out_node_number (second phase)
AutoScaleOut(S, name, n) ==
    IF name \notin ClusterNames(S) THEN {Outcome("CLUSTER_NOT_FOUND", S)}
    ELSE LET c == S.clusters[name]
             nws == 2 * Cardinality({<<i, h>> \in (DOMAIN c.chunks) \X {1, 2} : c.chunks[i].stable[h].some})
         IN IF nws >= n THEN {Outcome("OK", S)} ELSE MigrateSlots(S, name)

=============================================================================
