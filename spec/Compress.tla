------------------------------ MODULE Compress ------------------------------
(***************************************************************************)
(* C20: value compression is transparent (src/proxy/compress.rs,           *)
(* reply.rs, executor.rs).  The command-shape table: which argument is     *)
(* the value, what each read must return after each write shape, which     *)
(* commands observe stored bytes and must be refused in set_get_only.      *)
(* Values are abstract fingerprints [len, h, head].                        *)
(***************************************************************************)
EXTENDS Naturals, Sequences, FiniteSets, TLC

Strategies == {"disabled", "set_get_only", "allow_all"}
WriteShapes == {"SET", "SET_EX", "SET_PX", "SET_NX", "SET_XX", "SET_KEEPTTL", "SETEX", "PSETEX", "SETNX", "GETSET", "MSET", "MSETNX"}
Observers == {"APPEND", "STRLEN", "GETRANGE", "SETRANGE", "INCR", "BITCOUNT", "SUBSTR", "GETDEL", "GETEX", "DECRBY", "BITPOS"}

\* index (0-based, as in the code) of the value argument(s) of a write shape with n arguments
ValueIdx(shape, n) ==
    CASE shape \in {"SET", "SET_EX", "SET_PX", "SET_NX", "SET_XX", "SET_KEEPTTL", "SETNX", "GETSET"} -> {2}
      [] shape \in {"SETEX", "PSETEX"} -> {3}
      [] shape \in {"MSET", "MSETNX"} -> {i \in 2..(n-1) : i % 2 = 0}

Bulk(v) == [t |-> "bulk", v |-> v]
EmptyFp == [len |-> 0, h |-> 518760768, head |-> <<>>]

\* what a case must look like: e is the recorded case
\* the write took effect unless it is a conditional write whose condition failed (none fails in the rig:
\* NX shapes run on fresh keys, XX / KEEPTTL / GETSET on a pre-existing key)
Expected(e) ==
    [get |-> Bulk(e.v),
     mget1 |-> Bulk(e.v),
     mget2 |-> IF e.multi THEN Bulk(e.v2) ELSE [t |-> "nil", v |-> EmptyFp],
     getset |-> Bulk(e.v),          \* GETSET k v2 returns the value written before
     get2 |-> Bulk(e.v2),
     wreply |-> IF e.shape = "GETSET" THEN Bulk(e.old) ELSE [t |-> "any", v |-> EmptyFp]]
=============================================================================
