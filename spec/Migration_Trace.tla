--------------------------- MODULE Migration_Trace ---------------------------
(***************************************************************************)
(* C03 / C19: observer over executions of real live migrations recorded by *)
(* harness migrig.rs (client invocations / responses, every stand-in       *)
(* command, final contents).                                               *)
(*                                                                         *)
(* Per key the client-visible history must be linearizable to a register   *)
(* [p (present), v (string), ttl (has expiry)]; decided deterministically  *)
(* by a subset construction: the set of configurations <<register state,   *)
(* results of pending operations already linearized>> is closed under      *)
(* linearizing pending operations in any order and filtered by every       *)
(* response.  An empty set = no linearization exists.                      *)
(***************************************************************************)
EXTENDS Naturals, Sequences, FiniteSets, TLC, Json, IOUtils, SequencesExt, Functions

Rec == ndJsonDeserialize(IOEnv.TRACE)
N == Len(Rec)

VARIABLES l, viol,
          conf,     \* [key -> set of [st : State, done : [client -> result]]]
          pend,     \* [key -> [client -> [op, arg]]]
          keyinfo   \* [key -> [in, src, dst]]
vars == <<l, viol, conf, pend, keyinfo>>

Absent == [p |-> FALSE, v |-> "", ttl |-> FALSE]
IntRes(n) == [t |-> "int", v |-> ToString(n)]
StrLen(s) == Len(s)

\* the register: <<state', result>> of applying an operation
Apply(st, op, arg) ==
    CASE op = "GET" -> <<st, IF st.p THEN [t |-> "val", v |-> st.v] ELSE [t |-> "nil", v |-> ""]>>
      [] op = "SET" -> <<[p |-> TRUE, v |-> arg, ttl |-> FALSE], [t |-> "ok", v |-> "OK"]>>
      [] op = "DEL" -> <<Absent, IntRes(IF st.p THEN 1 ELSE 0)>>
      [] op = "GETDEL" -> <<Absent, IF st.p THEN [t |-> "val", v |-> st.v] ELSE [t |-> "nil", v |-> ""]>>
      [] op = "APPEND" -> LET nv == (IF st.p THEN st.v ELSE "") \o arg IN
                          <<[p |-> TRUE, v |-> nv, ttl |-> st.p /\ st.ttl], IntRes(StrLen(nv))>>
      [] op = "SETNX" -> IF st.p THEN <<st, IntRes(0)>> ELSE <<[p |-> TRUE, v |-> arg, ttl |-> FALSE], IntRes(1)>>
      [] op = "PEXPIRE" -> IF st.p THEN <<[st EXCEPT !.ttl = TRUE], IntRes(1)>> ELSE <<st, IntRes(0)>>
      [] op = "PERSIST" -> IF st.p /\ st.ttl THEN <<[st EXCEPT !.ttl = FALSE], IntRes(1)>> ELSE <<st, IntRes(0)>>

Without(f, k) == [x \in (DOMAIN f) \ {k} |-> f[x]]
With(f, k, v) == [x \in (DOMAIN f) \cup {k} |-> IF x = k THEN v ELSE f[x]]

\* linearize one more pending operation in every possible way
Expand(C, P) ==
    C \cup UNION {{LET r == Apply(cfg.st, P[c].op, P[c].arg) IN [st |-> r[1], done |-> With(cfg.done, c, r[2])]
                     : c \in (DOMAIN P) \ (DOMAIN cfg.done)} : cfg \in C}
RECURSIVE Closure(_, _)
Closure(C, P) == LET E == Expand(C, P) IN IF E = C THEN C ELSE Closure(E, P)   \* fixpoint: any number of pending clients

\* response of client c with observed result r.  An ERROR reply is indeterminate (the proxy's reply path was dropped, a
\* connection broke ...): the command may already have executed, may never execute, or may still execute LATER - it stays
\* pending for ever under a fresh identity (a "zombie", ids >= 1000) and the closure may linearize it at any later point.
Zombie(line) == 1000 + line
IsZombie(c) == c >= 1000
Respond(C, P, c, r) ==
    LET Cl == Closure(C, P) IN
    {[st |-> cfg.st, done |-> Without(cfg.done, c)] : cfg \in {x \in Cl : c \in DOMAIN x.done /\ x.done[c] = r}}
\* configurations after an error reply at trace line `line`: where the operation has been linearized it is forgotten, where it has
\* not it lives on as the zombie
RespondError(C, P, c, line) ==
    {[st |-> cfg.st, done |-> IF c \in DOMAIN cfg.done THEN With(Without(cfg.done, c), Zombie(line), cfg.done[c]) ELSE cfg.done]
        : cfg \in Closure(C, P)}

\* ---- final placement ----
NodeData(e, node) == LET i == CHOOSE i \in DOMAIN e.nodes : e.nodes[i].node = node IN e.nodes[i].data
Holders(e, k) == {e.nodes[i].node : i \in {j \in DOMAIN e.nodes : \E x \in DOMAIN e.nodes[j].data : e.nodes[j].data[x].k = k}}
Item(e, node, k) == LET d == NodeData(e, node) IN d[CHOOSE x \in DOMAIN d : d[x].k = k]
FinalMon(e) ==
    IF ~(e.committed /\ \A k \in DOMAIN pend : \A c \in DOMAIN pend[k] : IsZombie(c)) THEN {}
    ELSE UNION {
        LET F == {cfg.st : cfg \in Closure(conf[k], pend[k])}      \* zombies may or may not have executed by now
            hs == Holders(e, k)
            info == keyinfo[k]
        IN (IF Cardinality(hs) > 1 THEN {"C03.key_duplicated"} ELSE {}) \cup
           (IF info.in /\ info.src \in hs THEN {"C03.key_left_on_source"} ELSE {}) \cup
           (IF hs = {} /\ ~(\E s \in F : ~s.p) THEN {"C03.key_lost"} ELSE {}) \cup
           (IF Cardinality(hs) = 1 THEN
                LET it == Item(e, CHOOSE h \in hs : TRUE, k) IN
                (IF \E s \in F : s.p /\ s.v = it.v THEN {} ELSE
                    IF \E s \in F : ~s.p THEN {"C03.deleted_key_resurrected"} ELSE {"C03.final_value_wrong"}) \cup
                (IF info.in /\ (CHOOSE h \in hs : TRUE) # info.dst THEN {"C03.key_not_on_destination"} ELSE {}) \cup
                (IF e.directed \/ \E s \in F : s.p /\ s.v = it.v /\ (s.ttl <=> it.ttl > 0) THEN {}
                 ELSE IF \E s \in F : s.p /\ s.v = it.v THEN {"C19.expiry_class_changed"} ELSE {})
            ELSE {})
        : k \in DOMAIN conf}

\* ---- C19 on every RESTORE reaching a stand-in ----
RestoreMon(e) ==
    LET i == e.ttlinfo IN
    CASE i.pttl_kind = "neg1" -> IF i.ttl_kind = "zero" THEN {} ELSE {"C19.persistent_key_given_expiry"}
      [] i.pttl_kind = "pos" -> IF i.ttl_kind = "pos" /\ i.ttl_le_pttl THEN {}
                                ELSE IF i.ttl_kind = "zero" THEN {"C19.expiring_key_made_persistent"} ELSE {"C19.ttl_increased"}
      [] i.pttl_kind = "zero" -> IF i.ttl_kind = "pos" THEN {} ELSE {"C19.expiring_key_made_persistent"}
      \* PTTL said "no such key" and DUMP (the next command of the pipeline) found one: it was created in between; restoring it is
      \* right, and whether it should be volatile is judged at the end of the run (expiry_class_changed)
      [] i.pttl_kind = "neg2" -> {}
      [] OTHER -> {}

Init == l = 1 /\ viol = {} /\ conf = <<>> /\ pend = <<>> /\ keyinfo = <<>>

Step ==
    /\ l <= N
    /\ LET e == Rec[l] IN
       CASE e.kind = "reset" -> conf' = <<>> /\ pend' = <<>> /\ keyinfo' = <<>> /\ viol' = viol
         [] e.kind = "keys" ->
              /\ keyinfo' = [k \in {e.keys[i].k : i \in DOMAIN e.keys} |->
                               LET x == e.keys[CHOOSE i \in DOMAIN e.keys : e.keys[i].k = k] IN [in |-> x.in, src |-> x.src, dst |-> x.dst]]
              /\ UNCHANGED <<conf, pend, viol>>
         [] e.kind = "init" ->
              /\ conf' = [k \in {e.keys[i].k : i \in DOMAIN e.keys} |->
                            \* the seeding may write a key twice (the generator can draw the same key again): the last write counts
                            \* (an entry with present = FALSE is a key that was NOT written)
                            LET mine == {i \in DOMAIN e.keys : e.keys[i].k = k}
                                wr == {i \in mine : e.keys[i].present}
                                pick == IF wr = {} THEN CHOOSE i \in mine : TRUE ELSE CHOOSE i \in wr : \A j \in wr : j <= i
                                x == e.keys[pick] IN
                            {[st |-> [p |-> x.present, v |-> x.v, ttl |-> x.ttl], done |-> <<>>]}]
              /\ pend' = [k \in {e.keys[i].k : i \in DOMAIN e.keys} |-> <<>>]
              /\ UNCHANGED <<keyinfo, viol>>
         [] e.kind = "inv" /\ e.key \in DOMAIN conf ->
              /\ pend' = [pend EXCEPT ![e.key] = With(@, e.client, [op |-> e.op, arg |-> e.arg])]
              /\ UNCHANGED <<conf, keyinfo, viol>>
         [] e.kind = "resp" /\ e.key \in DOMAIN conf /\ e.result.t = "error" ->
              /\ conf' = [conf EXCEPT ![e.key] = RespondError(@, pend[e.key], e.client, l)]
              /\ pend' = [pend EXCEPT ![e.key] = With(Without(@, e.client), Zombie(l), @[e.client])]
              /\ UNCHANGED <<keyinfo, viol>>
         [] e.kind = "resp" /\ e.key \in DOMAIN conf ->
              LET C2 == Respond(conf[e.key], pend[e.key], e.client, e.result) IN
              /\ pend' = [pend EXCEPT ![e.key] = Without(@, e.client)]
              /\ IF C2 = {}
                 THEN \* not linearizable: record, then go on as if the operation had just happened with that result
                      /\ viol' = viol \cup {<<l, "C03.not_linearizable">>}
                      /\ conf' = [conf EXCEPT ![e.key] =
                                    {[st |-> Apply(cfg.st, e.op, pend[e.key][e.client].arg)[1],
                                      done |-> IF e.client \in DOMAIN cfg.done THEN Without(cfg.done, e.client) ELSE cfg.done]
                                       : cfg \in Closure(conf[e.key], pend[e.key])}]
                 ELSE viol' = viol \cup (IF e.redirects > 3 THEN {<<l, "C03.too_many_redirects">>} ELSE {}) /\ conf' = [conf EXCEPT ![e.key] = C2]
              /\ UNCHANGED keyinfo
         [] e.kind = "redis" /\ "ttlinfo" \in DOMAIN e ->
              /\ viol' = viol \cup {<<l, x>> : x \in RestoreMon(e)}
              /\ UNCHANGED <<conf, pend, keyinfo>>
         [] e.kind = "final" ->
              /\ viol' = viol \cup {<<l, x>> : x \in FinalMon(e)}
                              \cup (IF e.committed THEN {} ELSE {<<l, "L2.migration_not_completed">>})
              /\ UNCHANGED <<conf, pend, keyinfo>>
         [] OTHER -> UNCHANGED <<conf, pend, keyinfo, viol>>
    /\ l' = l + 1
    /\ (l = N) => JsonSerialize(IOEnv.OUT, [n |-> N,
                     viol |-> SetToSeq({[line |-> v[1], mon |-> v[2]] : v \in {x \in viol' : x[2] # "L2.migration_not_completed"}}),
                     div |-> SetToSeq({[line |-> v[1], mon |-> v[2]] : v \in {x \in viol' : x[2] = "L2.migration_not_completed"}})])
Spec == Init /\ [][Step]_vars
Consumed == TLCGet("stats").diameter - 1 = N
=============================================================================
