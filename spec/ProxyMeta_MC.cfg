SPECIFICATION Spec
CONSTANT MaxLen = 4
INVARIANTS AppliedIffNewer NoRegress Corresponds RefusedNoChange
CHECK_DEADLOCK FALSE
