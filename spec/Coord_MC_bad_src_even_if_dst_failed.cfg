SPECIFICATION Spec
CONSTANTS
  Coords = {c1}
  MaxEpoch = 3
  MaxFaults = 1
  Variant = "src_even_if_dst_failed"
  Features = {"migration"}
CONSTRAINT AtMost2
INVARIANTS TypeOK NeverAhead CommitOnce DstBeforeSrc Owned NoLoneFailover
PROPERTIES NoOlder 
CHECK_DEADLOCK FALSE
