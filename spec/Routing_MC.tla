----------------------------- MODULE Routing_MC -----------------------------
EXTENDS Routing
P3 == {"p1", "p2", "p3"}
VARIABLE sc
Init == sc \in Scenarios
Next == UNCHANGED sc
Spec == Init /\ [][Next]_sc
C02_Design == RoutingOK(sc)
C14_Design == AdvertisingOK(sc)
=============================================================================
