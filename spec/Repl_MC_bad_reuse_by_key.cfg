SPECIFICATION Spec
CONSTANTS
  Nodes = {n1}
  MaxInstalls = 2
  Variant = "reuse_by_key"
CONSTRAINT Bound
INVARIANT RolesOfInstalled
PROPERTY Converges
CHECK_DEADLOCK FALSE
