SPECIFICATION Spec
CONSTANTS
  Redirect = "wrapped"
  Fix = "skip_forwarded"
  Strategy = "disabled"
INVARIANTS Transparent DisabledIsPlain
CHECK_DEADLOCK FALSE
