---------------------------- MODULE Routing_Trace ----------------------------
(***************************************************************************)
(* C02 / C14: routing probes and advertised topology recorded from real    *)
(* proxies that were synchronised by the real coordinator encoder from the *)
(* real broker (harness routerig.rs), judged against the broker's served   *)
(* view recorded in the same trace.                                        *)
(***************************************************************************)
EXTENDS BrokerMon, Json, IOUtils

Rec == ndJsonDeserialize(IOEnv.TRACE)
N == Len(Rec)
VARIABLES l, cur, synced, viol, skipped,
          mode,      \* "route" | "ctl" | "recover"  (which rig produced the current run)
          inst,      \* control plane: [proxy -> [C |-> epoch, R |-> epoch]] installed since the proxy's last restart
          commits,   \* descriptors whose commit succeeded
          expect,    \* [coordinator -> [dp, sp, seen]] destination-before-source bookkeeping
          checking   \* after "converged_check": the next observation is the convergence verdict
vars == <<l, cur, synced, viol, skipped, mode, inst, commits, expect, checking>>

NoState == [kind |-> "none"]

\* ---- helpers over a cluster view V ----
Masters(V) == {n \in DOMAIN V.nodes : V.nodes[n].role = "master"}
\* <<node index, range, tag, sr>> for every interval of every slot range
Intervals(V) ==
    UNION {UNION {{[n |-> n, lo |-> V.nodes[n].slots[k].rl[i][1], hi |-> V.nodes[n].slots[k].rl[i][2],
                   tag |-> V.nodes[n].slots[k].tag, meta |-> V.nodes[n].slots[k].meta]
                    : i \in DOMAIN V.nodes[n].slots[k].rl} : k \in DOMAIN V.nodes[n].slots} : n \in DOMAIN V.nodes}
Overlaps(iv, lo, hi) == ~(iv.hi < lo \/ iv.lo > hi)
ViewOf(st, name) == st.clusters[CHOOSE i \in DOMAIN st.clusters : st.clusters[i].name = name]
HasView(st, name) == st.kind = "state" /\ \E i \in DOMAIN st.clusters : st.clusters[i].name = name

\* the node `x` may execute commands for every slot of [lo,hi] in view V at this phase
ExecOK(V, lo, hi, phase, x) ==
    LET owners == {iv \in Intervals(V) : Overlaps(iv, lo, hi) /\ iv.tag \in {"none", "migrating"}} IN
    /\ owners # {}
    /\ \A iv \in owners :
          IF iv.tag = "none" THEN x = V.nodes[iv.n].addr
          ELSE IF phase = "precheck" THEN x = iv.meta.sn
          ELSE x \in {iv.meta.sn, iv.meta.dn}
Migrating(V, lo, hi) == \E iv \in Intervals(V) : Overlaps(iv, lo, hi) /\ iv.tag = "migrating"

C02_Probe(e, st) ==
    LET V == ViewOf(st, e.cluster)  o == e.outcome IN
    (IF o.err = "" THEN {} ELSE {"C02.error_reply"}) \cup
    (IF o.err = "" /\ o.exec = "" THEN {"C02.not_executed"} ELSE {}) \cup
    (IF o.err = "" /\ o.exec # "" /\ ~ExecOK(V, e.lo, e.hi, e.phase, o.exec)
     THEN {"C02.wrong_node"} ELSE {}) \cup
    (IF o.err = "" /\ o.redirects > (IF Migrating(V, e.lo, e.hi) THEN 3 ELSE 1) THEN {"C02.too_many_redirects"} ELSE {})

\* ---- C14 ----
NodesIntervals(adv) == FlattenSeq([i \in DOMAIN adv.nodes |-> adv.nodes[i].ranges])
SlotsIntervals(adv) == [i \in DOMAIN adv.slots |-> <<adv.slots[i].lo, adv.slots[i].hi>>]
NodesMap(adv) == UNION {{<<adv.nodes[i].ranges[k][1], adv.nodes[i].ranges[k][2], adv.nodes[i].addr>>
                           : k \in DOMAIN adv.nodes[i].ranges} : i \in DOMAIN adv.nodes}
SlotsMap(adv) == {<<adv.slots[i].lo, adv.slots[i].hi, adv.slots[i].addr>> : i \in DOMAIN adv.slots}
\* proxy `x` may be advertised (by proxy p) as the owner of every slot of [lo,hi] at this phase
AdvOK(V, lo, hi, phase, p, x) ==
    LET owners == {iv \in Intervals(V) : Overlaps(iv, lo, hi) /\ iv.tag \in {"none", "migrating"}} IN
    /\ owners # {}
    /\ \A iv \in owners :
          IF iv.tag = "none" THEN x = V.nodes[iv.n].proxy
          ELSE IF phase = "precheck" /\ p \in {iv.meta.sp, iv.meta.dp} THEN x = iv.meta.sp
          ELSE x \in {iv.meta.sp, iv.meta.dp}
C14_Adv(e, st) ==
    LET V == ViewOf(st, e.cluster) IN
    IF ~e.ok THEN {"C14.error_reply"}
    ELSE
    (IF IntervalsPartition(NodesIntervals(e)) THEN {} ELSE {"C14.nodes_not_partition"}) \cup
    (IF IntervalsPartition(SlotsIntervals(e)) THEN {} ELSE {"C14.slots_not_partition"}) \cup
    (IF NodesMap(e) = SlotsMap(e) THEN {} ELSE {"C14.nodes_slots_disagree"}) \cup
    (IF \A t \in NodesMap(e) : AdvOK(V, t[1], t[2], e.phase, e.proxy, t[3])
     THEN {} ELSE {"C14.advertised_elsewhere"}) \cup
    (IF \A i \in DOMAIN e.nodes : e.nodes[i].myself <=> e.nodes[i].addr = e.proxy THEN {} ELSE {"C14.myself_flag"})

\* every up member of the cluster holds the epoch the broker serves for it
Synced(e, st) ==
    \A i \in DOMAIN e.epochs :
        \E j \in DOMAIN st.proxies : st.proxies[j].addr = e.epochs[i].proxy /\ st.proxies[j].epoch = e.epochs[i].epoch

\* ---- C07 / C13: control plane events ----
With(f, k, v) == [x \in (DOMAIN f) \cup {k} |-> IF x = k THEN v ELSE f[x]]
IsSet(e) == e.kind = "call" /\ Len(e.cmd) >= 4 /\ e.cmd[2] \in {"SETCLUSTER", "SETREPL"}
MsgKind(e) == IF e.cmd[2] = "SETCLUSTER" THEN "C" ELSE "R"
\* epoch and flags positions: SETCLUSTER v2 <epoch> <flags> ... ; SETREPL <epoch> <flags> ...
EpochTok(e) == IF e.cmd[2] = "SETCLUSTER" THEN e.cmd[4] ELSE e.cmd[3]
FlagsTok(e) == IF e.cmd[2] = "SETCLUSTER" THEN e.cmd[5] ELSE e.cmd[4]
\* decimal string -> number (epochs are small)
RECURSIVE StrToNat(_, _)
Digits == <<"0","1","2","3","4","5","6","7","8","9">>
DigitVal(c) == (CHOOSE i \in 1..10 : Digits[i] = c) - 1
StrToNat(s, acc) == IF s = "" THEN acc ELSE StrToNat(SubSeq(s, 2, Len(s)), acc * 10 + DigitVal(SubSeq(s, 1, 1)))
Installed(p, k) == IF p \in DOMAIN inst THEN inst[p][k] ELSE 0

Init == l = 1 /\ cur = NoState /\ synced = FALSE /\ viol = {} /\ skipped = 0
        /\ mode = "route" /\ inst = <<>> /\ commits = {} /\ expect = <<>> /\ checking = FALSE
Step ==
    /\ l <= N
    /\ LET e == Rec[l] IN
       CASE e.kind = "state" -> cur' = e /\ synced' = FALSE /\ UNCHANGED <<viol, skipped, mode, inst, commits, expect, checking>>
         [] e.kind = "reset" ->
              /\ cur' = NoState /\ synced' = FALSE /\ inst' = <<>> /\ commits' = {} /\ expect' = <<>> /\ checking' = FALSE
              /\ mode' = (IF "mode" \in DOMAIN e THEN e.mode ELSE "route")
              /\ UNCHANGED <<viol, skipped>>
         [] e.kind = "epochs" ->
              LET ok == cur.kind = "state" /\ Synced(e, cur) IN
              /\ synced' = ok
              /\ viol' = viol \cup (IF checking /\ ~ok
                                     THEN {<<l, IF mode = "recover" THEN "C13.not_reconverged" ELSE "C07.not_converged">>} ELSE {})
              /\ UNCHANGED <<cur, skipped, mode, inst, commits, expect, checking>>
         [] e.kind = "probe" ->
              IF synced /\ HasView(cur, e.cluster)
              THEN LET v == C02_Probe(e, cur) IN
                   /\ viol' = viol \cup {<<l, x>> : x \in v}
                                    \cup (IF checking /\ v # {} THEN {<<l, IF mode = "recover" THEN "C13.routing_wrong_after_recovery"
                                                                          ELSE "C07.routing_differs_after_convergence">>} ELSE {})
                   /\ UNCHANGED <<cur, synced, skipped, mode, inst, commits, expect, checking>>
              ELSE skipped' = skipped + 1 /\ UNCHANGED <<cur, synced, viol, mode, inst, commits, expect, checking>>
         [] e.kind = "adv" ->
              IF synced /\ HasView(cur, e.cluster)
              THEN viol' = viol \cup {<<l, x>> : x \in C14_Adv(e, cur)} /\ UNCHANGED <<cur, synced, skipped, mode, inst, commits, expect, checking>>
              ELSE skipped' = skipped + 1 /\ UNCHANGED <<cur, synced, viol, mode, inst, commits, expect, checking>>
         [] e.kind = "restart" -> inst' = With(inst, e.proxy, [C |-> 0, R |-> 0]) /\ UNCHANGED <<cur, synced, viol, skipped, mode, commits, expect, checking>>
         [] IsSet(e) ->
              LET k == MsgKind(e)  ep == StrToNat(EpochTok(e), 0)  p == e.to
                  ok == e.reply.t = "simple"
                  forced == FlagsTok(e) \in {"FORCE", "FORCE,COMPRESS"}
                  \* destination-before-source: a coordinator that has just committed a migration
                  who == e.from
                  ex == IF who \in DOMAIN expect THEN expect[who] ELSE [dp |-> "", sp |-> "", seen |-> TRUE]
              IN /\ viol' = viol
                       \cup (IF ok /\ ~forced /\ ep <= Installed(p, k) THEN {<<l, "C07.older_metadata_installed">>} ELSE {})
                       \cup (IF ~ex.seen /\ p = ex.sp /\ ex.sp # ex.dp THEN {<<l, "C07.source_updated_before_destination">>} ELSE {})
                 /\ inst' = IF ok THEN With(inst, p, [C |-> IF k = "C" THEN ep ELSE Installed(p, "C"),
                                                      R |-> IF k = "R" THEN ep ELSE Installed(p, "R")]) ELSE inst
                 /\ expect' = IF who \in DOMAIN expect /\ p = ex.dp THEN With(expect, who, [ex EXCEPT !.seen = TRUE]) ELSE expect
                 /\ UNCHANGED <<cur, synced, skipped, mode, commits, checking>>
         [] e.kind = "bcall" /\ e.call = "commit_migration" ->
              LET d == <<e.arg.rl, e.arg.meta.epoch>>
                  firstOk == e.res.first = "OK"
                  secondOk == e.res.second = "OK"
              IN /\ viol' = viol \cup (IF (firstOk /\ d \in commits) \/ (firstOk /\ secondOk) THEN {<<l, "C07.committed_twice">>} ELSE {})
                 /\ commits' = IF firstOk \/ secondOk THEN commits \cup {d} ELSE commits
                 /\ expect' = With(expect, e.who, [dp |-> e.arg.meta.dp, sp |-> e.arg.meta.sp, seen |-> FALSE])
                 /\ UNCHANGED <<cur, synced, skipped, mode, inst, checking>>
         [] e.kind = "round" -> expect' = (IF e.who \in DOMAIN expect THEN With(expect, e.who, [dp |-> "", sp |-> "", seen |-> TRUE]) ELSE expect)
                                /\ UNCHANGED <<cur, synced, viol, skipped, mode, inst, commits, checking>>
         [] e.kind = "recover" ->
              /\ viol' = viol \cup
                    (IF e.all_seen /\ ~(\A i \in DOMAIN e.served : \A j \in DOMAIN e.proxy_epochs : e.served[i].epoch > e.proxy_epochs[j].epoch)
                     THEN {<<l, "C13.recovered_epoch_not_greater">>} ELSE {})
                 \cup
                    \* free proxies are served with the global epoch and new clusters start above it: a recovered global epoch that
                    \* is not above every installed epoch means some subsequently served view is not newer than what a proxy holds
                    (IF e.all_seen /\ "gepoch_rec" \in DOMAIN e /\ ~(\A j \in DOMAIN e.proxy_epochs : e.gepoch_rec > e.proxy_epochs[j].epoch)
                     THEN {<<l, "C13.recovered_global_epoch_not_greater">>} ELSE {})
              \* the broker went back to an earlier snapshot: migrations committed in the lost part of the history
              \* are pending again and will legitimately be committed a second time
              /\ commits' = {}
              /\ UNCHANGED <<cur, synced, skipped, mode, inst, expect, checking>>
         [] e.kind = "converged_check" ->
              /\ checking' = TRUE
              /\ viol' = viol \cup (IF e.still_migrating THEN {<<l, IF mode = "recover" THEN "C13.migration_stuck_after_recovery" ELSE "C07.migration_not_finished">>} ELSE {})
              /\ UNCHANGED <<cur, synced, skipped, mode, inst, commits, expect>>
         [] e.kind = "roles" ->
              \* C07 / C13: after convergence the replication roles a proxy holds (UMCTL INFOREPL) are exactly the roles of its nodes in
              \* the broker's current view (the state record just before); each reported node has one role record
              LET dup == \E i \in DOMAIN e.proxies : \E a, b \in DOMAIN e.proxies[i].roles :
                              a # b /\ e.proxies[i].roles[a].node = e.proxies[i].roles[b].node
                  V == IF HasView(cur, e.cluster) THEN ViewOf(cur, e.cluster) ELSE [nodes |-> <<>>]
                  PeerStr(x) == x.node \o "@" \o x.proxy
                  Want(p) == {<<V.nodes[n].addr, V.nodes[n].role, {PeerStr(V.nodes[n].peers[j]) : j \in DOMAIN V.nodes[n].peers}>>
                                : n \in {m \in DOMAIN V.nodes : V.nodes[m].proxy = p}}
                  Have(i) == {<<e.proxies[i].roles[k].node, e.proxies[i].roles[k].role,
                                {e.proxies[i].roles[k].peers[j] : j \in DOMAIN e.proxies[i].roles[k].peers}>> : k \in DOMAIN e.proxies[i].roles}
                  differ == checking /\ HasView(cur, e.cluster) /\ \E i \in DOMAIN e.proxies : Have(i) # Want(e.proxies[i].proxy)
              IN
              /\ viol' = viol \cup (IF dup THEN {<<l, "C07.duplicate_role_record">>} ELSE {})
                              \cup (IF differ THEN {<<l, IF mode = "recover" THEN "C13.replication_roles_differ_after_recovery"
                                                        ELSE "C07.replication_roles_differ_after_convergence">>} ELSE {})
              /\ UNCHANGED <<cur, synced, skipped, mode, inst, commits, expect, checking>>
         [] e.kind = "redis_roles" ->
              \* L2 (spec/Repl.tla Settled; monitor names starting with "L2." are reported as divergences, never as violations):
              \* one replicator period after convergence every reachable Redis node is what the broker's view says: a master is
              \* nobody's replica, a replica follows the master named in its peer record
              LET V == IF HasView(cur, e.cluster) THEN ViewOf(cur, e.cluster) ELSE [nodes |-> <<>>]
                  WantOf(a) == LET ns == {n \in DOMAIN V.nodes : V.nodes[n].addr = a} IN
                               IF ns = {} THEN "?" ELSE LET n == CHOOSE x \in ns : TRUE IN
                               IF V.nodes[n].role = "master" THEN "" ELSE IF Len(V.nodes[n].peers) >= 1 THEN V.nodes[n].peers[1].node ELSE "?"
                  bad == checking /\ HasView(cur, e.cluster) /\ \E i \in DOMAIN e.nodes : WantOf(e.nodes[i].node) \notin {"?", e.nodes[i].master_of}
              IN /\ viol' = viol \cup (IF bad THEN {<<l, "L2.redis_role_differs_from_view">>} ELSE {})
                 /\ UNCHANGED <<cur, synced, skipped, mode, inst, commits, expect, checking>>
         [] e.kind = "ctl_end" -> checking' = FALSE /\ UNCHANGED <<cur, synced, viol, skipped, mode, inst, commits, expect>>
         [] OTHER -> UNCHANGED <<cur, synced, viol, skipped, mode, inst, commits, expect, checking>>
    /\ l' = l + 1
    /\ (l = N) => JsonSerialize(IOEnv.OUT, [n |-> N, skipped |-> skipped',
                     viol |-> SetToSeq({[line |-> v[1], mon |-> v[2]] : v \in viol'}), div |-> <<>>])
Spec == Init /\ [][Step]_vars
Consumed == TLCGet("stats").diameter - 1 = N
=============================================================================
