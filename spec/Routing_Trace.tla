---------------------------- MODULE Routing_Trace ----------------------------
(***************************************************************************)
(* C02 / C14: routing probes and advertised topology recorded from real    *)
(* proxies that were synchronised by the real coordinator encoder from the *)
(* real broker (harness routerig.rs), judged against the broker's served   *)
(* view recorded in the same trace.                                        *)
(***************************************************************************)
EXTENDS BrokerMon, Json, IOUtils

Rec == ndJsonDeserialize(IOEnv.TRACE)
N == Len(Rec)
VARIABLES l, cur, synced, viol, skipped
vars == <<l, cur, synced, viol, skipped>>

NoState == [kind |-> "none"]

\* ---- helpers over a cluster view V ----
Masters(V) == {n \in DOMAIN V.nodes : V.nodes[n].role = "master"}
\* <<node index, range, tag, sr>> for every interval of every slot range
Intervals(V) ==
    UNION {UNION {{[n |-> n, lo |-> V.nodes[n].slots[k].rl[i][1], hi |-> V.nodes[n].slots[k].rl[i][2],
                   tag |-> V.nodes[n].slots[k].tag, meta |-> V.nodes[n].slots[k].meta]
                    : i \in DOMAIN V.nodes[n].slots[k].rl} : k \in DOMAIN V.nodes[n].slots} : n \in DOMAIN V.nodes}
Overlaps(iv, lo, hi) == ~(iv.hi < lo \/ iv.lo > hi)
ViewOf(st, name) == st.clusters[CHOOSE i \in DOMAIN st.clusters : st.clusters[i].name = name]
HasView(st, name) == st.kind = "state" /\ \E i \in DOMAIN st.clusters : st.clusters[i].name = name

\* the node `x` may execute commands for every slot of [lo,hi] in view V at this phase
ExecOK(V, lo, hi, phase, x) ==
    LET owners == {iv \in Intervals(V) : Overlaps(iv, lo, hi) /\ iv.tag \in {"none", "migrating"}} IN
    /\ owners # {}
    /\ \A iv \in owners :
          IF iv.tag = "none" THEN x = V.nodes[iv.n].addr
          ELSE IF phase = "precheck" THEN x = iv.meta.sn
          ELSE x \in {iv.meta.sn, iv.meta.dn}
Migrating(V, lo, hi) == \E iv \in Intervals(V) : Overlaps(iv, lo, hi) /\ iv.tag = "migrating"

C02_Probe(e, st) ==
    LET V == ViewOf(st, e.cluster)  o == e.outcome IN
    (IF o.err = "" THEN {} ELSE {"C02.error_reply"}) \cup
    (IF o.err = "" /\ o.exec = "" THEN {"C02.not_executed"} ELSE {}) \cup
    (IF o.err = "" /\ o.exec # "" /\ ~ExecOK(V, e.lo, e.hi, e.phase, o.exec)
     THEN {"C02.wrong_node"} ELSE {}) \cup
    (IF o.err = "" /\ o.redirects > (IF Migrating(V, e.lo, e.hi) THEN 3 ELSE 1) THEN {"C02.too_many_redirects"} ELSE {})

\* ---- C14 ----
NodesIntervals(adv) == FlattenSeq([i \in DOMAIN adv.nodes |-> adv.nodes[i].ranges])
SlotsIntervals(adv) == [i \in DOMAIN adv.slots |-> <<adv.slots[i].lo, adv.slots[i].hi>>]
NodesMap(adv) == UNION {{<<adv.nodes[i].ranges[k][1], adv.nodes[i].ranges[k][2], adv.nodes[i].addr>>
                           : k \in DOMAIN adv.nodes[i].ranges} : i \in DOMAIN adv.nodes}
SlotsMap(adv) == {<<adv.slots[i].lo, adv.slots[i].hi, adv.slots[i].addr>> : i \in DOMAIN adv.slots}
\* proxy `x` may be advertised (by proxy p) as the owner of every slot of [lo,hi] at this phase
AdvOK(V, lo, hi, phase, p, x) ==
    LET owners == {iv \in Intervals(V) : Overlaps(iv, lo, hi) /\ iv.tag \in {"none", "migrating"}} IN
    /\ owners # {}
    /\ \A iv \in owners :
          IF iv.tag = "none" THEN x = V.nodes[iv.n].proxy
          ELSE IF phase = "precheck" /\ p \in {iv.meta.sp, iv.meta.dp} THEN x = iv.meta.sp
          ELSE x \in {iv.meta.sp, iv.meta.dp}
C14_Adv(e, st) ==
    LET V == ViewOf(st, e.cluster) IN
    IF ~e.ok THEN {"C14.error_reply"}
    ELSE
    (IF IntervalsPartition(NodesIntervals(e)) THEN {} ELSE {"C14.nodes_not_partition"}) \cup
    (IF IntervalsPartition(SlotsIntervals(e)) THEN {} ELSE {"C14.slots_not_partition"}) \cup
    (IF NodesMap(e) = SlotsMap(e) THEN {} ELSE {"C14.nodes_slots_disagree"}) \cup
    (IF \A t \in NodesMap(e) : AdvOK(V, t[1], t[2], e.phase, e.proxy, t[3])
     THEN {} ELSE {"C14.advertised_elsewhere"}) \cup
    (IF \A i \in DOMAIN e.nodes : e.nodes[i].myself <=> e.nodes[i].addr = e.proxy THEN {} ELSE {"C14.myself_flag"})

\* every up member of the cluster holds the epoch the broker serves for it
Synced(e, st) ==
    \A i \in DOMAIN e.epochs :
        \E j \in DOMAIN st.proxies : st.proxies[j].addr = e.epochs[i].proxy /\ st.proxies[j].epoch = e.epochs[i].epoch

Init == l = 1 /\ cur = NoState /\ synced = FALSE /\ viol = {} /\ skipped = 0
Step ==
    /\ l <= N
    /\ LET e == Rec[l] IN
       CASE e.kind = "state" -> cur' = e /\ synced' = FALSE /\ UNCHANGED <<viol, skipped>>
         [] e.kind = "reset" -> cur' = NoState /\ synced' = FALSE /\ UNCHANGED <<viol, skipped>>
         [] e.kind = "epochs" -> synced' = (cur.kind = "state" /\ Synced(e, cur)) /\ UNCHANGED <<cur, viol, skipped>>
         [] e.kind = "probe" ->
              IF synced /\ HasView(cur, e.cluster)
              THEN viol' = viol \cup {<<l, x>> : x \in C02_Probe(e, cur)} /\ UNCHANGED <<cur, synced, skipped>>
              ELSE skipped' = skipped + 1 /\ UNCHANGED <<cur, synced, viol>>
         [] e.kind = "adv" ->
              IF synced /\ HasView(cur, e.cluster)
              THEN viol' = viol \cup {<<l, x>> : x \in C14_Adv(e, cur)} /\ UNCHANGED <<cur, synced, skipped>>
              ELSE skipped' = skipped + 1 /\ UNCHANGED <<cur, synced, viol>>
         [] OTHER -> UNCHANGED <<cur, synced, viol, skipped>>
    /\ l' = l + 1
    /\ (l = N) => JsonSerialize(IOEnv.OUT, [n |-> N, skipped |-> skipped',
                     viol |-> SetToSeq({[line |-> v[1], mon |-> v[2]] : v \in viol'}), div |-> <<>>])
Spec == Init /\ [][Step]_vars
Consumed == TLCGet("stats").diameter - 1 = N
=============================================================================
