-------------------------------- MODULE Repl --------------------------------
(***************************************************************************)
(* Replication roles from the proxy down to the Redis nodes                 *)
(* (src/replication/manager.rs, redis_replicator.rs).                       *)
(*                                                                         *)
(* Every accepted SETREPL installs a role per local node.  For a node whose *)
(* (role, peers) did not change the running replicator is REUSED; otherwise *)
(* the old replicator is dropped (its future is cancelled at its next await,*)
(* a command it has already written may still arrive) and a new one is      *)
(* spawned.  A replicator re-sends its command for ever: `SLAVEOF NO ONE`   *)
(* for a master, `SLAVEOF host port` for a replica, every 5 s.              *)
(*                                                                         *)
(* What the design buys: although commands of dropped replicators can       *)
(* arrive late and overwrite a newer role at the Redis node, the periodic   *)
(* re-assertion makes every node end up in the role of the last accepted    *)
(* message (Converges).  A replicator that sends once and stops             *)
(* (Variant = "send_once") does not have this property.                     *)
(***************************************************************************)
EXTENDS Naturals, FiniteSets, TLC

CONSTANTS Nodes, MaxInstalls, Variant     \* Variant: "asbuilt" | "send_once" | "reuse_by_key"

Roles == {"master", "replicaA", "replicaB"}      \* replica of peer A / of peer B (the peer is part of the metadata)

VARIABLES want,      \* [Nodes -> Roles \cup {"none"}]   roles of the installed message (replicators.1)
          live,      \* [Nodes -> Roles \cup {"none"}]   role the node's running replicator asserts
          sent,      \* [Nodes -> Nat]                   how many commands the running replicator has sent
          flight,    \* set of [node, role, n]           commands on their way to the Redis nodes
          redis,     \* [Nodes -> Roles \cup {"none"}]   what the Redis node currently is
          installs, seq
vars == <<want, live, sent, flight, redis, installs, seq>>

Init == /\ want = [n \in Nodes |-> "none"] /\ live = [n \in Nodes |-> "none"] /\ sent = [n \in Nodes |-> 0]
        /\ flight = {} /\ redis = [n \in Nodes |-> "none"] /\ installs = 0 /\ seq = 0

\* update_replicators under the write lock: reuse when key and metadata are equal, otherwise drop + spawn
Install(r) == /\ installs < MaxInstalls /\ r \in [Nodes -> Roles]
              /\ want' = r /\ installs' = installs + 1
              /\ LET reuse(n) == IF Variant = "reuse_by_key" THEN live[n] # "none" /\ (live[n] = "master") = (r[n] = "master")
                                 ELSE live[n] = r[n] IN
                 /\ live' = [n \in Nodes |-> IF reuse(n) THEN live[n] ELSE r[n]]
                 /\ sent' = [n \in Nodes |-> IF reuse(n) THEN sent[n] ELSE 0]
              /\ UNCHANGED <<flight, redis, seq>>
\* the running replicator of a node (re)sends its command
Send(n) == /\ live[n] # "none"
           /\ Variant = "send_once" => sent[n] = 0
           /\ flight' = flight \cup {[node |-> n, role |-> live[n], n |-> seq]} /\ seq' = seq + 1
           /\ sent' = [sent EXCEPT ![n] = IF @ < 2 THEN @ + 1 ELSE @]
           /\ UNCHANGED <<want, live, redis, installs>>
\* a command arrives at its Redis node (commands of dropped replicators too, in any order)
Arrive(c) == /\ c \in flight /\ flight' = flight \ {c}
             /\ redis' = [redis EXCEPT ![c.node] = c.role]
             /\ UNCHANGED <<want, live, sent, installs, seq>>

Next == (\E r \in [Nodes -> Roles] : Install(r)) \/ (\E n \in Nodes : Send(n)) \/ (\E c \in flight : Arrive(c))
Bound == Cardinality(flight) <= 2 /\ seq <= 6
Spec == Init /\ [][Next]_vars /\ \A n \in Nodes : WF_vars(Send(n)) /\ \A c \in [node : Nodes, role : Roles, n : 0..6] : WF_vars(Arrive(c))

\* C05 at the proxy: the replicators that run are those of the installed message
RolesOfInstalled == \A n \in Nodes : live[n] = want[n]
\* eventually every Redis node holds the role of the last accepted message (once installs stop)
Settled == \A n \in Nodes : redis[n] = want[n]
Converges == <>[](installs = MaxInstalls => Settled) \/ []<>(installs < MaxInstalls)
ConvergesStrict == (installs = MaxInstalls) ~> [](Settled \/ flight # {})
=============================================================================
