SPECIFICATION Spec
CONSTANT DefaultConfig <- DefaultConfigVal
POSTCONDITION Consumed
CHECK_DEADLOCK FALSE
