SPECIFICATION Spec
CONSTANTS
  Proxies = {p1, p2}
  MaxEpoch = 4
  MaxFaults = 2
INVARIANT NeverAhead
PROPERTIES NoOlder RecoveredAhead Converges
CHECK_DEADLOCK FALSE
