CONSTANTS
 Scenario = 1
 InitTtl = "none"
 Variant = "no_key_lock"
 GetdelBlocking = TRUE
 OwnerSwitch = "sync"
 Ops <- MCOps
 Kind <- MCKind
SPECIFICATION Spec
INVARIANT NoStaleRead
INVARIANT FinalPlacement
INVARIANT TtlKept
CHECK_DEADLOCK FALSE
