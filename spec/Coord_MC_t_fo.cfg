SPECIFICATION Spec
CONSTANTS
  Coords = {c1,c2}
  MaxEpoch = 2
  MaxFaults = 1
  Variant = "asbuilt"
  Features = {"failover","crash","lostreply"}

INVARIANTS TypeOK NeverAhead CommitOnce DstBeforeSrc Owned NoLoneFailover
PROPERTIES NoOlder 
CHECK_DEADLOCK FALSE
