------------------------------- MODULE Resp_MC -------------------------------
(* Spec-level check of the grammar oracle on an enumerated value space:
   round trip, every proper prefix is incomplete, concatenation consumes exactly the first value. *)
EXTENDS Resp
Payloads == {<<>>, <<97>>, <<13>>, <<10>>, <<36>>, <<97, 13>>, <<13, 10>>, <<10, 97>>, <<36, 49>>, <<97, 13, 10>>}
LinePayloads == {<<>>, <<97>>, <<49, 50>>, <<45, 49>>, <<97, 13>>}       \* no LF inside a line
Leaves == {[t |-> "simple", s |-> s] : s \in LinePayloads} \cup {[t |-> "error", s |-> s] : s \in LinePayloads}
          \cup {[t |-> "int", s |-> s] : s \in {<<49>>, <<45, 49>>, <<49, 50>>}}
          \cup {[t |-> "bulk", s |-> s] : s \in Payloads} \cup {[t |-> "nilbulk"], [t |-> "nilarr"]}
SmallLeaves == {[t |-> "simple", s |-> <<97>>], [t |-> "int", s |-> <<49>>], [t |-> "bulk", s |-> <<13, 10>>],
                [t |-> "bulk", s |-> <<>>], [t |-> "nilbulk"], [t |-> "nilarr"]}
Arr1 == {[t |-> "arr", a |-> <<>>]} \cup {[t |-> "arr", a |-> <<x>>] : x \in SmallLeaves}
        \cup {[t |-> "arr", a |-> <<x, y>>] : x \in SmallLeaves, y \in SmallLeaves}
Arr2 == {[t |-> "arr", a |-> <<x, y>>] : x \in Arr1, y \in SmallLeaves} \cup {[t |-> "arr", a |-> <<x>>] : x \in Arr1}
Values == Leaves \cup Arr1 \cup Arr2

VARIABLE v
Init == v \in Values
Next == UNCHANGED v
Spec == Init /\ [][Next]_v

RoundTrip == Dec(Enc(v)) = Ok(v, Len(Enc(v)))
PrefixIncomplete == \A n \in 0..(Len(Enc(v)) - 1) : Dec(SubSeq(Enc(v), 1, n)).k = "incomplete"
ConcatFirst == \A w \in SmallLeaves : Dec(Enc(v) \o Enc(w)) = Ok(v, Len(Enc(v)))
StreamAll == \A w \in SmallLeaves : DecAll(Enc(v) \o Enc(w), <<>>) = [pkts |-> <<v, w>>, end |-> "incomplete", rest |-> 0]
=============================================================================
