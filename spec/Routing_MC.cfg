SPECIFICATION Spec
CONSTANT P <- P3
INVARIANTS C02_Design C14_Design
CHECK_DEADLOCK FALSE
