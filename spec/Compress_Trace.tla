--------------------------- MODULE Compress_Trace ---------------------------
EXTENDS Compress, Json, IOUtils, SequencesExt
Rec == ndJsonDeserialize(IOEnv.TRACE)
N == Len(Rec)
VARIABLES l, viol
vars == <<l, viol>>

Same(r, x) == r.t = x.t /\ r.v = x.v
Mon(e) ==
    CASE e.kind = "wr" ->
            LET x == Expected(e) IN
            (IF e.wreply.t = "error" THEN {"C20.write_refused"} ELSE {}) \cup
            (IF e.shape = "GETSET" /\ ~Same(e.wreply, x.wreply) THEN {"C20.getset_old_value_altered"} ELSE {}) \cup
            (IF Same(e.get, x.get) THEN {} ELSE {"C20.get_differs"}) \cup
            (IF e.mget.t = "arr" /\ Len(e.mget.a) = 2 /\ Same(e.mget.a[1], x.mget1) /\ Same(e.mget.a[2], x.mget2)
             THEN {} ELSE {"C20.mget_differs"}) \cup
            (IF Same(e.getset, x.getset) THEN {} ELSE {"C20.getset_differs"}) \cup
            (IF Same(e.get2, x.get2) THEN {} ELSE {"C20.get_after_getset_differs"}) \cup
            \* key and options reached the backend untouched
            (IF e.stored.present THEN {} ELSE {"C20.key_altered"}) \cup
            (IF e.stored.present /\ e.stored.ttl # e.expect_ttl THEN {"C20.option_altered"} ELSE {}) \cup
            (IF e.strategy = "disabled" /\ e.stored.present /\ e.stored.raw # e.v THEN {"C20.disabled_but_altered"} ELSE {}) \cup
            \* non-string replies
            (IF e.exists = [t |-> "int", s |-> "1"] THEN {} ELSE {"C20.int_reply_altered"}) \cup
            (IF e.del = [t |-> "int", s |-> "1"] THEN {} ELSE {"C20.int_reply_altered"}) \cup
            (IF e.ttl_k2.t = "int" THEN {} ELSE {"C20.int_reply_altered"})
      [] e.kind = "observer" ->
            IF e.strategy = "set_get_only"
            THEN (IF e.reply.t = "error" THEN {} ELSE {"C20.observer_not_refused"}) \cup
                 (IF e.reached_backend THEN {"C20.observer_reached_backend"} ELSE {})
            ELSE IF e.strategy = "disabled" /\ ~e.reached_backend THEN {"C20.refused_while_disabled"} ELSE {}
      [] e.kind = "cross" ->
            \* "through any proxy of the cluster": written through one proxy (which may have to redirect or forward),
            \* read through the other one and through the same one
            (IF e.wreply.t = "error" THEN {"C20.cross_write_refused"} ELSE {}) \cup
            (IF e.get_other.t = "bulk" /\ e.get_other.v = e.v THEN {} ELSE {"C20.cross_get_other_proxy_differs"}) \cup
            (IF e.get_same.t = "bulk" /\ e.get_same.v = e.v THEN {} ELSE {"C20.cross_get_same_proxy_differs"}) \cup
            (IF e.mget_other.t = "arr" /\ Len(e.mget_other.a) = 1 /\ e.mget_other.a[1].t = "bulk" /\ e.mget_other.a[1].v = e.v
             THEN {} ELSE {"C20.cross_mget_differs"})
      [] OTHER -> {}

Init == l = 1 /\ viol = {}
Step ==
    /\ l <= N
    /\ viol' = viol \cup {<<l, x>> : x \in Mon(Rec[l])}
    /\ l' = l + 1
    /\ (l = N) => JsonSerialize(IOEnv.OUT, [n |-> N, viol |-> SetToSeq({[line |-> v[1], mon |-> v[2]] : v \in viol'}), div |-> <<>>])
Spec == Init /\ [][Step]_vars
Consumed == TLCGet("stats").diameter - 1 = N
=============================================================================
