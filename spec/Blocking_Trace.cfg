SPECIFICATION TSpec
CONSTANTS
  Senders <- TrSenders
  Blockers <- TrBlockers
  Target <- TrTarget
  MaxTries = 3
  defaultInitValue = "dflt"
POSTCONDITION Consumed
CHECK_DEADLOCK FALSE
