SPECIFICATION Spec
CONSTANTS
  Coords = {c1}
  MaxEpoch = 3
  MaxFaults = 1
  Variant = "asbuilt"
  Features = {"failover","restart","crash","lostreply"}

INVARIANTS TypeOK NeverAhead CommitOnce DstBeforeSrc Owned NoLoneFailover
PROPERTIES NoOlder Converges
CHECK_DEADLOCK FALSE
