----------------------------- MODULE Resp_Trace -----------------------------
(***************************************************************************)
(* C15: every case recorded from the real RESP codec (harness resprig.rs)  *)
(* is compared with the grammar oracle of Resp.tla.                        *)
(***************************************************************************)
EXTENDS Resp, Json, IOUtils, SequencesExt

Rec == ndJsonDeserialize(IOEnv.TRACE)
N == Len(Rec)
VARIABLES l, viol
vars == <<l, viol>>

\* the first position where the implementation's packets differ from the oracle's
Prefix(a, b) == Len(a) <= Len(b) /\ \A i \in DOMAIN a : a[i] = b[i]

StreamMon(e, exp) ==
    (IF e.panic THEN {"C15.panic"} ELSE {}) \cup
    (IF e.panic \/ e.pkts = exp.pkts THEN {}
     ELSE IF Prefix(exp.pkts, e.pkts) /\ exp.end = "error" THEN {"C15.accepted_non_resp"}
     ELSE IF Prefix(e.pkts, exp.pkts) /\ e.end = "error" THEN {"C15.rejected_valid"}
     ELSE IF Prefix(e.pkts, exp.pkts) /\ e.end = "incomplete" THEN {"C15.packet_not_delivered"}
     ELSE {"C15.decoded_different_value"}) \cup
    (IF ~e.panic /\ e.pkts = exp.pkts /\ ~(e.end = exp.end \/ (exp.end = "error" /\ e.end = "incomplete"))
     THEN {"C15.rejected_valid"} ELSE {}) \cup
    (IF ~e.panic /\ e.pkts = exp.pkts /\ e.end = "incomplete" /\ exp.end = "incomplete" /\ e.rest # exp.rest
     THEN {"C15.consumed_incomplete"} ELSE {}) \cup
    (IF e.fwd THEN {} ELSE {"C15.forward_modified"}) \cup
    (IF e.split_ok THEN {} ELSE {"C15.split_dependent"})

FlattenGot(g) == FlattenSeq([i \in DOMAIN g |-> g[i].v])

Mon(e) ==
    CASE e.kind \in {"bytes", "mutated"} -> StreamMon(e, DecAll(e.in, <<>>))
      [] e.kind = "value" ->
            (IF e.in = Enc(e.val) THEN {} ELSE {"C15.encode_mismatch"}) \cup
            StreamMon(e, [pkts |-> <<e.val>>, end |-> "incomplete", rest |-> 0]) \cup
            (IF DecAll(e.in, <<>>) = [pkts |-> <<e.val>>, end |-> "incomplete", rest |-> 0] THEN {} ELSE {"C15.oracle_roundtrip"})
      [] e.kind = "pipeline" -> StreamMon(e, [pkts |-> e.vals, end |-> "incomplete", rest |-> 0])
      [] e.kind = "multi" ->
            (IF e.status = "ok" /\ e.done /\ e.rest = 0 THEN {} ELSE {"C15.multi_incomplete"}) \cup
            (IF FlattenGot(e.got) = e.vals THEN {} ELSE {"C15.multi_values"}) \cup
            (IF Len(e.got) = Len(e.groups) /\ \A i \in DOMAIN e.got :
                    e.got[i].g = e.groups[i] /\ Len(e.got[i].v) = (IF e.groups[i] = 0 THEN 1 ELSE e.groups[i])
             THEN {} ELSE {"C15.multi_grouping"})
      [] OTHER -> {"C15.unknown_case"}

Init == l = 1 /\ viol = {}
Step ==
    /\ l <= N
    /\ viol' = viol \cup {<<l, x>> : x \in Mon(Rec[l])}
    /\ l' = l + 1
    /\ (l = N) => JsonSerialize(IOEnv.OUT, [n |-> N, viol |-> SetToSeq({[line |-> v[1], mon |-> v[2]] : v \in viol'}), div |-> <<>>])
Spec == Init /\ [][Step]_vars
Consumed == TLCGet("stats").diameter - 1 = N
=============================================================================
