SPECIFICATION Spec
CONSTANTS
  DefaultConfig <- DefaultConfigVal
  HostsOf <- HostsQuick
  MaxSteps = 3
  Scenarios <- ScenQuick
  Ordered = FALSE
CONSTRAINT Bound
INVARIANTS StateOK CheckOK
PROPERTY StepProp
CHECK_DEADLOCK FALSE
