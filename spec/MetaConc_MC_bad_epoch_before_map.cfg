SPECIFICATION Spec
CONSTANTS
  Msgs <- M_nf
  Variant = "epoch_before_map"
INVARIANTS CInstallsNewer RInstallsNewer ReaderConsistent ReplReaderConsistent RepliesTruthful FinalC FinalR RefusalsJustified 
CHECK_DEADLOCK FALSE
