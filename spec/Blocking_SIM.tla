---------------------------- MODULE Blocking_SIM ----------------------------
(* Schedule generation for the C11 rig: tlc -simulate prints, for every finished behaviour of the
   PlusCal algorithm, the order in which the processes took their steps. *)
EXTENDS Blocking_MC, Json
\* ---- schedule generation for the harness (tlc -simulate): the order in which processes step ----
VARIABLE hist
HNext == \E p \in ProcSet :
            /\ \/ (p \in Senders /\ (sender(p) \/ release_all(p)))
               \/ (p \in Blockers /\ (blocker(p) \/ release_all(p)))
               \/ (p = "redis" /\ completer)
            /\ hist' = Append(hist, p)
HSpec == Init /\ hist = <<>> /\ [][HNext]_<<vars, hist>>
Finished == (\A p \in Senders \cup Blockers : pc[p] = "Done") /\ innerSent = completed
SimConstraint == Finished => (PrintT(<<"SCHED", ToJson(hist)>>) /\ FALSE)
=============================================================================
