CONSTANTS
 N = 4
 K = 1
 MaxGen = 4
 MaxRetry = 2
 Variant = "code"
SPECIFICATION Spec
PROPERTY SendOnce
INVARIANT OwnReply
INVARIANT InOrder
INVARIANT NothingLost
INVARIANT TypeOK
CHECK_DEADLOCK FALSE
