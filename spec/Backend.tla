------------------------------ MODULE Backend ------------------------------
(* Design model of the reply path of a proxy (property C08):                                         *)
(*   session.rs  handle_session : per client connection, a FIFO of reply futures; replies are written *)
(*                                in the order the requests were read, each when ITS future resolves  *)
(*   command.rs  CmdReplySender : the future of a request is resolved exactly once; dropping the      *)
(*                                sender resolves it with an error                                    *)
(*   backend.rs  BackendNode::send / handle_backend / handle_conn / handle_conn_err :                 *)
(*                                per backend connection an unbounded channel, the queues `tasks`     *)
(*                                and `packets`, FIFO matching of replies to tasks, retry of all      *)
(*                                outstanding tasks on a new connection (at most MAX_BACKEND_RETRY    *)
(*                                times when the failures are consecutive first polls), error         *)
(*                                replies when the retry budget is used up, on timeout, and while     *)
(*                                the backend cannot be connected.                                    *)
(* One action per critical section of the code; the poll function of handle_conn is split into its    *)
(* four phases (receive, write, read, timeout), which the executor may interleave with the backend    *)
(* and the wire in any order.                                                                         *)
EXTENDS Integers, Sequences, FiniteSets, TLC

CONSTANTS N,          \* number of requests of the one client connection that is modelled
          K,          \* number of backend connection slots (backend_conn_num); requests go round-robin
          MaxGen,     \* bound on connection generations per slot
          MaxRetry,   \* MAX_BACKEND_RETRY
          Variant     \* "code" = as implemented; the others are seeded design errors used to show
                      \* that the invariants are not vacuous

Req == 1..N
Conns == 1..K
None == <<"none">>
ErrRep == <<"err">>
NoRetry == [times |-> -1, tasks |-> <<>>]
Rep(i, c, g) == <<"rep", i, c, g>>

VARIABLES
    sent,       \* number of requests read from the client and dispatched
    result,     \* [Req -> None | ErrRep | Rep]  : the resolved value of each reply future
    delivered,  \* sequence of values written to the client
    chan,       \* [Conns -> Seq(Req)]  unbounded channel into handle_backend
    up,         \* [Conns -> BOOLEAN]   inside handle_conn
    failed,     \* [Conns -> BOOLEAN]   conn_failed flag
    gen,        \* [Conns -> Nat]       connection generation
    tasks,      \* [Conns -> Seq(Req)]  handle_conn's `tasks`
    unsent,     \* [Conns -> Nat]       Len(packets): the last `unsent` tasks have not been written
    wout,       \* [Conns -> Seq(Req)]  requests on the wire towards the backend
    win,        \* [Conns -> Seq(reply)] replies on the wire towards the proxy
    retry,      \* [Conns -> [times: Nat, tasks: Seq(Req)] | None]
    rtimes,     \* [Conns -> Nat | -1]  retry_times_opt of the current poll (-1 = None)
    served      \* set of Rep values the backend has produced

vars == <<sent, result, delivered, chan, up, failed, gen, tasks, unsent, wout, win, retry, rtimes, served>>

RR(i) == ((i - 1) % K) + 1

Init ==
    /\ sent = 0
    /\ result = [i \in Req |-> None]
    /\ delivered = <<>>
    /\ chan = [c \in Conns |-> <<>>]
    /\ up = [c \in Conns |-> FALSE]
    /\ failed = [c \in Conns |-> FALSE]
    /\ gen = [c \in Conns |-> 0]
    /\ tasks = [c \in Conns |-> <<>>]
    /\ unsent = [c \in Conns |-> 0]
    /\ wout = [c \in Conns |-> <<>>]
    /\ win = [c \in Conns |-> <<>>]
    /\ retry = [c \in Conns |-> NoRetry]
    /\ rtimes = [c \in Conns |-> -1]
    /\ served = {}

\* resolve the futures of a sequence of requests with one value each (send-once: a resolved future is
\* never overwritten; the code guarantees it by consuming the sender)
Resolve(res, is, val) == [i \in Req |-> IF \E k \in DOMAIN is : is[k] = i /\ res[i] = None THEN val ELSE res[i]]

(* session.rs: a complete request has been read; handle_cmd dispatches it; BackendNode::send *)
ClientSend ==
    /\ sent < N
    /\ sent' = sent + 1
    /\ LET i == sent + 1
           c == RR(i)
       IN IF failed[c]
          THEN /\ result' = Resolve(result, <<i>>, ErrRep)      \* ERR_BACKEND_CONNECTION
               /\ chan' = chan
          ELSE /\ chan' = [chan EXCEPT ![c] = Append(@, i)]
               /\ result' = result
    /\ UNCHANGED <<delivered, up, failed, gen, tasks, unsent, wout, win, retry, rtimes, served>>

(* session.rs: the head of reply_receiver_list is ready: write it *)
Deliver ==
    /\ Len(delivered) < sent
    /\ result[Len(delivered) + 1] # None
    /\ delivered' = Append(delivered, result[Len(delivered) + 1])
    /\ UNCHANGED <<sent, result, chan, up, failed, gen, tasks, unsent, wout, win, retry, rtimes, served>>

(* handle_backend: create_conn succeeded; first poll of handle_conn moves the retry state in *)
ConnectOk(c) ==
    /\ ~up[c] /\ gen[c] < MaxGen
    /\ up' = [up EXCEPT ![c] = TRUE]
    /\ failed' = [failed EXCEPT ![c] = FALSE]
    /\ gen' = [gen EXCEPT ![c] = @ + 1]
    /\ LET rt == IF retry[c] = NoRetry THEN <<>> ELSE retry[c].tasks IN
       /\ tasks' = [tasks EXCEPT ![c] = rt]
       /\ unsent' = [unsent EXCEPT ![c] = IF Variant = "resend_unsent_only" THEN Len(rt) \div 2 ELSE Len(rt)]
    /\ rtimes' = [rtimes EXCEPT ![c] = IF retry[c] = NoRetry THEN -1 ELSE retry[c].times]
    /\ retry' = [retry EXCEPT ![c] = NoRetry]
    /\ wout' = [wout EXCEPT ![c] = <<>>]
    /\ win' = [win EXCEPT ![c] = <<>>]
    /\ UNCHANGED <<sent, result, delivered, chan, served>>

(* handle_backend: create_conn failed: flag, cancel the retried tasks, then answer what arrives *)
ConnectFail(c) ==
    /\ ~up[c] /\ gen[c] < MaxGen
    /\ gen' = [gen EXCEPT ![c] = @ + 1]
    /\ failed' = [failed EXCEPT ![c] = TRUE]
    /\ result' = IF retry[c] = NoRetry THEN result ELSE Resolve(result, retry[c].tasks, ErrRep)
    /\ retry' = [retry EXCEPT ![c] = NoRetry]
    /\ UNCHANGED <<sent, delivered, chan, up, tasks, unsent, wout, win, rtimes, served>>

(* handle_backend: during the one-second pause every task taken from the channel is answered with an error *)
FailDrain(c) ==
    /\ ~up[c] /\ failed[c] /\ chan[c] # <<>>
    /\ result' = Resolve(result, <<Head(chan[c])>>, ErrRep)
    /\ chan' = [chan EXCEPT ![c] = Tail(@)]
    /\ UNCHANGED <<sent, delivered, up, failed, gen, tasks, unsent, wout, win, retry, rtimes, served>>

(* handle_conn, phase 1: take tasks from the channel *)
Receive(c) ==
    /\ up[c] /\ chan[c] # <<>>
    /\ tasks' = [tasks EXCEPT ![c] = Append(@, Head(chan[c]))]
    /\ unsent' = [unsent EXCEPT ![c] = @ + 1]
    /\ chan' = [chan EXCEPT ![c] = Tail(@)]
    /\ UNCHANGED <<sent, result, delivered, up, failed, gen, wout, win, retry, rtimes, served>>

(* handle_conn, phase 2: write the next packet *)
Write(c) ==
    /\ up[c] /\ unsent[c] > 0
    /\ wout' = [wout EXCEPT ![c] = Append(@, tasks[c][Len(tasks[c]) - unsent[c] + 1])]
    /\ unsent' = [unsent EXCEPT ![c] = @ - 1]
    /\ UNCHANGED <<sent, result, delivered, chan, up, failed, gen, tasks, win, retry, rtimes, served>>

(* handle_conn, phase 2 under write backpressure: the sink is not ready (poll_ready = Pending).  As implemented    *)
(* nothing happens (the packet stays at the head of `packets`): a stuttering step.  The seeded design error       *)
(* "drop_on_backpressure" pops the packet first and forgets it when the sink turns out not to be ready.          *)
WriteBlocked(c) ==
    /\ Variant = "drop_on_backpressure"
    /\ up[c] /\ unsent[c] > 0
    /\ unsent' = [unsent EXCEPT ![c] = @ - 1]
    /\ UNCHANGED <<sent, result, delivered, chan, up, failed, gen, tasks, wout, win, retry, rtimes, served>>

(* the backend answers the next request it received on this connection *)
Serve(c) ==
    /\ up[c] /\ wout[c] # <<>>
    /\ LET r == Rep(Head(wout[c]), c, gen[c]) IN
       /\ served' = served \cup {r}
       /\ win' = [win EXCEPT ![c] = Append(@, r)]
    /\ wout' = [wout EXCEPT ![c] = Tail(@)]
    /\ UNCHANGED <<sent, result, delivered, chan, up, failed, gen, tasks, unsent, retry, rtimes>>

(* handle_conn, phase 3: a reply packet arrives: it answers the OLDEST outstanding task *)
Read(c) ==
    /\ up[c] /\ win[c] # <<>> /\ tasks[c] # <<>>
    /\ LET t == IF Variant = "match_newest" THEN tasks[c][Len(tasks[c])] ELSE Head(tasks[c]) IN
       result' = Resolve(result, <<t>>, Head(win[c]))
    /\ tasks' = [tasks EXCEPT ![c] = IF Variant = "match_newest" THEN SubSeq(@, 1, Len(@) - 1) ELSE Tail(@)]
    /\ win' = [win EXCEPT ![c] = Tail(@)]
    /\ UNCHANGED <<sent, delivered, chan, up, failed, gen, unsent, wout, retry, rtimes, served>>

(* the end of a poll: retry_times_opt exists only in the poll that consumed the retry state *)
PollEnd(c) ==
    /\ up[c] /\ rtimes[c] # -1
    /\ rtimes' = [rtimes EXCEPT ![c] = -1]
    /\ UNCHANGED <<sent, result, delivered, chan, up, failed, gen, tasks, unsent, wout, win, retry, served>>

(* handle_conn_err: a write or read error (connection broken at any point), or a timeout (no retry) *)
ConnErr(c, timeout) ==
    /\ up[c]
    /\ up' = [up EXCEPT ![c] = FALSE]
    /\ LET times == IF timeout THEN MaxRetry ELSE IF rtimes[c] = -1 THEN 0 ELSE rtimes[c] IN
       IF times >= MaxRetry
       THEN /\ result' = Resolve(result, IF Variant = "drain_forgets" THEN <<>> ELSE tasks[c], ErrRep)
            /\ retry' = [retry EXCEPT ![c] = NoRetry]
       ELSE /\ result' = result
            /\ retry' = [retry EXCEPT ![c] = [times |-> times + 1, tasks |-> tasks[c]]]
    /\ tasks' = [tasks EXCEPT ![c] = <<>>]
    /\ unsent' = [unsent EXCEPT ![c] = 0]
    /\ wout' = [wout EXCEPT ![c] = <<>>]
    /\ win' = [win EXCEPT ![c] = <<>>]
    /\ rtimes' = [rtimes EXCEPT ![c] = -1]
    /\ UNCHANGED <<sent, delivered, chan, failed, gen, served>>

Next ==
    \/ ClientSend
    \/ Deliver
    \/ \E c \in Conns :
          \/ ConnectOk(c) \/ ConnectFail(c) \/ FailDrain(c)
          \/ Receive(c) \/ Write(c) \/ WriteBlocked(c) \/ Serve(c) \/ Read(c) \/ PollEnd(c)
          \/ ConnErr(c, FALSE) \/ ConnErr(c, TRUE)

\* After MaxGen generations the environment stops breaking things: the last connection stays up.
Calm(c) == gen[c] = MaxGen /\ up[c]
NextCalm ==
    \/ ClientSend
    \/ Deliver
    \/ \E c \in Conns :
          \/ ConnectOk(c) \/ ConnectFail(c) \/ FailDrain(c)
          \/ Receive(c) \/ Write(c) \/ WriteBlocked(c) \/ Serve(c) \/ Read(c) \/ PollEnd(c)
          \/ (~Calm(c) /\ (ConnErr(c, FALSE) \/ ConnErr(c, TRUE)))

Spec == Init /\ [][Next]_vars
FairSpec == Init /\ [][NextCalm]_vars /\ WF_vars(NextCalm)
             /\ \A c \in Conns : SF_vars(ConnectOk(c)) /\ WF_vars(Receive(c)) /\ WF_vars(Write(c))
                                  /\ WF_vars(Serve(c)) /\ WF_vars(Read(c)) /\ WF_vars(FailDrain(c))
             /\ WF_vars(Deliver) /\ WF_vars(ClientSend)

----------------------------------------------------------------------------
(* C08 *)

\* a reply produced by the backend is delivered only to the request whose bytes elicited it
OwnReply == \A i \in Req : result[i] = None \/ result[i] = ErrRep
                            \/ (result[i] \in served /\ result[i][2] = i)

\* replies are written in request order, one per request, each the value of that request's future
InOrder == /\ Len(delivered) <= sent
           /\ \A n \in DOMAIN delivered : delivered[n] = result[n] /\ delivered[n] # None

\* a resolved future never changes (send-once)
SendOnce == [][\A i \in Req : result[i] # None => result'[i] = result[i]]_vars

\* no request is forgotten: when nothing is in flight any more, every dispatched request is resolved
Quiet == \A c \in Conns : chan[c] = <<>> /\ tasks[c] = <<>> /\ retry[c] = NoRetry
NothingLost == Quiet => \A i \in 1..sent : result[i] # None

\* every request is eventually answered once the environment calms down
EventuallyAll == <>(Len(delivered) = N)

TypeOK == /\ sent \in 0..N
          /\ \A c \in Conns : unsent[c] <= Len(tasks[c])
=============================================================================
