------------------------------ MODULE Broker_MC ------------------------------
(***************************************************************************)
(* Exhaustive exploration of the Broker design spec on small layouts.      *)
(* Every L1 monitor of BrokerMon (the listed properties C01 C04 C06 C10    *)
(* C12 C18) is evaluated on the spec's OWN states/views/transitions, i.e.  *)
(* "the design satisfies the properties for every history within the       *)
(* bound"; BrokerTrace's L2 check says the code refines this design.       *)
(***************************************************************************)
EXTENDS Broker, TLC

CONSTANTS HostsOf,      \* [addr -> host]  the registered proxies and their hosts
          MaxSteps,     \* depth bound (state constraint)
          Scenarios,    \* which initial scenarios to start from (subset of 1..6)
          Ordered       \* enable_ordered_proxy

VARIABLES st,           \* the store (spec shape)
          last,         \* the last event [op, args, res, out]
          steps

vars == <<st, last, steps>>

HostsQuick == [p \in {"p1", "p2", "p3", "p4", "p5", "p6"} |->
                 CASE p \in {"p1", "p2"} -> "hA" [] p \in {"p3", "p4"} -> "hB" [] OTHER -> "hC"]
HostsSkew == [p \in {"p1", "p2", "p3", "p4", "p5", "p6"} |->
                 CASE p \in {"p1", "p2", "p3"} -> "hA" [] p \in {"p4", "p5"} -> "hB" [] OTHER -> "hC"]
HostsFour == [p \in {"p1", "p2", "p3", "p4", "p5", "p6", "p7", "p8"} |->
                 CASE p \in {"p1", "p2"} -> "hA" [] p \in {"p3", "p4"} -> "hB" [] p \in {"p5", "p6"} -> "hC" [] OTHER -> "hD"]
ScenQuick == {1, 2, 3, 4, 5, 6}
DefaultConfigVal == [compression |-> "disabled", mmt |-> 10800, mbt |-> 10000, si |-> 500, sc |-> 16]
AddrList == SetToSeq(DOMAIN HostsOf)
NodesOf(a) == <<"n1@" \o a, "n2@" \o a>>
IndexOf(a) == (CHOOSE i \in DOMAIN AddrList : AddrList[i] = a) - 1

\* ---- conversion of the spec's store into the recorded shape (so BrokerMon applies) ----
ToRec(S) ==
    [gepoch |-> S.gepoch, ordered |-> S.ordered,
     proxies |-> SetToSeq({[addr |-> a, host |-> S.proxies[a].host, index |-> S.proxies[a].index,
                            cluster |-> S.proxies[a].cluster, nodes |-> S.proxies[a].nodes] : a \in DOMAIN S.proxies}),
     failed |-> SetToSeq(S.failed),
     failures |-> SetToSeq({[addr |-> a, reports |-> SetToSeq({[rep |-> r, age |-> 0] : r \in S.failures[a]})]
                              : a \in DOMAIN S.failures}),
     clusters |-> SetToSeq({[name |-> n, epoch |-> S.clusters[n].epoch, config |-> S.clusters[n].config,
                             chunks |-> S.clusters[n].chunks] : n \in DOMAIN S.clusters})]

ObsOf(S) ==
    LET names == SetToSeq(ClusterNames(S))  addrs == SetToSeq(Addrs(S))
        view(lim) == LET av == AllViews(S, lim) IN
                     [limit |-> lim,
                      clusters |-> [i \in DOMAIN names |-> av.clusters[names[i]]],
                      proxies |-> [i \in DOMAIN addrs |-> av.proxies[addrs[i]]]]
        v0 == view(0)  v1 == view(1)  v2 == view(2)
    IN [views |-> <<v0, v1, v2>>,
        svc |-> [limit |-> 1, clusters |-> v1.clusters, proxies |-> v1.proxies,
                 failed |-> SetToSeq(S.failed), gepoch |-> S.gepoch],
        check |-> CheckMetadata(S)]

Event(S) == [op |-> last.op, args |-> last.args, res |-> last.res, out |-> last.out, S |-> ToRec(S), obs |-> ObsOf(S)]

\* ---- initial scenarios, built with the spec's own operators ----
Empty == [gepoch |-> 0, ordered |-> Ordered, proxies |-> <<>>, failed |-> {}, failures |-> <<>>, clusters |-> <<>>]
RECURSIVE Register(_, _)
Register(S, i) == IF i > Len(AddrList) THEN S
                  ELSE LET a == AddrList[i]
                           o == CHOOSE x \in AddProxy(S, a, HostsOf[a], IndexOf(a), NodesOf(a)) : TRUE
                       IN Register(o[2], i + 1)
Registered0 == Register(Empty, 1)
One(outs) == (CHOOSE o \in outs : o[1] = "OK")[2]
Sc1 == Registered0                                           \* nothing allocated
Sc2 == One(AddCluster(Sc1, "c1", 4))                          \* one chunk, stable
Sc3 == One(AddNodes(Sc2, "c1", 4))                            \* second chunk empty
Sc4 == One(MigrateSlots(Sc3, "c1"))                           \* mid scale-out 4 -> 8
Sc5 == One(AddCluster(Sc1, "c1", 8))                          \* two chunks, stable (scale-in candidates)
Sc6 == One(ScaleDown(Sc5, "c1", 4))                           \* mid scale-in 8 -> 4
Sc7 == One(AddCluster(Sc1, "c1", 12))                         \* three chunks, stable
Sc8 == One(ScaleDown(Sc7, "c1", 4))                           \* mid scale-in 12 -> 4: two chunks drain
Scenario(k) == CASE k = 1 -> Sc1 [] k = 2 -> Sc2 [] k = 3 -> Sc3 [] k = 4 -> Sc4 [] k = 5 -> Sc5 [] k = 6 -> Sc6
                 [] k = 7 -> Sc7 [] k = 8 -> Sc8
ScenAll == 1..8
ScenScaleIn == {7, 8}

NoEvent == [op |-> "Init", args |-> [ordered |-> Ordered], res |-> "OK", out |-> [replaced |-> FALSE]]

Init ==
    /\ \E k \in Scenarios : st = Scenario(k)
    /\ last = NoEvent
    /\ steps = 0

\* ---- the menu of operations ----
PendingTasks(S, name) ==
    IF name \notin ClusterNames(S) THEN {}
    ELSE LET all == AllEntries(S.clusters[name].chunks) IN
         {[rl |-> all[i][3].rl, tag |-> "migrating", epoch |-> all[i][3].epoch] : i \in {j \in DOMAIN all : all[j][3].out}}

Do(op, args, outs) ==      \* outs: set of <<res, S'>> or <<res, S', replaced>>
    \E o \in outs :
        /\ st' = o[2]
        /\ last' = [op |-> op, args |-> args, res |-> o[1],
                    out |-> [replaced |-> IF Len(o) >= 3 THEN o[3] ELSE FALSE,
                             new |-> [addr |-> IF Len(o) >= 3 /\ o[3]
                                               THEN CHOOSE b \in Addrs(o[2]) : o[2].proxies[b].cluster # "" /\ st.proxies[b].cluster = ""
                                               ELSE ""],
                             failures |-> <<>>]]

Next ==
    /\ \/ \E n \in {4, 8} : Do("AddCluster", [name |-> "c1", n |-> n], AddCluster(st, "c1", n))
       \/ Do("AddNodes", [name |-> "c1", n |-> 4], AddNodes(st, "c1", 4))
       \/ Do("MigrateSlots", [name |-> "c1"], MigrateSlots(st, "c1"))
       \/ \E n \in {4, 8} : Do("ScaleDown", [name |-> "c1", n |-> n], ScaleDown(st, "c1", n))
       \/ Do("DeleteFree", [name |-> "c1"], DeleteFree(st, "c1"))
       \/ \E t \in PendingTasks(st, "c1") : Do("Commit", [name |-> "c1"], Commit(st, "c1", t))
       \/ \E t \in PendingTasks(st, "c1") :        \* stale descriptor
              Do("Commit", [name |-> "c1"], Commit(st, "c1", [t EXCEPT !.epoch = t.epoch - 1]))
       \/ \E a \in Addrs(st) : st.proxies[a].cluster # "" /\ Do("Failover", [addr |-> a], Failover(st, a, TRUE))
       \/ Do("Balance", [name |-> "c1"], Balance(st, "c1"))
       \/ \E a \in st.failed : Do("AddProxy", [addr |-> a],
                                    AddProxy(st, a, HostsOf[a], IndexOf(a), NodesOf(a)))
       \/ Do("ChangeConfig", [name |-> "c1"], ChangeConfig(st, "c1", TRUE, [DefaultConfigVal EXCEPT !.compression = "allow_all"]))
       \/ Do("RemoveCluster", [name |-> "c1"], RemoveCluster(st, "c1"))
    /\ steps' = steps + 1

Spec == Init /\ [][Next]_vars

Bound == steps <= MaxSteps

\* ---- properties: the L1 monitors of BrokerMon, evaluated on the spec itself ----
\* state monitors (C01 partition/twins/..., C06 replica pairs, C10 quiescent balance, C12 accounting)
StateOK == StateMon(Event(st)) = {}
\* the spec's own consistency check never fails
CheckOK == CheckMetadata(st)
\* event monitors (C06 failover rule, C10 progress/refusals, C12 allocation rules, C18) and the
\* C04 epoch rule, as one action property over (st, st', last')
StepOK ==
    LET obs0 == ObsOf(st)  obs1 == ObsOf(st')
        e1 == [op |-> last'.op, args |-> last'.args, res |-> last'.res, out |-> last'.out,
               S |-> ToRec(st'), obs |-> obs1]
    IN /\ EventMon([S |-> ToRec(st), obs |-> obs0], e1) = {}
       /\ C04_Obs(NewHist(EmptyHist, obs0), st.gepoch, ToRec(st'), obs1) = {}
StepProp == [][StepOK]_vars
=============================================================================
