CONSTANTS
 Scenario = 1
 InitTtl = "none"
 Variant = "skip_umsync_after_wait"
 GetdelBlocking = TRUE
 OwnerSwitch = "sync"
 Ops <- MCOps
 Kind <- MCKind
SPECIFICATION Spec
INVARIANT NoStaleRead
INVARIANT FinalPlacement
INVARIANT TtlKept
CHECK_DEADLOCK FALSE
