---------------------------- MODULE Compress_MC ----------------------------
(***************************************************************************)
(* Design model of value compression across the proxies of a cluster       *)
(* (src/proxy/executor.rs handle_single_key_data_cmd / handle_umforward,   *)
(* src/proxy/compress.rs, src/proxy/manager.rs send_cmd_ctx_to_remote_     *)
(* directly, src/proxy/reply.rs DecompressCommitHandler).                  *)
(*                                                                         *)
(* A stored value is the client's value wrapped in some number of          *)
(* compression layers.  A write entering proxy p is compressed by p when   *)
(* the cluster's strategy is not "disabled"; if p does not own the key it  *)
(* answers MOVED (the client sends the command again to the owner) or,     *)
(* with active redirection, forwards the command - wrapped in UMFORWARD    *)
(* when max_redirections > 0, as it is when max_redirections = 0.  The     *)
(* owner runs the command through its own data-command path.  A read is    *)
(* decompressed (one layer) by the proxy whose data-command path issued    *)
(* the GET to Redis; a forwarding proxy passes the reply through.          *)
(*                                                                         *)
(*   Fix = "asfound" : the owner compresses a forwarded write again        *)
(*   Fix = "skip_forwarded" (aa7fa11): not when it arrived in UMFORWARD    *)
(***************************************************************************)
EXTENDS Naturals, FiniteSets, TLC

CONSTANTS Redirect,   \* "moved" | "wrapped" | "unwrapped"
          Fix,        \* "asfound" | "skip_forwarded"
          Strategy    \* "disabled" | "set_get_only" | "allow_all"

Proxies == {"p1", "p2"}
Keys == {"k1", "k2"}                      \* k1 is owned by p1, k2 by p2
Owner(k) == IF k = "k1" THEN "p1" ELSE "p2"
Vals == {"a", "b"}
On == Strategy # "disabled"

VARIABLES store,    \* [Keys -> [v, layers]]  ( v = "" : absent )
          lastRead, \* what the last read returned: [v, layers]  (v = "" : nothing read yet)
          truth     \* [Keys -> value last written]
vars == <<store, lastRead, truth>>

Absent == [v |-> "", layers |-> 0]
Init == store = [k \in Keys |-> Absent] /\ lastRead = [v |-> "", layers |-> 0] /\ truth = [k \in Keys |-> ""]

\* the layers a value carries when it reaches Redis, for a write of k entering at proxy p
LayersOnWrite(p, k) ==
    IF ~On THEN 0
    ELSE IF p = Owner(k) THEN 1
    ELSE CASE Redirect = "moved" -> 1                 \* p refuses with MOVED; the client's second attempt is a fresh command at the owner
           [] Redirect = "wrapped" -> IF Fix = "skip_forwarded" THEN 1 ELSE 2
           [] Redirect = "unwrapped" -> 2             \* the owner cannot tell the forwarded command from a client's

Write(p, k, v) == /\ store' = [store EXCEPT ![k] = [v |-> v, layers |-> LayersOnWrite(p, k)]]
                  /\ truth' = [truth EXCEPT ![k] = v]
                  /\ UNCHANGED lastRead
\* GET / MGET / GETSET: exactly one proxy's data-command path talks to Redis (the owner's), whatever proxy the client used
Read(p, k) == /\ store[k].v # ""
              /\ lastRead' = [v |-> store[k].v, layers |-> IF On /\ store[k].layers > 0 THEN store[k].layers - 1 ELSE store[k].layers]
              /\ truth[k] = store[k].v
              /\ UNCHANGED <<store, truth>>
Next == \E p \in Proxies, k \in Keys : (\E v \in Vals : Write(p, k, v)) \/ Read(p, k)
Spec == Init /\ [][Next]_vars

\* C20: a value written through any proxy is returned byte-identical through any proxy
Transparent == lastRead.layers = 0
\* nothing is stored compressed when the strategy is disabled
DisabledIsPlain == ~On => \A k \in Keys : store[k].layers = 0
=============================================================================
