SPECIFICATION Spec
INVARIANT TruncationDetected
CHECK_DEADLOCK FALSE
