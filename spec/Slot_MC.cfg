SPECIFICATION Spec
INVARIANTS Known InRange TagRule
CHECK_DEADLOCK FALSE
