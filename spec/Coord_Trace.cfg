SPECIFICATION Spec
POSTCONDITION Consumed
CHECK_DEADLOCK FALSE
