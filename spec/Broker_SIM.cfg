SPECIFICATION SSpec
CONSTANTS
  DefaultConfig <- DefaultConfigVal
  HostsOf <- HostsQuick
  MaxSteps = 6
  Scenarios <- ScenAll
  Ordered = FALSE
CONSTRAINT SimConstraint
CHECK_DEADLOCK FALSE
