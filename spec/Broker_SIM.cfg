SPECIFICATION SSpec
CONSTANTS
  DefaultConfig <- DefaultConfigVal
  HostsOf <- HostsQuick
  MaxSteps = 6
  Scenarios <- ScenQuick
  Ordered = FALSE
CONSTRAINT SimConstraint
CHECK_DEADLOCK FALSE
