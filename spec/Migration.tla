----------------------------- MODULE Migration -----------------------------
(* Design model of live slot migration for ONE key (properties C03 and C19).                           *)
(*                                                                                                     *)
(*   migration/scan_task.rs       RedisScanMigratingTask: PreCheck -> PreBlocking -> PreSwitch ->       *)
(*                                Scanning -> FinalSwitch -> SwitchCommitted (source proxy);            *)
(*                                RedisScanImportingTask: PreCheck -> PreSwitch -> SwitchCommitted      *)
(*                                (destination proxy), replaced by direct ownership when the next       *)
(*                                metadata arrives                                                      *)
(*   migration/scan_migration.rs  scan transfer under the source proxy's slot mutex:                    *)
(*                                DUMP+PTTL at source, RESTORE (no REPLACE, BUSYKEY ignored) at          *)
(*                                destination, DEL at source; UMSYNC does the same for one key           *)
(*   proxy/migration_backend.rs   commands at the importing proxy: EXISTS at destination; if absent     *)
(*                                key lock, DUMP+PTTL at source, RESTORE + the command at destination,   *)
(*                                unlock, DEL at source; deleting commands: key lock, UMSYNC to the      *)
(*                                source proxy, then the command at destination                          *)
(*   proxy/blocking.rs            the pre-switch barrier (property C11) is ASSUMED here: PreSwitch is    *)
(*                                entered only when no command is in flight to the source store          *)
(*                                                                                                     *)
(* Every command sent to a store is a separate message that the network may delay arbitrarily; the      *)
(* RESTORE and the command that follows it travel together but other connections may run between them.  *)
(* A value is the identity of the write that produced it plus a ttl class.                              *)
EXTENDS Naturals, FiniteSets, TLC

CONSTANTS Ops,       \* operation identifiers
          Kind,      \* [Ops -> {"set", "setex", "get", "del", "getdel"}]; "getdel" = a command that reads and deletes
                     \* (GETDEL, or a pop of the last element) and is NOT in requires_blocking_migration
          InitTtl,   \* ttl class of the initial value: "none" | "some" | "zero" (PTTL answers 0)
          Variant,   \* "code" | seeded design errors "no_key_lock" | "restore_replace" | "no_barrier" | "ttl_zero_persist"
                     \* | "skip_umsync_after_wait" (a deleting command that had to wait for the key lock is forwarded without UMSYNC)
          GetdelBlocking, \* TRUE: read-and-delete commands take the UMSYNC path like DEL (requires_blocking_migration)
          OwnerSwitch \* "async" = as implemented: when the next metadata arrives the destination proxy serves the
                     \*           slot directly at once, while commands still inside the pull pipeline finish later;
                     \* "sync"  = hypothetical: it waits until the pull pipeline is empty

Nil == [w |-> "nil", ttl |-> "none"]
InitVal == [w |-> "init", ttl |-> InitTtl]
WriteVal(o) == [w |-> o, ttl |-> IF Kind[o] = "setex" THEN "some" ELSE "none"]
IsWrite(o) == Kind[o] \in {"set", "setex"}

\* PTTL -> RESTORE ttl argument (pttl_to_restore_expire_time): a volatile key stays volatile
Carry(v) == IF v.ttl = "zero"
            THEN [v EXCEPT !.ttl = IF Variant = "ttl_zero_persist" THEN "none" ELSE "some"]
            ELSE v

VARIABLES
    src, dst,       \* the key at the source / destination store
    abs,            \* the linearized register
    mig,            \* source proxy: "PreCheck" "PreBlocking" "PreSwitch" "Scanning" "FinalSwitch" "Committed" "Gone"
    imp,            \* destination proxy: "PreCheck" "Importing" "Committed" "Owner"
    pc,             \* [Ops -> control state]
    cap,            \* [Ops -> value captured by DUMP]
    ret,            \* [Ops -> value returned to the client (gets) ]
    slotLock,       \* source proxy slot mutex: "free" | "scan" | op
    keyLock,        \* destination proxy key lock: "free" | op
    scan,           \* "idle" "locked" "dumped" "restored" "done"
    scanCap,        \* value captured by the scan's DUMP
    pendingDel,     \* number of DEL commands on their way to the source store
    bad             \* set of reasons

vars == <<src, dst, abs, mig, imp, pc, cap, ret, slotLock, keyLock, scan, scanCap, pendingDel, bad>>

Init ==
    /\ src = InitVal /\ dst = Nil /\ abs = InitVal
    /\ mig = "PreCheck" /\ imp = "PreCheck"
    /\ pc = [o \in Ops |-> "new"]
    /\ cap = [o \in Ops |-> Nil]
    /\ ret = [o \in Ops |-> Nil]
    /\ slotLock = "free" /\ keyLock = "free"
    /\ scan = "idle" /\ scanCap = Nil
    /\ pendingDel = 0
    /\ bad = {}

\* a value is only observable by its writer identity and by whether it is volatile
Same(a, b) == a.w = b.w /\ (a.ttl = "none") = (b.ttl = "none")

\* the effect of executing o at a store holding v: <<new store value, new register, reasons>>
Exec(o, v) ==
    CASE IsWrite(o) -> <<WriteVal(o), WriteVal(o), {}>>
      [] Kind[o] = "del" -> <<Nil, Nil, {}>>
      [] Kind[o] = "getdel" -> <<Nil, Nil, IF Same(v, abs) THEN {} ELSE {"stale_read"}>>
      [] OTHER -> <<v, abs, IF Same(v, abs) THEN {} ELSE {"stale_read"}>>

-----------------------------------------------------------------------------
(* the migration handshake *)

PreCheckDone == mig = "PreCheck" /\ mig' = "PreBlocking"
                /\ UNCHANGED <<src, dst, abs, imp, pc, cap, ret, slotLock, keyLock, scan, scanCap, pendingDel, bad>>

\* blocking_done: nothing is in flight to the source store any more (C11)
BarrierDone == /\ mig = "PreBlocking"
               /\ Variant = "no_barrier" \/ \A o \in Ops : pc[o] # "srcInflight"
               /\ mig' = "PreSwitch"
               /\ UNCHANGED <<src, dst, abs, imp, pc, cap, ret, slotLock, keyLock, scan, scanCap, pendingDel, bad>>

\* PRESWITCH accepted by the destination proxy; the source starts scanning and releases the queue
PreSwitch == /\ mig = "PreSwitch"
             /\ mig' = "Scanning" /\ imp' = "Importing"
             /\ pc' = [o \in Ops |-> IF pc[o] = "blocked" THEN "atSrc" ELSE pc[o]]
             /\ UNCHANGED <<src, dst, abs, cap, ret, slotLock, keyLock, scan, scanCap, pendingDel, bad>>

\* scan transfer of the key, under the slot mutex
ScanLock == /\ mig = "Scanning" /\ scan = "idle" /\ slotLock = "free"
            /\ scan' = "locked" /\ slotLock' = "scan"
            /\ UNCHANGED <<src, dst, abs, mig, imp, pc, cap, ret, keyLock, scanCap, pendingDel, bad>>
ScanDump == /\ scan = "locked"
            /\ scanCap' = src /\ scan' = "dumped"
            /\ UNCHANGED <<src, dst, abs, mig, imp, pc, cap, ret, slotLock, keyLock, pendingDel, bad>>
ScanRestore == /\ scan = "dumped"
               /\ dst' = IF scanCap # Nil /\ (dst = Nil \/ Variant = "restore_replace") THEN Carry(scanCap) ELSE dst
               /\ scan' = "restored"
               /\ UNCHANGED <<src, abs, mig, imp, pc, cap, ret, slotLock, keyLock, scanCap, pendingDel, bad>>
ScanDel == /\ scan = "restored"
           /\ src' = IF scanCap # Nil THEN Nil ELSE src
           /\ scan' = "done" /\ slotLock' = "free"
           /\ UNCHANGED <<dst, abs, mig, imp, pc, cap, ret, keyLock, scanCap, pendingDel, bad>>

ScanFinished == /\ mig = "Scanning" /\ scan = "done"
                /\ mig' = "FinalSwitch"
                /\ UNCHANGED <<src, dst, abs, imp, pc, cap, ret, slotLock, keyLock, scan, scanCap, pendingDel, bad>>
FinalSwitch == /\ mig = "FinalSwitch"
               /\ mig' = "Committed" /\ imp' = "Committed"
               /\ UNCHANGED <<src, dst, abs, pc, cap, ret, slotLock, keyLock, scan, scanCap, pendingDel, bad>>

\* the coordinator commits and the next metadata reaches the proxies (separately)
InPull(o) == pc[o] \in {"existsSent", "dumpSent", "restoreSent", "cmdAfterRestore", "fwdSent", "umsyncSent", "umsyncLocked", "umsyncDumped", "umsyncRestored", "umsyncDone", "wantKeyLock", "waitKeyLock", "fwdLocked"}
NewMetaDst == /\ imp = "Committed"
              /\ OwnerSwitch = "sync" => \A o \in Ops : ~InPull(o)
              /\ imp' = "Owner"
              /\ UNCHANGED <<src, dst, abs, mig, pc, cap, ret, slotLock, keyLock, scan, scanCap, pendingDel, bad>>
NewMetaSrc == /\ mig = "Committed" /\ mig' = "Gone"
              /\ UNCHANGED <<src, dst, abs, imp, pc, cap, ret, slotLock, keyLock, scan, scanCap, pendingDel, bad>>

-----------------------------------------------------------------------------
(* client commands *)

Arrive(o) == /\ pc[o] = "new"
             /\ \E where \in {"atSrc", "atDst"} : pc' = [pc EXCEPT ![o] = where]
             /\ UNCHANGED <<src, dst, abs, mig, imp, cap, ret, slotLock, keyLock, scan, scanCap, pendingDel, bad>>

\* source proxy: execute locally, queue behind the barrier, or redirect
AtSrc(o) ==
    /\ pc[o] = "atSrc"
    /\ pc' = [pc EXCEPT ![o] =
                CASE mig \in {"PreCheck", "PreBlocking"} -> "srcInflight"
                  [] mig = "PreSwitch" -> "blocked"
                  [] OTHER -> "atDst"]
    /\ UNCHANGED <<src, dst, abs, mig, imp, cap, ret, slotLock, keyLock, scan, scanCap, pendingDel, bad>>

ExecSrc(o) ==
    /\ pc[o] = "srcInflight"
    /\ LET r == Exec(o, src) IN
       /\ src' = r[1] /\ abs' = r[2] /\ bad' = bad \cup r[3]
       /\ ret' = [ret EXCEPT ![o] = src]
    /\ pc' = [pc EXCEPT ![o] = "done"]
    /\ UNCHANGED <<dst, mig, imp, cap, slotLock, keyLock, scan, scanCap, pendingDel>>

\* destination proxy: redirect, pull path, UMSYNC path, or direct
AtDst(o) ==
    /\ pc[o] = "atDst"
    /\ pc' = [pc EXCEPT ![o] =
                CASE imp = "PreCheck" -> "atSrc"
                  [] imp = "Owner" -> "directSent"
                  [] Kind[o] = "del" \/ (Kind[o] = "getdel" /\ GetdelBlocking) -> "wantKeyLock"
                  [] OTHER -> "existsSent"]
    /\ UNCHANGED <<src, dst, abs, mig, imp, cap, ret, slotLock, keyLock, scan, scanCap, pendingDel, bad>>

ExecDst(o, from) ==
    /\ pc[o] = from
    /\ LET r == Exec(o, dst) IN
       /\ dst' = r[1] /\ abs' = r[2] /\ bad' = bad \cup r[3]
       /\ ret' = [ret EXCEPT ![o] = dst]

Direct(o) == /\ ExecDst(o, "directSent")
             /\ pc' = [pc EXCEPT ![o] = "done"]
             /\ UNCHANGED <<src, mig, imp, cap, slotLock, keyLock, scan, scanCap, pendingDel>>

\* EXISTS executes at the destination store; the proxy reacts to its reply
ExistsReply(o) ==
    /\ pc[o] = "existsSent"
    /\ IF dst # Nil
       THEN pc' = [pc EXCEPT ![o] = "fwdSent"] /\ keyLock' = keyLock
       ELSE IF keyLock = "free" \/ Variant = "no_key_lock"
            THEN pc' = [pc EXCEPT ![o] = "dumpSent"] /\ keyLock' = IF Variant = "no_key_lock" THEN keyLock ELSE o
            ELSE pc' = pc /\ keyLock' = keyLock          \* EXISTS is sent again
    /\ UNCHANGED <<src, dst, abs, mig, imp, cap, ret, slotLock, scan, scanCap, pendingDel, bad>>

Forward(o) == /\ ExecDst(o, "fwdSent")
              /\ pc' = [pc EXCEPT ![o] = "done"]
              /\ UNCHANGED <<src, mig, imp, cap, slotLock, keyLock, scan, scanCap, pendingDel>>

DumpReply(o) ==
    /\ pc[o] = "dumpSent"
    /\ cap' = [cap EXCEPT ![o] = src]
    /\ IF src = Nil
       THEN pc' = [pc EXCEPT ![o] = "fwdSent"] /\ keyLock' = IF keyLock = o THEN "free" ELSE keyLock
       ELSE pc' = [pc EXCEPT ![o] = "restoreSent"] /\ keyLock' = keyLock
    /\ UNCHANGED <<src, dst, abs, mig, imp, ret, slotLock, scan, scanCap, pendingDel, bad>>

Restore(o) ==
    /\ pc[o] = "restoreSent"
    /\ dst' = IF dst = Nil \/ Variant = "restore_replace" THEN Carry(cap[o]) ELSE dst
    /\ pc' = [pc EXCEPT ![o] = "cmdAfterRestore"]
    /\ UNCHANGED <<src, abs, mig, imp, cap, ret, slotLock, keyLock, scan, scanCap, pendingDel, bad>>

CmdAfterRestore(o) ==
    /\ ExecDst(o, "cmdAfterRestore")
    /\ pc' = [pc EXCEPT ![o] = "done"]
    /\ keyLock' = IF keyLock = o THEN "free" ELSE keyLock      \* the RESTORE reply arrives: unlock, DEL at source
    /\ pendingDel' = pendingDel + 1
    /\ UNCHANGED <<src, mig, imp, cap, slotLock, scan, scanCap>>

SrcDel == /\ pendingDel > 0
          /\ pendingDel' = pendingDel - 1
          /\ src' = Nil
          /\ UNCHANGED <<dst, abs, mig, imp, pc, cap, ret, slotLock, keyLock, scan, scanCap, bad>>

\* deleting commands: key lock, UMSYNC (transfer at the source proxy under the slot mutex), then the command
WantKeyLock(o) ==
    /\ pc[o] \in {"wantKeyLock", "waitKeyLock"}
    /\ keyLock = "free" \/ Variant = "no_key_lock"
    /\ keyLock' = IF Variant = "no_key_lock" THEN keyLock ELSE o
    \* design error: "the holder of the lock has already transferred the key" - but its DEL at the source is still on its way
    /\ pc' = [pc EXCEPT ![o] = IF Variant = "skip_umsync_after_wait" /\ pc[o] = "waitKeyLock" THEN "fwdLocked" ELSE "umsyncSent"]
    /\ UNCHANGED <<src, dst, abs, mig, imp, cap, ret, slotLock, scan, scanCap, pendingDel, bad>>
\* the lock is taken: the command is parked in the pending-UMSYNC queue (handle_pending_umsync_task retries it)
KeyLockBusy(o) ==
    /\ pc[o] = "wantKeyLock" /\ keyLock # "free" /\ Variant # "no_key_lock"
    /\ pc' = [pc EXCEPT ![o] = "waitKeyLock"]
    /\ UNCHANGED <<src, dst, abs, mig, imp, cap, ret, slotLock, keyLock, scan, scanCap, pendingDel, bad>>
ForwardLocked(o) ==
    /\ ExecDst(o, "fwdLocked")
    /\ pc' = [pc EXCEPT ![o] = "done"]
    /\ keyLock' = IF keyLock = o THEN "free" ELSE keyLock
    /\ UNCHANGED <<src, mig, imp, cap, slotLock, scan, scanCap, pendingDel>>

UmsyncLock(o) ==
    /\ pc[o] = "umsyncSent" /\ slotLock = "free"
    /\ slotLock' = o
    /\ pc' = [pc EXCEPT ![o] = "umsyncLocked"]
    /\ UNCHANGED <<src, dst, abs, mig, imp, cap, ret, keyLock, scan, scanCap, pendingDel, bad>>
UmsyncDump(o) ==
    /\ pc[o] = "umsyncLocked"
    /\ cap' = [cap EXCEPT ![o] = src]
    /\ pc' = [pc EXCEPT ![o] = "umsyncDumped"]
    /\ UNCHANGED <<src, dst, abs, mig, imp, ret, slotLock, keyLock, scan, scanCap, pendingDel, bad>>
UmsyncRestore(o) ==
    /\ pc[o] = "umsyncDumped"
    /\ dst' = IF cap[o] # Nil /\ (dst = Nil \/ Variant = "restore_replace") THEN Carry(cap[o]) ELSE dst
    /\ pc' = [pc EXCEPT ![o] = "umsyncRestored"]
    /\ UNCHANGED <<src, abs, mig, imp, cap, ret, slotLock, keyLock, scan, scanCap, pendingDel, bad>>
UmsyncDel(o) ==
    /\ pc[o] = "umsyncRestored"
    /\ src' = IF cap[o] # Nil THEN Nil ELSE src
    /\ slotLock' = "free"
    /\ pc' = [pc EXCEPT ![o] = "umsyncDone"]
    /\ UNCHANGED <<dst, abs, mig, imp, cap, ret, keyLock, scan, scanCap, pendingDel, bad>>
UmsyncReply(o) ==
    /\ pc[o] = "umsyncDone"
    /\ pc' = [pc EXCEPT ![o] = "fwdSent"]
    /\ keyLock' = IF keyLock = o THEN "free" ELSE keyLock
    /\ UNCHANGED <<src, dst, abs, mig, imp, cap, ret, slotLock, scan, scanCap, pendingDel, bad>>

Next ==
    \/ PreCheckDone \/ BarrierDone \/ PreSwitch
    \/ ScanLock \/ ScanDump \/ ScanRestore \/ ScanDel \/ ScanFinished \/ FinalSwitch
    \/ NewMetaDst \/ NewMetaSrc \/ SrcDel
    \/ \E o \in Ops :
          \/ Arrive(o) \/ AtSrc(o) \/ ExecSrc(o) \/ AtDst(o) \/ Direct(o)
          \/ ExistsReply(o) \/ Forward(o) \/ DumpReply(o) \/ Restore(o) \/ CmdAfterRestore(o)
          \/ WantKeyLock(o) \/ KeyLockBusy(o) \/ ForwardLocked(o) \/ UmsyncLock(o) \/ UmsyncDump(o) \/ UmsyncRestore(o) \/ UmsyncDel(o) \/ UmsyncReply(o)

Spec == Init /\ [][Next]_vars
FairSpec == Spec /\ WF_vars(Next)

-----------------------------------------------------------------------------
(* C03 / C19 *)

\* every read returns the linearized value (reads are linearized where they execute)
NoStaleRead == "stale_read" \notin bad

AllDone == \A o \in Ops : pc[o] = "done"
Quiet == AllDone /\ mig = "Gone" /\ imp = "Owner" /\ pendingDel = 0

\* after the migration the destination holds exactly the linearized value, with its ttl class, and the
\* source holds nothing: no acknowledged write lost, no deleted key back, no volatile key persistent
FinalPlacement == Quiet => Same(dst, abs) /\ src = Nil

\* a volatile value never becomes persistent on its way (C19)
TtlKept == (dst # Nil /\ dst.w = abs.w) => ((dst.ttl = "none") = (abs.ttl = "none"))

\* the migration and every command terminate
Terminates == <>Quiet
=============================================================================
