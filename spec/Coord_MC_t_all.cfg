SPECIFICATION Spec
CONSTANTS
  Coords = {c1}
  MaxEpoch = 3
  MaxFaults = 1
  Variant = "asbuilt"
  Features = {"migration","failover","dup","restart","crash","lostreply"}
CONSTRAINT AtMost3
INVARIANTS TypeOK NeverAhead CommitOnce DstBeforeSrc Owned NoLoneFailover
PROPERTIES NoOlder 
CHECK_DEADLOCK FALSE
