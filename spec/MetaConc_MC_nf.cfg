SPECIFICATION Spec
CONSTANTS
  Msgs <- M_nf
  Variant = "asbuilt"
INVARIANTS CInstallsNewer RInstallsNewer ReaderConsistent ReplReaderConsistent RepliesTruthful FinalC FinalR RefusalsJustified FastPathHonest
CHECK_DEADLOCK FALSE
