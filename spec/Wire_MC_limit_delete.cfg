SPECIFICATION Spec
INVARIANT DeletionDetected
CHECK_DEADLOCK FALSE
