------------------------------ MODULE MetaConc ------------------------------
(***************************************************************************)
(* Concurrent deliveries of control-plane metadata into one proxy, at the   *)
(* granularity of the code's shared-memory accesses (verif hook H3 labels): *)
(*                                                                         *)
(*  src/proxy/manager.rs MetaManager::set_meta (cluster metadata)           *)
(*     sm_lock   self.lock.lock()                                           *)
(*     sm_cmp    epoch <= self.epoch.load() && !force  -> OLD_EPOCH         *)
(*     sm_map    self.meta_map.store(new map)                               *)
(*     sm_epoch  self.epoch.store(epoch)        ("should go after the map") *)
(*                                                                         *)
(*  src/replication/manager.rs ReplicatorManager::update_replicators        *)
(*     ur_load   !force && updating_epoch.load() >= epoch -> OLD_EPOCH      *)
(*     ur_store  updating_epoch.store(epoch)     (optimistic, outside lock) *)
(*     ur_wlock  replicators.write()                                        *)
(*     ur_check  !force && epoch <= replicators.0 -> fix updating_epoch,    *)
(*               OLD_EPOCH;  else *replicators = (epoch, new)               *)
(*                                                                         *)
(*  readers: UMCTL GETEPOCH then a routed command (epoch load, map load);   *)
(*           UMCTL INFOREPL (read lock: epoch and roles together)           *)
(*                                                                         *)
(* Variant "asbuilt" is the code as found; "resync" is the code after the   *)
(* repair (updating_epoch is re-synchronised with the installed epoch under *)
(* the write lock after an install).  C05's sequential contract is          *)
(* ProxyMeta.tla; this module checks that concurrent deliveries are         *)
(* linearizable to it and that a later, lone delivery is judged against the *)
(* epoch that is really installed.                                          *)
(***************************************************************************)
EXTENDS Naturals, FiniteSets, Sequences, TLC

CONSTANTS Msgs,      \* set of records [id, kind \in {"C","R"}, epoch, force]
          Variant    \* "asbuilt" | "resync" | design errors: "epoch_before_map", "no_lock", "no_recheck"

Ids == {m.id : m \in Msgs}
MsgOf(i) == CHOOSE m \in Msgs : m.id = i

(* --algorithm MetaConc
variables
    lock = 0,                 \* MetaManager.lock holder (0 = free)
    cEpoch = 0, cMap = 0,     \* MetaManager.epoch, meta_map (content = id of the message it came from, 0 = empty)
    updating = 0,             \* ReplicatorManager.updating_epoch
    wlock = 0,                \* replicators RwLock writer
    rEpoch = 0, rRoles = 0,   \* replicators.0 and the roles (content id)
    reply = [i \in Ids |-> "none"],
    cHist = <<>>,             \* installs in order: <<id, epoch, forced>>  (history, for the properties)
    rHist = <<>>,
    seen = {};                \* what readers saw: <<kind, epoch, content>>

define
    \* ---- C05 ----
    \* epochs installed by non-forced messages strictly increase over whatever was installed before them
    InstallsNewer(h) == \A n \in DOMAIN h : h[n][3] \/ (n = 1 /\ h[n][2] > 0) \/ (n > 1 /\ h[n][2] > h[n - 1][2])
    CInstallsNewer == InstallsNewer(cHist)
    RInstallsNewer == InstallsNewer(rHist)
    \* the reported epoch and the routing belong together: a reader that saw epoch e then saw the map of a message with epoch >= e
    \* (or a forced one): "store the snapshot before the epoch"
    AnyForcedC == \E x \in Msgs : x.kind = "C" /\ x.force
    ReaderConsistent == \A s \in seen : s[1] = "C" =>
                           (s[2] = 0 \/ (s[3] # 0 /\ (MsgOf(s[3]).epoch >= s[2] \/ AnyForcedC)))
    \* INFOREPL is taken under the read lock: epoch and roles of one install
    ReplReaderConsistent == \A s \in seen : s[1] = "R" => (s[2] = 0 /\ s[3] = 0) \/ \E n \in DOMAIN rHist : rHist[n][1] = s[3] /\ rHist[n][2] = s[2]
    \* a reply OK means installed, OLD_EPOCH means not installed
    Installed(h) == {h[n][1] : n \in DOMAIN h}
    Done == \A i \in Ids : reply[i] # "none"
    RepliesTruthful == \A i \in Ids : (reply[i] = "OK" => i \in Installed(IF MsgOf(i).kind = "C" THEN cHist ELSE rHist))
                                   /\ (reply[i] = "OLD_EPOCH" => i \notin Installed(IF MsgOf(i).kind = "C" THEN cHist ELSE rHist))
    \* when everything has been answered: the installed state is the last install, and a refused non-forced message was
    \* indeed not newer than something installed at a time it could be linearized after
    FinalC == Done => (IF cHist = <<>> THEN cEpoch = 0 ELSE cEpoch = cHist[Len(cHist)][2] /\ cMap = cHist[Len(cHist)][1])
    FinalR == Done => (IF rHist = <<>> THEN rEpoch = 0 ELSE rEpoch = rHist[Len(rHist)][2] /\ rRoles = rHist[Len(rHist)][1])
    RefusedWasOld(h, k) == \A i \in Ids : (MsgOf(i).kind = k /\ reply[i] = "OLD_EPOCH") =>
                               \E n \in DOMAIN h : h[n][2] >= MsgOf(i).epoch
    RefusalsJustified == Done => RefusedWasOld(cHist, "C") /\ RefusedWasOld(rHist, "R")
    \* the fast path of update_replicators judges later messages by `updating`: once quiescent it must not be ahead of what is
    \* installed, or a lone later message with  rEpoch < epoch <= updating  is refused although it is strictly newer
    FastPathHonest == Done => updating <= rEpoch
end define;

process deliver \in Ids
variables m = MsgOf(self);
begin
d_start:
    if m.kind = "C" then
sm_lock:    if Variant # "no_lock" then await lock = 0; lock := self; end if;
sm_cmp:     if m.epoch <= cEpoch /\ ~m.force then
                reply[self] := "OLD_EPOCH"; goto sm_unlock;
            end if;
sm_map:     if Variant = "epoch_before_map" then cEpoch := m.epoch; else cMap := self; end if;
sm_epoch:   if Variant = "epoch_before_map" then cMap := self; else cEpoch := m.epoch; end if;
            cHist := Append(cHist, <<self, m.epoch, m.force>>);
            reply[self] := "OK";
sm_unlock:  if lock = self then lock := 0; end if;
    else
ur_load:    if ~m.force /\ updating >= m.epoch then
                reply[self] := "OLD_EPOCH"; goto d_end;
            end if;
ur_store:   updating := m.epoch;
ur_wlock:   await wlock = 0; wlock := self;
ur_check:   if ~m.force /\ m.epoch <= rEpoch /\ Variant # "no_recheck" then
                updating := rEpoch;
                reply[self] := "OLD_EPOCH";
            else
                rEpoch := m.epoch; rRoles := self;
                rHist := Append(rHist, <<self, m.epoch, m.force>>);
                if Variant = "resync" then updating := m.epoch; end if;
                reply[self] := "OK";
            end if;
ur_unlock:  wlock := 0;
    end if;
d_end: skip;
end process;

process reader \in {101, 102}
variables e = 0;
begin
r_epoch:
    if self = 101 then
        e := cEpoch;
r_map:  seen := seen \cup {<<"C", e, cMap>>};
    else
        await wlock = 0;                       \* read lock
        seen := seen \cup {<<"R", rEpoch, rRoles>>};
    end if;
end process;
end algorithm; *)
\* BEGIN TRANSLATION (chksum(pcal) = "2aaf9004" /\ chksum(tla) = "42ef7d33")
VARIABLES pc, lock, cEpoch, cMap, updating, wlock, rEpoch, rRoles, reply, 
          cHist, rHist, seen

(* define statement *)
InstallsNewer(h) == \A n \in DOMAIN h : h[n][3] \/ (n = 1 /\ h[n][2] > 0) \/ (n > 1 /\ h[n][2] > h[n - 1][2])
CInstallsNewer == InstallsNewer(cHist)
RInstallsNewer == InstallsNewer(rHist)


AnyForcedC == \E x \in Msgs : x.kind = "C" /\ x.force
ReaderConsistent == \A s \in seen : s[1] = "C" =>
                       (s[2] = 0 \/ (s[3] # 0 /\ (MsgOf(s[3]).epoch >= s[2] \/ AnyForcedC)))

ReplReaderConsistent == \A s \in seen : s[1] = "R" => (s[2] = 0 /\ s[3] = 0) \/ \E n \in DOMAIN rHist : rHist[n][1] = s[3] /\ rHist[n][2] = s[2]

Installed(h) == {h[n][1] : n \in DOMAIN h}
Done == \A i \in Ids : reply[i] # "none"
RepliesTruthful == \A i \in Ids : (reply[i] = "OK" => i \in Installed(IF MsgOf(i).kind = "C" THEN cHist ELSE rHist))
                               /\ (reply[i] = "OLD_EPOCH" => i \notin Installed(IF MsgOf(i).kind = "C" THEN cHist ELSE rHist))


FinalC == Done => (IF cHist = <<>> THEN cEpoch = 0 ELSE cEpoch = cHist[Len(cHist)][2] /\ cMap = cHist[Len(cHist)][1])
FinalR == Done => (IF rHist = <<>> THEN rEpoch = 0 ELSE rEpoch = rHist[Len(rHist)][2] /\ rRoles = rHist[Len(rHist)][1])
RefusedWasOld(h, k) == \A i \in Ids : (MsgOf(i).kind = k /\ reply[i] = "OLD_EPOCH") =>
                           \E n \in DOMAIN h : h[n][2] >= MsgOf(i).epoch
RefusalsJustified == Done => RefusedWasOld(cHist, "C") /\ RefusedWasOld(rHist, "R")


FastPathHonest == Done => updating <= rEpoch

VARIABLES m, e

vars == << pc, lock, cEpoch, cMap, updating, wlock, rEpoch, rRoles, reply, 
           cHist, rHist, seen, m, e >>

ProcSet == (Ids) \cup ({101, 102})

Init == (* Global variables *)
        /\ lock = 0
        /\ cEpoch = 0
        /\ cMap = 0
        /\ updating = 0
        /\ wlock = 0
        /\ rEpoch = 0
        /\ rRoles = 0
        /\ reply = [i \in Ids |-> "none"]
        /\ cHist = <<>>
        /\ rHist = <<>>
        /\ seen = {}
        (* Process deliver *)
        /\ m = [self \in Ids |-> MsgOf(self)]
        (* Process reader *)
        /\ e = [self \in {101, 102} |-> 0]
        /\ pc = [self \in ProcSet |-> CASE self \in Ids -> "d_start"
                                        [] self \in {101, 102} -> "r_epoch"]

d_start(self) == /\ pc[self] = "d_start"
                 /\ IF m[self].kind = "C"
                       THEN /\ pc' = [pc EXCEPT ![self] = "sm_lock"]
                       ELSE /\ pc' = [pc EXCEPT ![self] = "ur_load"]
                 /\ UNCHANGED << lock, cEpoch, cMap, updating, wlock, rEpoch, 
                                 rRoles, reply, cHist, rHist, seen, m, e >>

sm_lock(self) == /\ pc[self] = "sm_lock"
                 /\ IF Variant # "no_lock"
                       THEN /\ lock = 0
                            /\ lock' = self
                       ELSE /\ TRUE
                            /\ lock' = lock
                 /\ pc' = [pc EXCEPT ![self] = "sm_cmp"]
                 /\ UNCHANGED << cEpoch, cMap, updating, wlock, rEpoch, rRoles, 
                                 reply, cHist, rHist, seen, m, e >>

sm_cmp(self) == /\ pc[self] = "sm_cmp"
                /\ IF m[self].epoch <= cEpoch /\ ~m[self].force
                      THEN /\ reply' = [reply EXCEPT ![self] = "OLD_EPOCH"]
                           /\ pc' = [pc EXCEPT ![self] = "sm_unlock"]
                      ELSE /\ pc' = [pc EXCEPT ![self] = "sm_map"]
                           /\ reply' = reply
                /\ UNCHANGED << lock, cEpoch, cMap, updating, wlock, rEpoch, 
                                rRoles, cHist, rHist, seen, m, e >>

sm_map(self) == /\ pc[self] = "sm_map"
                /\ IF Variant = "epoch_before_map"
                      THEN /\ cEpoch' = m[self].epoch
                           /\ cMap' = cMap
                      ELSE /\ cMap' = self
                           /\ UNCHANGED cEpoch
                /\ pc' = [pc EXCEPT ![self] = "sm_epoch"]
                /\ UNCHANGED << lock, updating, wlock, rEpoch, rRoles, reply, 
                                cHist, rHist, seen, m, e >>

sm_epoch(self) == /\ pc[self] = "sm_epoch"
                  /\ IF Variant = "epoch_before_map"
                        THEN /\ cMap' = self
                             /\ UNCHANGED cEpoch
                        ELSE /\ cEpoch' = m[self].epoch
                             /\ cMap' = cMap
                  /\ cHist' = Append(cHist, <<self, m[self].epoch, m[self].force>>)
                  /\ reply' = [reply EXCEPT ![self] = "OK"]
                  /\ pc' = [pc EXCEPT ![self] = "sm_unlock"]
                  /\ UNCHANGED << lock, updating, wlock, rEpoch, rRoles, rHist, 
                                  seen, m, e >>

sm_unlock(self) == /\ pc[self] = "sm_unlock"
                   /\ IF lock = self
                         THEN /\ lock' = 0
                         ELSE /\ TRUE
                              /\ lock' = lock
                   /\ pc' = [pc EXCEPT ![self] = "d_end"]
                   /\ UNCHANGED << cEpoch, cMap, updating, wlock, rEpoch, 
                                   rRoles, reply, cHist, rHist, seen, m, e >>

ur_load(self) == /\ pc[self] = "ur_load"
                 /\ IF ~m[self].force /\ updating >= m[self].epoch
                       THEN /\ reply' = [reply EXCEPT ![self] = "OLD_EPOCH"]
                            /\ pc' = [pc EXCEPT ![self] = "d_end"]
                       ELSE /\ pc' = [pc EXCEPT ![self] = "ur_store"]
                            /\ reply' = reply
                 /\ UNCHANGED << lock, cEpoch, cMap, updating, wlock, rEpoch, 
                                 rRoles, cHist, rHist, seen, m, e >>

ur_store(self) == /\ pc[self] = "ur_store"
                  /\ updating' = m[self].epoch
                  /\ pc' = [pc EXCEPT ![self] = "ur_wlock"]
                  /\ UNCHANGED << lock, cEpoch, cMap, wlock, rEpoch, rRoles, 
                                  reply, cHist, rHist, seen, m, e >>

ur_wlock(self) == /\ pc[self] = "ur_wlock"
                  /\ wlock = 0
                  /\ wlock' = self
                  /\ pc' = [pc EXCEPT ![self] = "ur_check"]
                  /\ UNCHANGED << lock, cEpoch, cMap, updating, rEpoch, rRoles, 
                                  reply, cHist, rHist, seen, m, e >>

ur_check(self) == /\ pc[self] = "ur_check"
                  /\ IF ~m[self].force /\ m[self].epoch <= rEpoch /\ Variant # "no_recheck"
                        THEN /\ updating' = rEpoch
                             /\ reply' = [reply EXCEPT ![self] = "OLD_EPOCH"]
                             /\ UNCHANGED << rEpoch, rRoles, rHist >>
                        ELSE /\ rEpoch' = m[self].epoch
                             /\ rRoles' = self
                             /\ rHist' = Append(rHist, <<self, m[self].epoch, m[self].force>>)
                             /\ IF Variant = "resync"
                                   THEN /\ updating' = m[self].epoch
                                   ELSE /\ TRUE
                                        /\ UNCHANGED updating
                             /\ reply' = [reply EXCEPT ![self] = "OK"]
                  /\ pc' = [pc EXCEPT ![self] = "ur_unlock"]
                  /\ UNCHANGED << lock, cEpoch, cMap, wlock, cHist, seen, m, e >>

ur_unlock(self) == /\ pc[self] = "ur_unlock"
                   /\ wlock' = 0
                   /\ pc' = [pc EXCEPT ![self] = "d_end"]
                   /\ UNCHANGED << lock, cEpoch, cMap, updating, rEpoch, 
                                   rRoles, reply, cHist, rHist, seen, m, e >>

d_end(self) == /\ pc[self] = "d_end"
               /\ TRUE
               /\ pc' = [pc EXCEPT ![self] = "Done"]
               /\ UNCHANGED << lock, cEpoch, cMap, updating, wlock, rEpoch, 
                               rRoles, reply, cHist, rHist, seen, m, e >>

deliver(self) == d_start(self) \/ sm_lock(self) \/ sm_cmp(self)
                    \/ sm_map(self) \/ sm_epoch(self) \/ sm_unlock(self)
                    \/ ur_load(self) \/ ur_store(self) \/ ur_wlock(self)
                    \/ ur_check(self) \/ ur_unlock(self) \/ d_end(self)

r_epoch(self) == /\ pc[self] = "r_epoch"
                 /\ IF self = 101
                       THEN /\ e' = [e EXCEPT ![self] = cEpoch]
                            /\ pc' = [pc EXCEPT ![self] = "r_map"]
                            /\ seen' = seen
                       ELSE /\ wlock = 0
                            /\ seen' = (seen \cup {<<"R", rEpoch, rRoles>>})
                            /\ pc' = [pc EXCEPT ![self] = "Done"]
                            /\ e' = e
                 /\ UNCHANGED << lock, cEpoch, cMap, updating, wlock, rEpoch, 
                                 rRoles, reply, cHist, rHist, m >>

r_map(self) == /\ pc[self] = "r_map"
               /\ seen' = (seen \cup {<<"C", e[self], cMap>>})
               /\ pc' = [pc EXCEPT ![self] = "Done"]
               /\ UNCHANGED << lock, cEpoch, cMap, updating, wlock, rEpoch, 
                               rRoles, reply, cHist, rHist, m, e >>

reader(self) == r_epoch(self) \/ r_map(self)

(* Allow infinite stuttering to prevent deadlock on termination. *)
Terminating == /\ \A self \in ProcSet: pc[self] = "Done"
               /\ UNCHANGED vars

Next == (\E self \in Ids: deliver(self))
           \/ (\E self \in {101, 102}: reader(self))
           \/ Terminating

Spec == Init /\ [][Next]_vars

Termination == <>(\A self \in ProcSet: pc[self] = "Done")

\* END TRANSLATION 
=============================================================================
