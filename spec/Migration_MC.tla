---------------------------- MODULE Migration_MC ----------------------------
EXTENDS Migration
CONSTANT Scenario
MCOps == CASE Scenario = 1 -> {"a", "b", "c"}
           [] Scenario = 2 -> {"a", "b", "c"}
           [] Scenario = 3 -> {"a", "b", "c"}
           [] Scenario = 4 -> {"a", "b"}
           [] Scenario = 5 -> {"a", "b", "c", "d"}
           [] Scenario = 6 -> {"a", "b"}
           [] Scenario = 7 -> {"a", "b", "c"}
MCKind == CASE Scenario = 1 -> [o \in {"a", "b", "c"} |-> CASE o = "a" -> "set" [] o = "b" -> "del" [] OTHER -> "get"]
            [] Scenario = 2 -> [o \in {"a", "b", "c"} |-> CASE o = "a" -> "set" [] o = "b" -> "setex" [] OTHER -> "get"]
            [] Scenario = 3 -> [o \in {"a", "b", "c"} |-> CASE o = "a" -> "del" [] o = "b" -> "get" [] OTHER -> "get"]
            [] Scenario = 4 -> [o \in {"a", "b"} |-> CASE o = "a" -> "del" [] OTHER -> "get"]
            [] Scenario = 5 -> [o \in {"a", "b", "c", "d"} |-> CASE o = "a" -> "set" [] o = "b" -> "del" [] o = "c" -> "get" [] OTHER -> "get"]
            [] Scenario = 6 -> [o \in {"a", "b"} |-> CASE o = "a" -> "getdel" [] OTHER -> "get"]
            [] Scenario = 7 -> [o \in {"a", "b", "c"} |-> CASE o = "a" -> "getdel" [] o = "b" -> "set" [] OTHER -> "get"]
=============================================================================
