CONSTANTS
 N = 2
 K = 1
 MaxGen = 3
 MaxRetry = 1
 Variant = "code"
SPECIFICATION FairSpec
PROPERTY EventuallyAll
INVARIANT OwnReply
INVARIANT InOrder
INVARIANT NothingLost
INVARIANT TypeOK
CHECK_DEADLOCK FALSE
