---------------------------- MODULE Blocking_MC ----------------------------
EXTENDS Blocking
S2 == {"s1", "s2"}
S3 == {"s1", "s2", "s3"}
B1 == {"b1"}
B2 == {"b1", "b2"}
T2 == [s \in S2 |-> "b1"]
T2n == [s \in S2 |-> IF s = "s1" THEN "b1" ELSE "none"]
T3 == [s \in S3 |-> IF s = "s3" THEN "none" ELSE "b1"]
T3b == [s \in S3 |-> IF s = "s3" THEN "b2" ELSE "b1"]
\* liveness: every parked command is eventually re-dispatched
Live == \A t \in Senders : (t \in enqueued) ~> (\E i \in DOMAIN redispatched : redispatched[i] = t)
Terminates == <>(\A p \in Senders \cup Blockers : pc[p] = "Done")
=============================================================================
