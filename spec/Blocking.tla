------------------------------ MODULE Blocking ------------------------------
(***************************************************************************)
(* The pre-switch barrier of a migrating proxy (src/proxy/blocking.rs,     *)
(* src/common/biatomic.rs, and the hint computed by                        *)
(* RedisScanMigratingTask::send in src/migration/scan_task.rs).            *)
(*                                                                         *)
(* One PlusCal label per shared-memory access of the code; the label names *)
(* are exactly the hook labels emitted by the instrumented code            *)
(* (verif_hooks::sched_point) so that recorded schedules can be validated  *)
(* step by step against this algorithm (Blocking_Trace.tla).               *)
(*                                                                         *)
(*  state    BiAtomicU32 (blocking count, term)     blocking_state         *)
(*  running  AtomicI64                               running_cmd            *)
(*  queue    crossbeam unbounded channel             queue_sender/receiver  *)
(*  mig[b]   AtomicMigrationState of blocker b's migrating task            *)
(***************************************************************************)
EXTENDS Naturals, Sequences, FiniteSets, TLC

CONSTANTS Senders,      \* client commands (each is sent once, with retries)
          Blockers,     \* migrating tasks that block this backend
          Target,       \* [Senders -> Blockers \cup {"none"}] whose slot range the command's key is in
          MaxTries      \* loop_send_cmd_ctx retries (3 in the code)

NBM(t) == [kind |-> "NBM", term |-> t]          \* BlockingHint::NotBlockingInMigration(term)
HintBlocking == [kind |-> "Blocking", term |-> 0]
HintNot == [kind |-> "NotBlocking", term |-> 0]
HintMoved == [kind |-> "Moved", term |-> 0]     \* state >= Scanning: redirected, never reaches the queue

\* RedisScanMigratingTask::send
Hint(m, st) ==
    CASE m = "PreCheck" -> NBM(st.term)
      [] m \in {"PreBlocking", "PreSwitch"} -> IF st.count > 0 THEN HintBlocking ELSE NBM(st.term)
      [] OTHER -> HintMoved
\* TaskBlockingQueue::send, the `!blocking` branch
Pass(h, term) == h.kind = "NotBlocking" \/ (h.kind = "NBM" /\ term <= h.term)

(* --algorithm Blocking {
variables state = [count |-> 0, term |-> 0],
          running = 0,
          queue = <<>>,
          mig = [b \in Blockers |-> "PreCheck"],
          innerSent = {},          \* tasks handed to the inner (backend) sender
          completed = {},          \* ... whose reply arrived (CounterTask dropped)
          enqueued = {},           \* tasks ever parked
          redispatched = <<>>,     \* tasks handed to the re-dispatch sender, in order
          barrier = {},            \* blockers that observed blocking_done and still hold the handle
          leak = FALSE;            \* an inner send happened while some blocker was in its barrier

define {
  AllDone == \A p \in Senders \cup Blockers : pc[p] = "Done"
  Count(t, s) == Cardinality({i \in DOMAIN s : s[i] = t})
  \* C11 (i): nothing is handed to the source Redis while the barrier holds
  NoLeak == ~leak
  \* C11 (ii): each parked command is re-dispatched at most once, and exactly once in the end
  AtMostOnce == \A t \in Senders : Count(t, redispatched) <= 1
  ExactlyOnceAtEnd == AllDone => \A t \in Senders : (t \in enqueued) <=> (Count(t, redispatched) = 1)
  \* C11 (iii): nothing stays parked once blocking is over and everybody is done
  Drained == (AllDone /\ state.count = 0) => queue = <<>>
  OnlyParkedRedispatched == \A i \in DOMAIN redispatched : redispatched[i] \in enqueued
  NeverBoth == \A t \in Senders : ~(t \in innerSent /\ t \in enqueued)
  CounterSane == running >= 0 /\ state.count >= 0
}

procedure release_all()            \* BlockingHandleInner::release_all : try_recv loop
  variables rt = "";
{
  r_recv: if (queue # <<>>) {
            rt := Head(queue); queue := Tail(queue);
  r_send:   redispatched := Append(redispatched, rt);
            goto r_recv;
          } else {
            return;
          }
}

fair process (sender \in Senders)                 \* handler -> ... -> TaskBlockingQueue::send
  variables m = "", h = HintNot, st = [count |-> 0, term |-> 0], tries = 0;
{
  s_mig:    if (Target[self] = "none") { m := "none" } else { m := mig[Target[self]] };     \* state.get_state()
  s_hint:   if (Target[self] = "none") { h := HintNot } else { h := Hint(m, state) };      \* get_blocking_state(): one atomic load
            if (h.kind = "Moved") { goto Done };
  s_incref: running := running + 1;                                 \* RefAutoCounter::new
  s_load:   st := state;                                            \* get_blocking_state()
            if (st.count = 0) {
              if (Pass(h, st.term)) {
  s_inctask:    running := running + 1;                             \* CounterTask::new
  s_inner:      innerSent := innerSent \cup {self};                 \* inner_sender.send
                leak := leak \/ (barrier # {});
  s_decref:     running := running - 1;                             \* drop(RefAutoCounter)
                goto Done;
              } else {
  s_decretry:   running := running - 1;                             \* drop(RefAutoCounter); Err(Retry)
                tries := tries + 1;
                if (tries < MaxTries) { goto s_mig } else { goto Done };
              }
            } else {
  s_decref2:  running := running - 1;                               \* drop(counter)
  s_enq:      queue := Append(queue, self);                         \* queue_sender.send
              enqueued := enqueued \cup {self};
  s_reload:   st := state;                                          \* re-check after enqueue
              if (st.count = 0) { call release_all() };
            };
}

fair process (blocker \in Blockers)               \* pre_check / pre_block / pre_switch / handle drop
  variables old = [count |-> 0, term |-> 0], prev = 0;
{
  b_pb:   mig[self] := "PreBlocking";                               \* PRECHECK acknowledged
  b_ld:   old := state;                                             \* compare_and_apply: load
  b_cas:  if (state = old) { state := [count |-> old.count + 1, term |-> old.term + 1] }
          else { goto b_ld };                                       \* CAS failed: retry
  b_poll: if (running # 0) { goto b_poll };                         \* blocking_done()
  b_bar:  barrier := barrier \cup {self};
          mig[self] := "PreSwitch";
  b_sw:   mig[self] := "Scanning";                                  \* PRESWITCH acknowledged
  b_dld:  old := state;                                             \* BlockingHandle::drop: load
  b_dcas: if (state = old) {
            state := [count |-> old.count - 1, term |-> old.term + 1];
            prev := old.count;
            barrier := barrier \ {self};
            if (old.count = 1) { call release_all() };                \* prev_blocking_count == 1
          } else { goto b_dld };
}

fair process (completer = "redis")                \* backend replies: the CounterTask is dropped
{
  c_loop: while (TRUE) {
            await innerSent \ completed # {};
            with (t \in innerSent \ completed) {
              completed := completed \cup {t};
              running := running - 1;
            }
          }
}
} *)
\* BEGIN TRANSLATION (chksum(pcal) = "34e31bee" /\ chksum(tla) = "b478bdd0")
VARIABLES pc, state, running, queue, mig, innerSent, completed, enqueued, 
          redispatched, barrier, leak, stack

(* define statement *)
AllDone == \A p \in Senders \cup Blockers : pc[p] = "Done"
Count(t, s) == Cardinality({i \in DOMAIN s : s[i] = t})

NoLeak == ~leak

AtMostOnce == \A t \in Senders : Count(t, redispatched) <= 1
ExactlyOnceAtEnd == AllDone => \A t \in Senders : (t \in enqueued) <=> (Count(t, redispatched) = 1)

Drained == (AllDone /\ state.count = 0) => queue = <<>>
OnlyParkedRedispatched == \A i \in DOMAIN redispatched : redispatched[i] \in enqueued
NeverBoth == \A t \in Senders : ~(t \in innerSent /\ t \in enqueued)
CounterSane == running >= 0 /\ state.count >= 0

VARIABLES rt, m, h, st, tries, old, prev

vars == << pc, state, running, queue, mig, innerSent, completed, enqueued, 
           redispatched, barrier, leak, stack, rt, m, h, st, tries, old, prev
        >>

ProcSet == (Senders) \cup (Blockers) \cup {"redis"}

Init == (* Global variables *)
        /\ state = [count |-> 0, term |-> 0]
        /\ running = 0
        /\ queue = <<>>
        /\ mig = [b \in Blockers |-> "PreCheck"]
        /\ innerSent = {}
        /\ completed = {}
        /\ enqueued = {}
        /\ redispatched = <<>>
        /\ barrier = {}
        /\ leak = FALSE
        (* Procedure release_all *)
        /\ rt = [ self \in ProcSet |-> ""]
        (* Process sender *)
        /\ m = [self \in Senders |-> ""]
        /\ h = [self \in Senders |-> HintNot]
        /\ st = [self \in Senders |-> [count |-> 0, term |-> 0]]
        /\ tries = [self \in Senders |-> 0]
        (* Process blocker *)
        /\ old = [self \in Blockers |-> [count |-> 0, term |-> 0]]
        /\ prev = [self \in Blockers |-> 0]
        /\ stack = [self \in ProcSet |-> << >>]
        /\ pc = [self \in ProcSet |-> CASE self \in Senders -> "s_mig"
                                        [] self \in Blockers -> "b_pb"
                                        [] self = "redis" -> "c_loop"]

r_recv(self) == /\ pc[self] = "r_recv"
                /\ IF queue # <<>>
                      THEN /\ rt' = [rt EXCEPT ![self] = Head(queue)]
                           /\ queue' = Tail(queue)
                           /\ pc' = [pc EXCEPT ![self] = "r_send"]
                           /\ stack' = stack
                      ELSE /\ pc' = [pc EXCEPT ![self] = Head(stack[self]).pc]
                           /\ rt' = [rt EXCEPT ![self] = Head(stack[self]).rt]
                           /\ stack' = [stack EXCEPT ![self] = Tail(stack[self])]
                           /\ queue' = queue
                /\ UNCHANGED << state, running, mig, innerSent, completed, 
                                enqueued, redispatched, barrier, leak, m, h, 
                                st, tries, old, prev >>

r_send(self) == /\ pc[self] = "r_send"
                /\ redispatched' = Append(redispatched, rt[self])
                /\ pc' = [pc EXCEPT ![self] = "r_recv"]
                /\ UNCHANGED << state, running, queue, mig, innerSent, 
                                completed, enqueued, barrier, leak, stack, rt, 
                                m, h, st, tries, old, prev >>

release_all(self) == r_recv(self) \/ r_send(self)

s_mig(self) == /\ pc[self] = "s_mig"
               /\ IF Target[self] = "none"
                     THEN /\ m' = [m EXCEPT ![self] = "none"]
                     ELSE /\ m' = [m EXCEPT ![self] = mig[Target[self]]]
               /\ pc' = [pc EXCEPT ![self] = "s_hint"]
               /\ UNCHANGED << state, running, queue, mig, innerSent, 
                               completed, enqueued, redispatched, barrier, 
                               leak, stack, rt, h, st, tries, old, prev >>

s_hint(self) == /\ pc[self] = "s_hint"
                /\ IF Target[self] = "none"
                      THEN /\ h' = [h EXCEPT ![self] = HintNot]
                      ELSE /\ h' = [h EXCEPT ![self] = Hint(m[self], state)]
                /\ IF h'[self].kind = "Moved"
                      THEN /\ pc' = [pc EXCEPT ![self] = "Done"]
                      ELSE /\ pc' = [pc EXCEPT ![self] = "s_incref"]
                /\ UNCHANGED << state, running, queue, mig, innerSent, 
                                completed, enqueued, redispatched, barrier, 
                                leak, stack, rt, m, st, tries, old, prev >>

s_incref(self) == /\ pc[self] = "s_incref"
                  /\ running' = running + 1
                  /\ pc' = [pc EXCEPT ![self] = "s_load"]
                  /\ UNCHANGED << state, queue, mig, innerSent, completed, 
                                  enqueued, redispatched, barrier, leak, stack, 
                                  rt, m, h, st, tries, old, prev >>

s_load(self) == /\ pc[self] = "s_load"
                /\ st' = [st EXCEPT ![self] = state]
                /\ IF st'[self].count = 0
                      THEN /\ IF Pass(h[self], st'[self].term)
                                 THEN /\ pc' = [pc EXCEPT ![self] = "s_inctask"]
                                 ELSE /\ pc' = [pc EXCEPT ![self] = "s_decretry"]
                      ELSE /\ pc' = [pc EXCEPT ![self] = "s_decref2"]
                /\ UNCHANGED << state, running, queue, mig, innerSent, 
                                completed, enqueued, redispatched, barrier, 
                                leak, stack, rt, m, h, tries, old, prev >>

s_decref2(self) == /\ pc[self] = "s_decref2"
                   /\ running' = running - 1
                   /\ pc' = [pc EXCEPT ![self] = "s_enq"]
                   /\ UNCHANGED << state, queue, mig, innerSent, completed, 
                                   enqueued, redispatched, barrier, leak, 
                                   stack, rt, m, h, st, tries, old, prev >>

s_enq(self) == /\ pc[self] = "s_enq"
               /\ queue' = Append(queue, self)
               /\ enqueued' = (enqueued \cup {self})
               /\ pc' = [pc EXCEPT ![self] = "s_reload"]
               /\ UNCHANGED << state, running, mig, innerSent, completed, 
                               redispatched, barrier, leak, stack, rt, m, h, 
                               st, tries, old, prev >>

s_reload(self) == /\ pc[self] = "s_reload"
                  /\ st' = [st EXCEPT ![self] = state]
                  /\ IF st'[self].count = 0
                        THEN /\ stack' = [stack EXCEPT ![self] = << [ procedure |->  "release_all",
                                                                      pc        |->  "Done",
                                                                      rt        |->  rt[self] ] >>
                                                                  \o stack[self]]
                             /\ rt' = [rt EXCEPT ![self] = ""]
                             /\ pc' = [pc EXCEPT ![self] = "r_recv"]
                        ELSE /\ pc' = [pc EXCEPT ![self] = "Done"]
                             /\ UNCHANGED << stack, rt >>
                  /\ UNCHANGED << state, running, queue, mig, innerSent, 
                                  completed, enqueued, redispatched, barrier, 
                                  leak, m, h, tries, old, prev >>

s_inctask(self) == /\ pc[self] = "s_inctask"
                   /\ running' = running + 1
                   /\ pc' = [pc EXCEPT ![self] = "s_inner"]
                   /\ UNCHANGED << state, queue, mig, innerSent, completed, 
                                   enqueued, redispatched, barrier, leak, 
                                   stack, rt, m, h, st, tries, old, prev >>

s_inner(self) == /\ pc[self] = "s_inner"
                 /\ innerSent' = (innerSent \cup {self})
                 /\ leak' = (leak \/ (barrier # {}))
                 /\ pc' = [pc EXCEPT ![self] = "s_decref"]
                 /\ UNCHANGED << state, running, queue, mig, completed, 
                                 enqueued, redispatched, barrier, stack, rt, m, 
                                 h, st, tries, old, prev >>

s_decref(self) == /\ pc[self] = "s_decref"
                  /\ running' = running - 1
                  /\ pc' = [pc EXCEPT ![self] = "Done"]
                  /\ UNCHANGED << state, queue, mig, innerSent, completed, 
                                  enqueued, redispatched, barrier, leak, stack, 
                                  rt, m, h, st, tries, old, prev >>

s_decretry(self) == /\ pc[self] = "s_decretry"
                    /\ running' = running - 1
                    /\ tries' = [tries EXCEPT ![self] = tries[self] + 1]
                    /\ IF tries'[self] < MaxTries
                          THEN /\ pc' = [pc EXCEPT ![self] = "s_mig"]
                          ELSE /\ pc' = [pc EXCEPT ![self] = "Done"]
                    /\ UNCHANGED << state, queue, mig, innerSent, completed, 
                                    enqueued, redispatched, barrier, leak, 
                                    stack, rt, m, h, st, old, prev >>

sender(self) == s_mig(self) \/ s_hint(self) \/ s_incref(self)
                   \/ s_load(self) \/ s_decref2(self) \/ s_enq(self)
                   \/ s_reload(self) \/ s_inctask(self) \/ s_inner(self)
                   \/ s_decref(self) \/ s_decretry(self)

b_pb(self) == /\ pc[self] = "b_pb"
              /\ mig' = [mig EXCEPT ![self] = "PreBlocking"]
              /\ pc' = [pc EXCEPT ![self] = "b_ld"]
              /\ UNCHANGED << state, running, queue, innerSent, completed, 
                              enqueued, redispatched, barrier, leak, stack, rt, 
                              m, h, st, tries, old, prev >>

b_ld(self) == /\ pc[self] = "b_ld"
              /\ old' = [old EXCEPT ![self] = state]
              /\ pc' = [pc EXCEPT ![self] = "b_cas"]
              /\ UNCHANGED << state, running, queue, mig, innerSent, completed, 
                              enqueued, redispatched, barrier, leak, stack, rt, 
                              m, h, st, tries, prev >>

b_cas(self) == /\ pc[self] = "b_cas"
               /\ IF state = old[self]
                     THEN /\ state' = [count |-> old[self].count + 1, term |-> old[self].term + 1]
                          /\ pc' = [pc EXCEPT ![self] = "b_poll"]
                     ELSE /\ pc' = [pc EXCEPT ![self] = "b_ld"]
                          /\ state' = state
               /\ UNCHANGED << running, queue, mig, innerSent, completed, 
                               enqueued, redispatched, barrier, leak, stack, 
                               rt, m, h, st, tries, old, prev >>

b_poll(self) == /\ pc[self] = "b_poll"
                /\ IF running # 0
                      THEN /\ pc' = [pc EXCEPT ![self] = "b_poll"]
                      ELSE /\ pc' = [pc EXCEPT ![self] = "b_bar"]
                /\ UNCHANGED << state, running, queue, mig, innerSent, 
                                completed, enqueued, redispatched, barrier, 
                                leak, stack, rt, m, h, st, tries, old, prev >>

b_bar(self) == /\ pc[self] = "b_bar"
               /\ barrier' = (barrier \cup {self})
               /\ mig' = [mig EXCEPT ![self] = "PreSwitch"]
               /\ pc' = [pc EXCEPT ![self] = "b_sw"]
               /\ UNCHANGED << state, running, queue, innerSent, completed, 
                               enqueued, redispatched, leak, stack, rt, m, h, 
                               st, tries, old, prev >>

b_sw(self) == /\ pc[self] = "b_sw"
              /\ mig' = [mig EXCEPT ![self] = "Scanning"]
              /\ pc' = [pc EXCEPT ![self] = "b_dld"]
              /\ UNCHANGED << state, running, queue, innerSent, completed, 
                              enqueued, redispatched, barrier, leak, stack, rt, 
                              m, h, st, tries, old, prev >>

b_dld(self) == /\ pc[self] = "b_dld"
               /\ old' = [old EXCEPT ![self] = state]
               /\ pc' = [pc EXCEPT ![self] = "b_dcas"]
               /\ UNCHANGED << state, running, queue, mig, innerSent, 
                               completed, enqueued, redispatched, barrier, 
                               leak, stack, rt, m, h, st, tries, prev >>

b_dcas(self) == /\ pc[self] = "b_dcas"
                /\ IF state = old[self]
                      THEN /\ state' = [count |-> old[self].count - 1, term |-> old[self].term + 1]
                           /\ prev' = [prev EXCEPT ![self] = old[self].count]
                           /\ barrier' = barrier \ {self}
                           /\ IF old[self].count = 1
                                 THEN /\ stack' = [stack EXCEPT ![self] = << [ procedure |->  "release_all",
                                                                               pc        |->  "Done",
                                                                               rt        |->  rt[self] ] >>
                                                                           \o stack[self]]
                                      /\ rt' = [rt EXCEPT ![self] = ""]
                                      /\ pc' = [pc EXCEPT ![self] = "r_recv"]
                                 ELSE /\ pc' = [pc EXCEPT ![self] = "Done"]
                                      /\ UNCHANGED << stack, rt >>
                      ELSE /\ pc' = [pc EXCEPT ![self] = "b_dld"]
                           /\ UNCHANGED << state, barrier, stack, rt, prev >>
                /\ UNCHANGED << running, queue, mig, innerSent, completed, 
                                enqueued, redispatched, leak, m, h, st, tries, 
                                old >>

blocker(self) == b_pb(self) \/ b_ld(self) \/ b_cas(self) \/ b_poll(self)
                    \/ b_bar(self) \/ b_sw(self) \/ b_dld(self)
                    \/ b_dcas(self)

c_loop == /\ pc["redis"] = "c_loop"
          /\ innerSent \ completed # {}
          /\ \E t \in innerSent \ completed:
               /\ completed' = (completed \cup {t})
               /\ running' = running - 1
          /\ pc' = [pc EXCEPT !["redis"] = "c_loop"]
          /\ UNCHANGED << state, queue, mig, innerSent, enqueued, redispatched, 
                          barrier, leak, stack, rt, m, h, st, tries, old, prev >>

completer == c_loop

(* Allow infinite stuttering to prevent deadlock on termination. *)
Terminating == /\ \A self \in ProcSet: pc[self] = "Done"
               /\ UNCHANGED vars

Next == completer
           \/ (\E self \in ProcSet: release_all(self))
           \/ (\E self \in Senders: sender(self))
           \/ (\E self \in Blockers: blocker(self))
           \/ Terminating

Spec == /\ Init /\ [][Next]_vars
        /\ \A self \in Senders : WF_vars(sender(self)) /\ WF_vars(release_all(self))
        /\ \A self \in Blockers : WF_vars(blocker(self)) /\ WF_vars(release_all(self))
        /\ WF_vars(completer)

Termination == <>(\A self \in ProcSet: pc[self] = "Done")

\* END TRANSLATION 
 
=============================================================================
