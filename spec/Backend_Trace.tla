---------------------------- MODULE Backend_Trace ----------------------------
(* C08 on recorded executions of a REAL proxy server between scripted TCP clients and scripted TCP
   backends (harness tcprig.rs).  One file = several scenarios, each
       cfg, req* (the static request table), then in real order: bk_conn / bk_req / bk_down / reply /
       client_end, and a final end.
   The backend's payloads name the sub-request that elicited them (command, key, value, backend,
   connection generation, ordinal); integer replies are per-key weights whose sums identify key sets.
   Monitors (L1):
     C08.foreign_reply   the n-th reply on a connection is neither an error nor built from payloads the
                         backend produced, before that moment, for exactly the n-th request's sub-requests
     C08.missing_reply   a connection ended with fewer replies than complete requests
     C08.extra_reply     more replies (or stray bytes) than requests                                   *)
EXTENDS Naturals, Sequences, FiniteSets, TLC, Json, IOUtils, SequencesExt, Functions

Rec == ndJsonDeserialize(IOEnv.TRACE)
N == Len(Rec)
VARIABLES l, st, viol, div
vars == <<l, st, viol, div>>

Empty == [reqs |-> <<>>, produced |-> {}]

Sum(s) == FoldLeft(LAMBDA a, b : a + b, 0, s)

Produced(S, cmd, key, val, payload) ==
    \E p \in S : p.cmd = cmd /\ p.key = key /\ p.val = val /\ p.payload = payload
ProducedAny(S, cmd, key, val) ==
    \E p \in S : p.cmd = cmd /\ p.key = key /\ p.val = val

ReplyOK(S, r, e) ==
    CASE e.kind = "err" -> TRUE
      [] r.kind = "GET" -> e.kind = "bulk" /\ Produced(S, "GET", r.keys[1], "", e.items[1])
      [] r.kind = "SET" -> e.kind = "bulk" /\ Produced(S, "SET", r.keys[1], r.vals[1], e.items[1])
      [] r.kind = "MGET" -> /\ e.kind = "arr" /\ Len(e.items) = Len(r.keys)
                            /\ \A j \in DOMAIN r.keys : Produced(S, "GET", r.keys[j], "", e.items[j])
      [] r.kind = "MSET" -> /\ e.kind = "status" /\ e.items[1] = "OK"
                            /\ \A j \in DOMAIN r.keys : ProducedAny(S, "SET", r.keys[j], r.vals[j])
      [] r.kind \in {"DEL", "EXISTS"} ->
                            /\ e.kind = "int" /\ e.int = Sum(r.ws)
                            /\ \A j \in DOMAIN r.keys : ProducedAny(S, r.kind, r.keys[j], "")
      [] r.kind = "PING" -> e.kind = "status" /\ e.items[1] = "OK"          \* answered by the proxy itself
      [] r.kind = "KEYSLOT" -> e.kind = "int" /\ e.int = r.ws[1]             \* answered by the proxy itself
      [] OTHER -> FALSE

Mon(s, e) ==
    CASE e.ev = "reply" ->
            LET k == <<e.conn, e.idx>> IN
            IF k \notin DOMAIN s.reqs THEN {"C08.extra_reply"}
            ELSE IF ReplyOK(s.produced, s.reqs[k], e) THEN {} ELSE {"C08.foreign_reply"}
      [] e.ev = "client_end" ->
            (IF e.got < e.want THEN {"C08.missing_reply"} ELSE {}) \cup
            (IF e.extra > 0 THEN {"C08.extra_reply"} ELSE {})
      [] OTHER -> {}

Div(e) ==
    CASE e.ev = "cfg" -> IF e.up /\ e.meta = "Ok(Status(\"OK\"))" THEN {} ELSE {"RIG.setup"}
      [] e.ev = "rig_error" -> {"RIG.error"}
      [] OTHER -> {}

NextSt(s, e) ==
    CASE e.ev = "cfg" -> Empty
      [] e.ev = "req" -> [s EXCEPT !.reqs = (<<e.conn, e.idx>> :> e) @@ @]
      [] e.ev = "bk_req" -> IF e.produced
                            THEN [s EXCEPT !.produced = @ \cup {[cmd |-> e.cmd, key |-> e.key, val |-> e.val, payload |-> e.payload]}]
                            ELSE s
      [] OTHER -> s

Init == l = 1 /\ st = Empty /\ viol = {} /\ div = {}
Step ==
    /\ l <= N
    /\ LET e == Rec[l] IN
       /\ viol' = viol \cup {<<l, x>> : x \in Mon(st, e)}
       /\ div' = div \cup {<<l, x>> : x \in Div(e)}
       /\ st' = NextSt(st, e)
    /\ l' = l + 1
    /\ (l = N) => JsonSerialize(IOEnv.OUT, [n |-> N,
                      viol |-> SetToSeq({[line |-> v[1], mon |-> v[2]] : v \in viol'}),
                      div |-> SetToSeq({[line |-> v[1], mon |-> v[2]] : v \in div'})])
Spec == Init /\ [][Step]_vars
Consumed == TLCGet("stats").diameter - 1 = N
=============================================================================
