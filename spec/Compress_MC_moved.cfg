SPECIFICATION Spec
CONSTANTS
  Redirect = "moved"
  Fix = "skip_forwarded"
  Strategy = "set_get_only"
INVARIANTS Transparent DisabledIsPlain
CHECK_DEADLOCK FALSE
