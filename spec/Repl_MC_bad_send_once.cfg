SPECIFICATION Spec
CONSTANTS
  Nodes = {n1}
  MaxInstalls = 2
  Variant = "send_once"
CONSTRAINT Bound
INVARIANT RolesOfInstalled
PROPERTY Converges
CHECK_DEADLOCK FALSE
