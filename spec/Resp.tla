-------------------------------- MODULE Resp --------------------------------
(***************************************************************************)
(* The RESP2 wire grammar as an executable oracle (src/protocol).          *)
(* Bytes are integers 0..255, buffers are sequences of bytes.              *)
(*   Value == [t : {"simple","error","int"}, s : Seq(Byte)]                *)
(*          | [t : {"bulk"}, s : Seq(Byte)] | [t : {"nilbulk"}]             *)
(*          | [t : {"arr"}, a : Seq(Value)] | [t : {"nilarr"}]              *)
(*   Dec(buf) == [k |-> "ok", v, n] | [k |-> "incomplete"] | [k |-> "error"] *)
(* Dec is strict: every line ends in CR LF, lengths are decimal digits or  *)
(* exactly -1, a bulk payload is followed by CR LF.                        *)
(***************************************************************************)
EXTENDS Naturals, Integers, Sequences, FiniteSets, TLC

CR == 13
LF == 10
Plus == 43      \* +
Minus == 45     \* -
Colon == 58     \* :
Dollar == 36    \* $
Star == 42      \* *
Digit(b) == b >= 48 /\ b <= 57

RECURSIVE NatToBytes(_)
NatToBytes(n) == IF n < 10 THEN <<48 + n>> ELSE NatToBytes(n \div 10) \o <<48 + (n % 10)>>

RECURSIVE Enc(_)
EncSeq(a) == LET f[i \in 0..Len(a)] == IF i = 0 THEN <<>> ELSE f[i-1] \o Enc(a[i]) IN f[Len(a)]
Enc(v) ==
    CASE v.t = "simple" -> <<Plus>> \o v.s \o <<CR, LF>>
      [] v.t = "error" -> <<Minus>> \o v.s \o <<CR, LF>>
      [] v.t = "int" -> <<Colon>> \o v.s \o <<CR, LF>>
      [] v.t = "bulk" -> <<Dollar>> \o NatToBytes(Len(v.s)) \o <<CR, LF>> \o v.s \o <<CR, LF>>
      [] v.t = "nilbulk" -> <<Dollar, Minus, 49, CR, LF>>
      [] v.t = "arr" -> <<Star>> \o NatToBytes(Len(v.a)) \o <<CR, LF>> \o EncSeq(v.a)
      [] v.t = "nilarr" -> <<Star, Minus, 49, CR, LF>>

Ok(v, n) == [k |-> "ok", v |-> v, n |-> n]
Incomplete == [k |-> "incomplete"]
Error == [k |-> "error"]

\* position of the first LF at or after i (0 if none)
FirstLF(buf, i) ==
    LET js == {j \in i..Len(buf) : buf[j] = LF} IN
    IF js = {} THEN 0 ELSE CHOOSE j \in js : \A x \in js : j <= x

\* a line starting at i: [k |-> "ok", s |-> content, next |-> index after LF]
Line(buf, i) ==
    LET j == FirstLF(buf, i) IN
    IF j = 0 THEN Incomplete
    ELSE IF j = i \/ buf[j-1] # CR THEN Error
    ELSE [k |-> "ok", s |-> SubSeq(buf, i, j - 2), next |-> j + 1]

RECURSIVE BytesToNat(_)
BytesToNat(s) == IF s = <<>> THEN 0 ELSE BytesToNat(SubSeq(s, 1, Len(s) - 1)) * 10 + (s[Len(s)] - 48)

\* a length line: digits, or exactly "-1" (value -1)
LenLine(buf, i) ==
    LET ln == Line(buf, i) IN
    IF ln.k # "ok" THEN ln
    ELSE IF ln.s = <<Minus, 49>> THEN [k |-> "ok", len |-> -1, next |-> ln.next]
    ELSE IF ln.s # <<>> /\ Len(ln.s) <= 9 /\ \A x \in DOMAIN ln.s : Digit(ln.s[x])
         THEN [k |-> "ok", len |-> BytesToNat(ln.s), next |-> ln.next]
    ELSE Error

\* decode one value starting at index i; n is the index after the value
RECURSIVE DecAt(_, _)
RECURSIVE DecElems(_, _, _, _)
DecElems(buf, i, cnt, acc) ==
    IF cnt = 0 THEN [k |-> "ok", a |-> acc, next |-> i]
    ELSE LET r == DecAt(buf, i) IN
         IF r.k # "ok" THEN r ELSE DecElems(buf, r.next, cnt - 1, Append(acc, r.v))
DecAt(buf, i) ==
    IF i > Len(buf) THEN Incomplete
    ELSE LET p == buf[i] IN
    IF p \in {Plus, Minus, Colon} THEN
        LET ln == Line(buf, i + 1) IN
        IF ln.k # "ok" THEN ln
        ELSE [k |-> "ok", next |-> ln.next,
              v |-> [t |-> (CASE p = Plus -> "simple" [] p = Minus -> "error" [] OTHER -> "int"), s |-> ln.s]]
    ELSE IF p = Dollar THEN
        LET ll == LenLine(buf, i + 1) IN
        IF ll.k # "ok" THEN ll
        ELSE IF ll.len = -1 THEN [k |-> "ok", next |-> ll.next, v |-> [t |-> "nilbulk"]]
        ELSE LET e == ll.next + ll.len IN      \* index of the CR after the payload
             \* report malformed terminators as soon as they are visible
             IF e <= Len(buf) /\ buf[e] # CR THEN Error
             ELSE IF e + 1 <= Len(buf) /\ buf[e + 1] # LF THEN Error
             ELSE IF e + 1 > Len(buf) THEN Incomplete
             ELSE [k |-> "ok", next |-> e + 2, v |-> [t |-> "bulk", s |-> SubSeq(buf, ll.next, e - 1)]]
    ELSE IF p = Star THEN
        LET ll == LenLine(buf, i + 1) IN
        IF ll.k # "ok" THEN ll
        ELSE IF ll.len = -1 THEN [k |-> "ok", next |-> ll.next, v |-> [t |-> "nilarr"]]
        ELSE LET r == DecElems(buf, ll.next, ll.len, <<>>) IN
             IF r.k # "ok" THEN r ELSE [k |-> "ok", next |-> r.next, v |-> [t |-> "arr", a |-> r.a]]
    ELSE Error

Dec(buf) == LET r == DecAt(buf, 1) IN IF r.k = "ok" THEN Ok(r.v, r.next - 1) ELSE r

\* decode a whole stream: the packets and how it ends
RECURSIVE DecAll(_, _)
DecAll(buf, acc) ==
    IF buf = <<>> THEN [pkts |-> acc, end |-> "incomplete", rest |-> 0]
    ELSE LET r == Dec(buf) IN
         IF r.k = "ok" THEN DecAll(SubSeq(buf, r.n + 1, Len(buf)), Append(acc, r.v))
         ELSE [pkts |-> acc, end |-> r.k, rest |-> Len(buf)]
=============================================================================
