----------------------------- MODULE Slot_Trace -----------------------------
(* C09: CLUSTER KEYSLOT replies and routing decisions recorded from a real proxy with hand-built
   slot layouts (harness slotrig.rs), compared with Slot.tla. *)
EXTENDS Slot, Json, IOUtils

Rec == ndJsonDeserialize(IOEnv.TRACE)
N == Len(Rec)
VARIABLES l, viol
vars == <<l, viol>>
SetOf(s) == {s[i] : i \in DOMAIN s}

RouteMon(e, slot, prefix) ==
    LET d == Decide(e.layout, slot) IN
    CASE d.k = "local" ->
            (IF e.reply_kind = "ok" THEN {} ELSE {prefix \o "local_slot_not_executed"}) \cup
            (IF e.execs # <<>> /\ SetOf(e.execs) = {d.at} THEN {} ELSE {prefix \o "executed_on_wrong_node"})
      [] d.k = "moved" ->
            (IF e.reply_kind = "moved" /\ e.moved.slot = d.slot /\ e.moved.to = d.to THEN {} ELSE {prefix \o "wrong_moved"}) \cup
            (IF e.execs = <<>> THEN {} ELSE {prefix \o "executed_foreign_slot"})
      [] OTHER ->
            (IF e.reply_kind = "error" THEN {} ELSE {prefix \o "uncovered_slot_not_refused"}) \cup
            (IF e.execs = <<>> THEN {} ELSE {prefix \o "executed_uncovered_slot"})

Mon(e) ==
    CASE e.kind = "keyslot" -> IF e.slot = SlotOf(e.key) THEN {} ELSE {"C09.keyslot"}
      [] e.kind = "route" -> RouteMon(e, SlotOf(e.key), "C09.")
      [] e.kind = "multi" ->
            IF SameSlot(e.keys) THEN RouteMon(e, SlotOf(e.keys[1]), "C09.multi_")
            ELSE (IF e.reply_kind = "error" THEN {} ELSE {"C09.cross_slot_not_refused"}) \cup
                 (IF e.execs = <<>> THEN {} ELSE {"C09.cross_slot_partially_executed"})
      [] e.kind = "layout" -> IF e.reply.t = "simple" THEN {} ELSE {"C09.layout_rejected"}
      [] OTHER -> {}

Init == l = 1 /\ viol = {}
Step ==
    /\ l <= N
    /\ viol' = viol \cup {<<l, x>> : x \in Mon(Rec[l])}
    /\ l' = l + 1
    /\ (l = N) => JsonSerialize(IOEnv.OUT, [n |-> N, viol |-> SetToSeq({[line |-> v[1], mon |-> v[2]] : v \in viol'}), div |-> <<>>])
Spec == Init /\ [][Step]_vars
Consumed == TLCGet("stats").diameter - 1 = N
=============================================================================
