CONSTANTS
 Scenario = 3
 InitTtl = "zero"
 Variant = "ttl_zero_persist"
 GetdelBlocking = TRUE
 OwnerSwitch = "sync"
 Ops <- MCOps
 Kind <- MCKind
SPECIFICATION Spec
INVARIANT NoStaleRead
INVARIANT FinalPlacement
INVARIANT TtlKept
CHECK_DEADLOCK FALSE
