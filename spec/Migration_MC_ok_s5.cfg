CONSTANTS
 Scenario = 5
 InitTtl = "some"
 Variant = "code"
 OwnerSwitch = "sync"
 Ops <- MCOps
 Kind <- MCKind
SPECIFICATION Spec
INVARIANT NoStaleRead
INVARIANT FinalPlacement
INVARIANT TtlKept
CHECK_DEADLOCK FALSE
