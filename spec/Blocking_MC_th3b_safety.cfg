SPECIFICATION Spec
CONSTANTS
  Senders <- S3
  Blockers <- B2
  Target <- T3b
  MaxTries = 3
  defaultInitValue = "dflt"
INVARIANTS NoLeak AtMostOnce ExactlyOnceAtEnd Drained OnlyParkedRedispatched NeverBoth CounterSane
CHECK_DEADLOCK FALSE
