--------------------------- MODULE ProxyMeta_Trace ---------------------------
(* C05: deliveries recorded from a real proxy (harness metarig.rs) against ProxyMeta.tla. *)
EXTENDS ProxyMeta, Json, IOUtils, SequencesExt
Rec == ndJsonDeserialize(IOEnv.TRACE)
N == Len(Rec)
VARIABLES l, s, viol
vars == <<l, s, viol>>

SeqMon(e) ==
    LET d == Deliver(s, e.msg) IN
    (IF e.reply = d.reply THEN {} ELSE {"C05.reply"}) \cup
    (IF e.getepoch = GetEpoch(d.s) THEN {} ELSE {"C05.reported_epoch"}) \cup
    (IF e.route = Routes(d.s) THEN {} ELSE {"C05.routing_not_of_installed_epoch"}) \cup
    (IF e.repl = Roles(d.s) THEN {} ELSE {"C05.roles_not_of_installed_epoch"})

\* concurrent batch of non-forced messages of one kind
ConcMon(e) ==
    LET idx == DOMAIN e.msgs
        oks == {i \in idx : e.replies[i] = "OK"}
        epochs == {e.msgs[i].epoch : i \in idx}
        top == Max(epochs \cup {e.pre})
        tops == {i \in idx : e.msgs[i].epoch = top}
        \* (epoch, content) pairs that were ever accepted
        acc == {<<e.msgs[i].epoch, e.msgs[i].content>> : i \in oks} \cup (IF e.pre > 0 THEN {<<e.pre, 1>>} ELSE {})
    IN
    (IF \A i \in idx : e.replies[i] \in {"OK", "OLD_EPOCH"} THEN {} ELSE {"C05.conc_reply_kind"}) \cup
    \* at most one message per epoch value is applied, none at or below the pre-installed epoch
    (IF \A i, j \in oks : i # j => e.msgs[i].epoch # e.msgs[j].epoch THEN {} ELSE {"C05.conc_equal_epoch_applied_twice"}) \cup
    (IF \A i \in oks : e.msgs[i].epoch > e.pre THEN {} ELSE {"C05.conc_stale_applied"}) \cup
    \* the newest epoch of the batch is applied exactly once (if it is newer than what was installed)
    (IF top > e.pre /\ Cardinality(tops \cap oks) # 1 THEN {"C05.conc_newest_not_applied"} ELSE {}) \cup
    \* (the replication epoch is not reported by any command: epoch clauses apply to cluster messages)
    (IF e.mkind = "C" /\ e.final_epoch # top THEN {"C05.conc_final_epoch"} ELSE {}) \cup
    (IF \E a \in acc : a[1] = top /\ a[2] = e.final_content THEN {} ELSE {"C05.conc_final_content"}) \cup
    \* a reader that saw epoch x then looked at the routing / roles sees content of an accepted message with epoch >= x
    (IF e.mkind = "C" /\ ~(\A r \in DOMAIN e.reads :
            e.reads[r].epoch = 0 \/ e.reads[r].content = 0 \/ \E a \in acc : a[1] >= e.reads[r].epoch /\ a[2] = e.reads[r].content)
     THEN {"C05.conc_reader_saw_older_content"} ELSE {}) \cup
    (IF e.mkind = "R" /\ ~(\A r \in DOMAIN e.reads : e.reads[r].content = 0 \/ \E a \in acc : a[2] = e.reads[r].content)
     THEN {"C05.conc_reader_saw_unaccepted_roles"} ELSE {}) \cup
    (IF \A r1, r2 \in DOMAIN e.reads : r1 < r2 => e.reads[r1].epoch <= e.reads[r2].epoch THEN {} ELSE {"C05.conc_epoch_regressed"})

\* a batch of concurrent replication messages, some of them FORCED (spec/MetaConc.tla), followed by one lone non-forced message:
\* the lone message is judged, by the sequential contract, against the message whose roles are installed after the batch
RaceMon(e) ==
    IF e.free_run THEN {} ELSE
    LET idx == DOMAIN e.msgs
        oks == {i \in idx : e.replies[i] = "OK"}
        st == [InitState EXCEPT !.rEpoch = e.installed_epoch, !.rContent = e.installed_id]
        d == Deliver(st, [kind |-> "R", epoch |-> e.late.epoch, force |-> FALSE, content |-> e.late.id, hostOk |-> TRUE]) IN
    (IF \A i \in idx : e.msgs[i].force => e.replies[i] = "OK" THEN {} ELSE {"C05.forced_message_refused"}) \cup
    (IF e.installed_id = 0 \/ e.installed_id \in oks THEN {} ELSE {"C05.race_roles_of_unaccepted_message"}) \cup
    (IF oks # {} /\ e.installed_id = 0 THEN {"C05.race_accepted_but_nothing_installed"} ELSE {}) \cup
    (IF e.late_reply = d.reply THEN {} ELSE {"C05.lone_message_misjudged_after_race"}) \cup
    (IF e.after_id = Roles(d.s) THEN {} ELSE {"C05.roles_not_of_accepted_message_after_race"})

Init == l = 1 /\ s = InitState /\ viol = {}
Step ==
    /\ l <= N
    /\ LET e == Rec[l] IN
       CASE e.kind = "reset" -> s' = InitState /\ viol' = viol
         [] e.kind = "deliver" -> s' = Deliver(s, e.msg).s /\ viol' = viol \cup {<<l, x>> : x \in SeqMon(e)}
         [] e.kind = "concurrent" -> s' = s /\ viol' = viol \cup {<<l, x>> : x \in ConcMon(e)}
         [] e.kind = "race" -> s' = s /\ viol' = viol \cup {<<l, x>> : x \in RaceMon(e)}
         [] OTHER -> UNCHANGED <<s, viol>>
    /\ l' = l + 1
    /\ (l = N) => JsonSerialize(IOEnv.OUT, [n |-> N, viol |-> SetToSeq({[line |-> v[1], mon |-> v[2]] : v \in viol'}), div |-> <<>>])
Spec == Init /\ [][Step]_vars
Consumed == TLCGet("stats").diameter - 1 = N
=============================================================================
