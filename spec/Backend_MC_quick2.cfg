CONSTANTS
 N = 3
 K = 2
 MaxGen = 2
 MaxRetry = 1
 Variant = "code"
SPECIFICATION Spec
PROPERTY SendOnce
INVARIANT OwnReply
INVARIANT InOrder
INVARIANT NothingLost
INVARIANT TypeOK
CHECK_DEADLOCK FALSE
