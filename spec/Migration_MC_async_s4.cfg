CONSTANTS
 Scenario = 4
 InitTtl = "none"
 Variant = "code"
 GetdelBlocking = TRUE
 OwnerSwitch = "async"
 Ops <- MCOps
 Kind <- MCKind
SPECIFICATION Spec
INVARIANT NoStaleRead
INVARIANT FinalPlacement
INVARIANT TtlKept
CHECK_DEADLOCK FALSE
