SPECIFICATION Spec
CONSTANTS
  Coords = {c1}
  MaxEpoch = 2
  MaxFaults = 1
  Variant = "asbuilt"
  Features = {"failover","crash"}

INVARIANTS TypeOK NeverAhead CommitOnce DstBeforeSrc Owned NoLoneFailover
PROPERTIES NoOlder Converges
CHECK_DEADLOCK FALSE
