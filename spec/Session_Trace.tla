---------------------------- MODULE Session_Trace ----------------------------
(* C16 on recorded runs of a real proxy server in a CHILD PROCESS (harness hostilerig.rs).  One line per
   case: one hostile input on a fresh connection, followed by a PING on a second connection.
   Monitors (L1):
     C16.process_died      the proxy process is gone after the case (exit status / signal recorded)
     C16.panicked          a panic (or allocator / stack-overflow abort message) was reported during the case
     C16.wedged            the bystander connection got no reply while the process was alive
     C16.no_reply_no_close the input held a complete request and the proxy neither replied nor closed the
                           connection within 4 s + 1.5 s per MiB of input
     C16.memory            peak resident memory of the process grew by more than 64 x bytes + 32 MiB
     C16.cpu_time          the process consumed more CPU time during the case than 3 s + 30 ms per KiB of input
                           (CPU time of the child, read from /proc: independent of how busy the machine is)
   Wall-clock waits are patient (the rig keeps waiting 40 s beyond the nominal deadline unless the CPU budget is
   already exceeded twice over), so that a loaded machine cannot produce an alarm.                                *)
EXTENDS Naturals, Integers, Sequences, FiniteSets, TLC, Json, IOUtils, SequencesExt

Rec == ndJsonDeserialize(IOEnv.TRACE)
N == Len(Rec)
VARIABLES l, viol, div
vars == <<l, viol, div>>

Mon(e) ==
    IF e.ev # "case" THEN {} ELSE
    (IF ~e.alive THEN {"C16.process_died"} ELSE {}) \cup
    (IF e.panics > 0 THEN {"C16.panicked"} ELSE {}) \cup
    (IF e.alive /\ e.probe # "reply" THEN {"C16.wedged"} ELSE {}) \cup
    (IF e.complete /\ e.outcome = "nothing" THEN {"C16.no_reply_no_close"} ELSE {}) \cup
    (IF "cpu_ms" \in DOMAIN e /\ e.cpu_ms > e.cpu_budget_ms THEN {"C16.cpu_time"} ELSE {}) \cup
    (IF e.alive /\ e.hwm_after_kb - e.rss_before_kb > (64 * e.bytes) \div 1024 + 32768 THEN {"C16.memory"} ELSE {})

Div(e) == IF e.ev = "rig_error" THEN {"RIG.error"} ELSE {}

Init == l = 1 /\ viol = {} /\ div = {}
Step ==
    /\ l <= N
    /\ viol' = viol \cup {<<l, x>> : x \in Mon(Rec[l])}
    /\ div' = div \cup {<<l, x>> : x \in Div(Rec[l])}
    /\ l' = l + 1
    /\ (l = N) => JsonSerialize(IOEnv.OUT, [n |-> N,
                      viol |-> SetToSeq({[line |-> v[1], mon |-> v[2]] : v \in viol'}),
                      div |-> SetToSeq({[line |-> v[1], mon |-> v[2]] : v \in div'})])
Spec == Init /\ [][Step]_vars
Consumed == TLCGet("stats").diameter - 1 = N
=============================================================================
