SPECIFICATION HSpec
CONSTANTS
  Senders <- S3
  Blockers <- B1
  Target <- T3
  MaxTries = 3
  defaultInitValue = "dflt"
CONSTRAINT SimConstraint
CHECK_DEADLOCK FALSE
